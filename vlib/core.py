"""Shared machinery of every check: build dirs, coqc runner, case files, findings, evidence.

A check module (checks/cNN.py) exposes `run(ctx)`.  It calls, in this order,
  ctx.gen(...)            write facts regenerated from /repo (tie T1)
  ctx.prove([...])        coqc the instantiation + property files  (proof obligations)
  ctx.cases(...)          evaluate the model on the inputs the implementation ran (tie T3/T2)
  ctx.deviation(...)      report an implementation-vs-spec disagreement (a concrete failing input)
  ctx.broken(...)         report a proof obligation / correspondence that no longer checks
and core.finish() turns that into KNOWN-FINDING / VIOLATION lines, the evidence file and the
exit status.
"""
from __future__ import annotations

import hashlib
import json
import os
import re
import shutil
import subprocess
import sys
import time
from concurrent.futures import ThreadPoolExecutor

VERIF = os.path.dirname(os.path.dirname(os.path.abspath(__file__)))
REPO = os.environ.get("VERIF_REPO", "/repo")
COQ = os.path.join(VERIF, "coq")
THEORIES = os.path.join(COQ, "theories")
PY = "/venv/bin/python"
FORBIDDEN = re.compile(
    r"\b(Admitted|admit|Axiom|Axioms|Parameter|Parameters|Conjecture|Conjectures|"
    r"Unset\s+Guard|bypass_check|type-in-type|impredicative-set|Admit\s+Obligations)\b"
)

LEVELS = ("exploration", "fault_enumeration", "model_checking", "proof", "translation_validation", "other")


def env_for_impl():
    e = dict(os.environ)
    e["PYTHONPATH"] = REPO
    e["PYTHONHASHSEED"] = "0"
    e["SQLFRAME_VERIF"] = "1"
    e["PYSPARK_PYTHON"] = PY
    return e


def sh(cmd, timeout=600, cwd=None, env=None, input=None):
    p = subprocess.run(
        cmd, shell=isinstance(cmd, str), cwd=cwd, env=env, input=input,
        stdout=subprocess.PIPE, stderr=subprocess.PIPE, text=True, timeout=timeout,
    )
    return p.returncode, p.stdout, p.stderr


# ----------------------------------------------------------------------------------------------
# Coq literals
# ----------------------------------------------------------------------------------------------

def zlit(n: int) -> str:
    return f"({int(n)})%Z"


def natlit(n: int) -> str:
    assert 0 <= n < 5000, n
    return f"{int(n)}%nat"


def strlit(s: str) -> str:
    """Coq string literal (ASCII printable only; others are refused so nothing is guessed)."""
    for ch in s:
        if not (32 <= ord(ch) < 127):
            raise ValueError(f"non-printable/non-ASCII char in Coq string literal: {s!r}")
    return '"' + s.replace('"', '""') + '"%string'


def listlit(items) -> str:
    return "[" + "; ".join(items) + "]"


def optlit(x) -> str:
    return "None" if x is None else f"(Some {x})"


def boollit(b) -> str:
    return "true" if b else "false"


# ----------------------------------------------------------------------------------------------

class Ctx:
    def __init__(self, pid: str, tier: str, seed: int, level: str):
        assert level in LEVELS
        self.pid, self.tier, self.seed, self.level = pid, tier, seed, level
        self.t0 = time.time()
        self.build = os.path.join(VERIF, "build", pid)
        if os.path.isdir(self.build):
            shutil.rmtree(self.build)
        os.makedirs(os.path.join(self.build, "gen"))
        os.makedirs(os.path.join(self.build, "cases"))
        # self-tests against a scratch copy of the repository must not overwrite the real evidence
        self.evidence_dir = os.path.join(VERIF, "evidence") if REPO == "/repo" else os.path.join(self.build, "evidence")
        self.replays = os.path.join(self.evidence_dir, "replays")
        os.makedirs(self.replays, exist_ok=True)
        for f in os.listdir(self.replays):      # replay files of earlier runs of this check are stale
            if f.startswith(pid + "-") and f.endswith(".json"):
                os.remove(os.path.join(self.replays, f))
        self.obligations = 0
        self.discharged = 0
        self.checker_cmds: list[str] = []
        self.assumptions_printed: list[str] = []
        self.t1_facts: list[dict] = []
        self.deviations: list[dict] = []   # concrete failing inputs (impl vs spec)
        self.brokens: list[dict] = []      # obligations / ties that no longer check
        self.coverage: dict = {}
        self.samples: list = []
        self.assumptions: list[str] = []
        self.trusted: list[str] = [
            "Coq 8.16.1 kernel (coqc, full .vo builds); vm_compute used for instantiation obligations, "
            "refutation witnesses and case evaluation; native_compute not used",
            "no axioms declared in /verif/coq (grep gate on every run)",
        ]
        self.known = load_known(pid)
        self.known_hits: dict[str, dict] = {}
        self.case_files = 0
        self.log_lines: list[str] = []

    # -- logging ---------------------------------------------------------------------------
    def log(self, *a):
        s = " ".join(str(x) for x in a)
        self.log_lines.append(s)
        print(f"[{self.pid} {time.time() - self.t0:6.1f}s] {s}", flush=True)

    # -- T1: generated facts -----------------------------------------------------------------
    def gen(self, name: str, text: str, facts: list[dict] | None = None):
        path = os.path.join(self.build, "gen", name + ".v")
        with open(path, "w") as f:
            f.write(text)
        for fa in facts or []:
            self.t1_facts.append(fa)
        return path

    # -- proofs ------------------------------------------------------------------------------
    def coq_args(self):
        return ["-Q", THEORIES, "SF", "-Q", os.path.join(self.build, "gen"), "Gen",
                "-Q", os.path.join(self.build, "cases"), "Cases"]

    def ensure_theories(self):
        """Generic theory is independent of /repo; (re)build it if setup has not (cheap when built).
        Serialised with a file lock; `make -k` so that one unfinished file does not block the others --
        each check verifies the .vo files it depends on in prove()."""
        rc, out, err = sh(f"{VERIF}/bin/setup 2>&1 | tail -30", timeout=3300)
        self.setup_tail = out[-3000:]
        return True

    def coqc(self, path: str, timeout=300):
        cmd = ["timeout", str(timeout), "coqc", *self.coq_args(), path]
        t = time.time()
        p = subprocess.run(cmd, stdout=subprocess.PIPE, stderr=subprocess.PIPE, text=True, cwd=self.build)
        return p.returncode, p.stdout, p.stderr, time.time() - t, " ".join(cmd)

    def prove(self, files: list[str], dep_theories: list[str] | None = None):
        """Compile gen/ + property files in the given order.  Every Qed-closed statement in them and in
        the generic theory files named in dep_theories is an obligation; it is discharged iff its file
        compiled.  Returns True iff all compiled."""
        ok_all = True
        for th in dep_theories or []:
            v = os.path.join(THEORIES, th)
            n = count_obligations(v)
            self.obligations += n
            gate = grep_gate([v])
            if gate:
                ok_all = False
                self.broken("axiom-gate:" + th, "; ".join(gate[:5]))
                continue
            if os.path.exists(v + "o") and os.path.getmtime(v + "o") >= os.path.getmtime(v):
                self.discharged += n
            else:
                ok_all = False
                self.broken("theory:" + th, f"{th} has no up-to-date .vo (generic theory did not build)\n"
                            + getattr(self, "setup_tail", ""))
        for path in files:
            gate = grep_gate([path])
            n = count_obligations(path)
            self.obligations += n
            if gate:
                ok_all = False
                self.broken("axiom-gate:" + os.path.basename(path), "; ".join(gate[:5]))
                continue
            rc, out, err, dt, cmd = self.coqc(path)
            self.checker_cmds.append(cmd)
            if rc == 0:
                self.discharged += n
                if os.path.dirname(os.path.abspath(path)) == os.path.join(COQ, "props"):
                    self.props_compiled = getattr(self, "props_compiled", []) + [path]
                for blk in parse_assumptions(out):
                    self.assumptions_printed.append(f"{os.path.basename(path)}: {blk}")
            else:
                ok_all = False
                self.broken("proof:" + os.path.basename(path), (err or out)[-2500:])
                self.log(f"coqc FAILED {path} ({dt:.1f}s)")
        return ok_all

    def coqchk(self, timeout=1500):
        """thorough tier: re-check the compiled property files (and everything they depend on) with Coq's independent
        checker and record the axioms it reports"""
        mods = [os.path.splitext(os.path.basename(f))[0] for f in getattr(self, "props_compiled", [])]
        if not mods:
            return
        cmd = ["timeout", str(timeout), "coqchk", "-silent", "-o", "-Q", THEORIES, "SF",
               "-Q", os.path.join(self.build, "gen"), "Gen", "-R", os.path.join(COQ, "props"), "", *mods]
        p = subprocess.run(cmd, stdout=subprocess.PIPE, stderr=subprocess.PIPE, text=True, cwd=self.build)
        out = (p.stdout + p.stderr)
        m = re.search(r"\* Axioms:(.*?)\n\s*\n\* Constants", out, re.S)
        axioms = re.sub(r"\s+", " ", m.group(1)).strip() if m else "?"
        self.checker_cmds.append(" ".join(cmd))
        self.trusted.append(f"coqchk -o on {mods}: exit {p.returncode}; Axioms: {axioms}")
        self.coverage["coqchk"] = {"modules": mods, "exit": p.returncode, "axioms": axioms}
        if p.returncode != 0:
            self.broken("coqchk", out[-2000:])

    # -- model evaluation on cases -----------------------------------------------------------
    def cases(self, tag: str, header: str, items: list[str], per_file: int = 250,
              result_ty: str = "bool", fn: str = "check", timeout=600) -> list:
        """items[i] is a Coq term; evaluates `fn item` for each with vm_compute, in shards compiled in
        parallel.  Returns list of parsed results (bool for result_ty bool, raw string otherwise)."""
        shards = [items[i:i + per_file] for i in range(0, len(items), per_file)]
        paths = []
        for k, sh_items in enumerate(shards):
            path = os.path.join(self.build, "cases", f"{tag}_{k}.v")
            with open(path, "w") as f:
                f.write(header + "\n")
                f.write(f"Definition cases_{k} := " + "[\n  " + ";\n  ".join(sh_items) + "\n].\n")
                if result_ty == "bool":
                    f.write(f'Definition enc_{k} := String.concat "" (map (fun c => if {fn} c then "1" else "0")%string cases_{k}).\n')
                else:
                    f.write(f'Definition enc_{k} := String.concat "|" (map {fn} cases_{k}).\n')
                f.write(f"Eval vm_compute in enc_{k}.\n")
            paths.append(path)
        self.case_files += len(paths)

        def one(path):
            return self.coqc(path, timeout=timeout)

        out_all = []
        with ThreadPoolExecutor(max_workers=14) as ex:
            results = list(ex.map(one, paths))
        for path, (rc, out, err, dt, cmd), sh_items in zip(paths, results, shards):
            if rc != 0:
                self.broken("cases:" + os.path.basename(path), (err or out)[-2500:])
                out_all.extend([None] * len(sh_items))
                continue
            m = re.search(r'=\s*"(.*)"\s*:\s*string', out, re.S)
            if not m:
                self.broken("cases-parse:" + os.path.basename(path), out[-1000:])
                out_all.extend([None] * len(sh_items))
                continue
            body = re.sub(r"\s*\n\s*", "", m.group(1)) if result_ty == "bool" else m.group(1)
            if result_ty == "bool":
                vals = [c == "1" for c in body]
            else:
                vals = body.replace('""', '"').split("|")
            if len(vals) != len(sh_items):
                self.broken("cases-count:" + os.path.basename(path), f"{len(vals)} results for {len(sh_items)} cases")
                vals = (vals + [None] * len(sh_items))[:len(sh_items)]
            out_all.extend(vals)
        return out_all

    def coq_eval(self, header: str, term: str, timeout=120) -> str:
        """One-off evaluation (used to put the model's/spec's answer into a replay file)."""
        h = hashlib.md5((header + term).encode()).hexdigest()[:10]
        path = os.path.join(self.build, "cases", f"eval_{h}.v")
        with open(path, "w") as f:
            f.write(header + "\nEval vm_compute in (" + term + ").\n")
        rc, out, err, dt, cmd = self.coqc(path, timeout=timeout)
        return (out if rc == 0 else "ERROR: " + err)[-4000:]

    # -- verdicts ----------------------------------------------------------------------------
    def deviation(self, signature: str, what: str, replay: dict):
        """A concrete input on which the implementation disagrees with the property's spec."""
        self.deviations.append({"signature": signature, "what": what, "replay": replay})

    def broken(self, name: str, detail: str, data=None):
        self.brokens.append({"name": name, "detail": detail, "data": data})
        self.log(f"BROKEN {name}: {detail[:300]}")

    def sample(self, x):
        if len(self.samples) < 6:
            self.samples.append(x)


def load_known(pid):
    path = os.path.join(VERIF, "known_findings.json")
    if not os.path.exists(path):
        return []
    with open(path) as f:
        data = json.load(f)
    found = [k for k in data.get("findings", []) if k.get("property") == pid]
    # per-property staging files written while a check is being developed (merged into known_findings.json)
    extra = os.path.join(VERIF, "findings", pid + ".known.json")
    if os.path.exists(extra):
        with open(extra) as f:
            found += [k for k in json.load(f).get("findings", []) if k.get("property") == pid]
    return found


def count_obligations(path: str) -> int:
    try:
        txt = open(path).read()
    except OSError:
        return 0
    txt = re.sub(r"\(\*.*?\*\)", "", txt, flags=re.S)
    return len(re.findall(r"\b(Qed|Defined)\s*\.", txt))


def grep_gate(paths) -> list[str]:
    bad = []
    for p in paths:
        files = []
        if os.path.isdir(p):
            for root, _, fs in os.walk(p):
                files += [os.path.join(root, f) for f in fs if f.endswith(".v")]
        else:
            files = [p]
        for f in files:
            try:
                txt = open(f).read()
            except OSError:
                continue
            txt = re.sub(r"\(\*.*?\*\)", "", txt, flags=re.S)
            for m in FORBIDDEN.finditer(txt):
                bad.append(f"{f}: {m.group(0)}")
            # Variable/Hypothesis outside a Section
            depth = 0
            for line in txt.splitlines():
                s = line.strip()
                if re.match(r"Section\s+\w+\s*\.", s):
                    depth += 1
                elif re.match(r"End\s+\w+\s*\.", s) and depth > 0:
                    depth -= 1
                elif depth == 0 and re.match(r"(Variable|Variables|Hypothesis|Hypotheses|Context)\b", s):
                    bad.append(f"{f}: {s[:40]} outside Section")
    return bad


def parse_assumptions(out: str) -> list[str]:
    """every `Print Assumptions` output in coqc's stdout: either the closed-context sentence or an `Axioms:` block"""
    res, cur = [], None
    for line in out.splitlines():
        if line.startswith("Closed under the global context"):
            if cur is not None:
                res.append(" ".join(cur))
                cur = None
            res.append("Closed under the global context")
        elif line.startswith("Axioms:"):
            if cur is not None:
                res.append(" ".join(cur))
            cur = ["Axioms:"]
        elif cur is not None:
            if line.strip() == "" or (not line.startswith(" ") and " : " not in line and not line.strip().startswith(":")):
                res.append(" ".join(cur))
                cur = None
            else:
                cur.append(line.strip())
    if cur is not None:
        res.append(" ".join(cur))
    return res


def finish(ctx: Ctx):
    """Decide, print, write evidence, return exit status."""
    known_sigs = {k["signature"]: k for k in ctx.known if k.get("status", "known") == "known"}
    violations = []
    known_hit: dict[str, dict] = {}
    for d in ctx.deviations:
        if d["signature"] in known_sigs:
            known_hit.setdefault(d["signature"], d)
        else:
            violations.append(d)
    lines = []
    for sig, d in sorted(known_hit.items()):
        lines.append(f"KNOWN-FINDING: property={ctx.pid} {sig}: {known_sigs[sig].get('what', d['what'])}")
    nviol = 0
    seen_sig = set()
    for d in violations:
        if d["signature"] in seen_sig or len(seen_sig) >= 5:
            continue
        seen_sig.add(d["signature"])
        nviol += 1
        path = os.path.join(ctx.replays, f"{ctx.pid}-{nviol}.json")
        with open(path, "w") as f:
            json.dump({"property": ctx.pid, "kind": "failing-input", "signature": d["signature"],
                       "what": d["what"], "replay": d["replay"],
                       "broken_obligations_or_ties": [b["name"] for b in ctx.brokens]}, f, indent=1, default=str)
        lines.append(f"VIOLATION property={ctx.pid} replay={path}")
    if ctx.brokens:
        path = os.path.join(ctx.replays, f"{ctx.pid}-broken.json")
        with open(path, "w") as f:
            json.dump({"property": ctx.pid, "kind": "no-failing-input-found" if not violations else "broken-with-failing-input",
                       "no_longer_checks": ctx.brokens}, f, indent=1, default=str)
        if not violations:
            nviol += 1
            lines.append(f"VIOLATION property={ctx.pid} replay={path} no-failing-input-found")
    cov = dict(ctx.coverage)
    cov.setdefault("samples", ctx.samples or ["(no sample recorded)"])
    cov["t1_facts"] = ctx.t1_facts
    cov["case_files"] = ctx.case_files
    cov["known_findings_replayed"] = sorted(known_hit)
    cov["known_findings_listed"] = sorted(known_sigs)
    cov["broken"] = [b["name"] for b in ctx.brokens]
    if ctx.level == "proof" or ctx.obligations:
        cov["obligations"] = ctx.obligations
        cov["discharged"] = ctx.discharged
        cov["checker_cmd"] = "; ".join(dict.fromkeys(ctx.checker_cmds))[:4000] or "make -C /verif/coq"
        cov["trusted_base"] = ctx.trusted + ["Print Assumptions: " + a for a in ctx.assumptions_printed]
    if ctx.level == "other":
        cov.setdefault("explanation", "see MANIFEST level_note")
    cov.setdefault("evaluations", 0)
    cov.setdefault("distinct_nontrivial", 0)
    ev = {
        "property_id": ctx.pid, "tier": ctx.tier, "seed": ctx.seed, "level": ctx.level,
        "coverage": cov, "assumptions": ctx.assumptions, "wall_s": round(time.time() - ctx.t0, 2),
        "violations": nviol,
    }
    os.makedirs(ctx.evidence_dir, exist_ok=True)
    with open(os.path.join(ctx.evidence_dir, ctx.pid + ".json"), "w") as f:
        json.dump(ev, f, indent=1, default=str)
    for l in lines:
        print(l, flush=True)
    print(f"[{ctx.pid}] obligations {ctx.discharged}/{ctx.obligations}, deviations {len(ctx.deviations)} "
          f"(known {len(known_hit)} kinds), broken {len(ctx.brokens)}, violations {nviol}, "
          f"{time.time() - ctx.t0:.1f}s", flush=True)
    return 1 if nviol else 0
