"""check <ID> [--tier quick|thorough] [--replay FILE]"""
import argparse
import importlib
import json
import os
import sys
import traceback

from . import core

LEVEL = {}  # filled from MANIFEST so the evidence level always equals the claimed level


def main():
    ap = argparse.ArgumentParser()
    ap.add_argument("pid")
    ap.add_argument("--tier", default=os.environ.get("VERIF_TIER", "quick"))
    ap.add_argument("--replay")
    a = ap.parse_args()
    tier = a.tier if a.tier in ("quick", "thorough") else "quick"
    seed = int(os.environ.get("VERIF_SEED", "20261001") or 0)
    with open(os.path.join(core.VERIF, "MANIFEST.json")) as f:
        man = json.load(f)
    level = "proof"
    for c in man["checks"]:
        if c["property_id"] == a.pid:
            level = c["level_claimed"]["category"]
    mod = importlib.import_module("checks." + a.pid.lower())
    ctx = core.Ctx(a.pid, tier, seed, level)
    if a.replay:
        with open(a.replay) as f:
            rp = json.load(f)
        return mod.replay(ctx, rp)
    try:
        if ctx.ensure_theories():
            mod.run(ctx)
            if tier == "thorough":
                ctx.coqchk()
    except Exception:
        ctx.broken("check-crashed", traceback.format_exc()[-3000:])
    return core.finish(ctx)


if __name__ == "__main__":
    sys.exit(main())
