"""Relational harness pieces shared by C01/C06/C07/C11...: expression descriptors rendered both as
sqlframe Columns and as Coq terms, value/frame literals, table pools, and the fail-closed exporter from
the sqlglot tree the implementation built to the Coq `block` chain (tie T2)."""
from __future__ import annotations

import datetime
import decimal
from fractions import Fraction

from .core import zlit, strlit, listlit, boollit, optlit, natlit


class NotExportable(Exception):
    pass


# ---- values ------------------------------------------------------------------------------------

def val_coq(v, rat=False) -> str:
    if v is None:
        return "VNull"
    if isinstance(v, bool):
        return f"(VBool {boollit(v)})"
    if isinstance(v, int):
        return f"(VInt {zlit(v)})"
    if isinstance(v, str):
        return f"(VStr {strlit(v)})"
    if isinstance(v, (float, decimal.Decimal)):
        fr = Fraction(v).limit_denominator(10 ** 6)
        if fr.denominator == 1 and not rat:
            return f"(VRat {zlit(fr.numerator)} 1%positive)"
        return f"(VRat {zlit(fr.numerator)} {fr.denominator}%positive)"
    raise NotExportable(f"value {v!r} of type {type(v).__name__}")


def row_coq(r) -> str:
    return listlit([val_coq(v) for v in r])


def frame_coq(cols, rows) -> str:
    return f"(mkFrame {listlit([strlit(c) for c in cols])} {listlit([row_coq(r) for r in rows])})"


# ---- expression descriptors ----------------------------------------------------------------------
# ('col', name) ('lit', v) ('bin', Op, a, b) ('not', a) ('neg', a) ('isnull', a) ('if', c, t, e) ('coalesce', a, b)

BINOPS = ["Add", "Sub", "Mul", "Eq", "Neq", "Lt", "Le", "Gt", "Ge", "And", "Or", "NullSafeEq"]


def e_coq(e) -> str:
    k = e[0]
    if k == "col":
        return f"(ECol {strlit(e[1])})"
    if k == "lit":
        return f"(ELit {val_coq(e[1])})"
    if k == "bin":
        return f"(EBin {e[1]} {e_coq(e[2])} {e_coq(e[3])})"
    if k == "not":
        return f"(ENot {e_coq(e[1])})"
    if k == "neg":
        return f"(ENeg {e_coq(e[1])})"
    if k == "isnull":
        return f"(EIsNull {e_coq(e[1])})"
    if k == "if":
        return f"(EIf {e_coq(e[1])} {e_coq(e[2])} {e_coq(e[3])})"
    if k == "coalesce":
        return f"(ECoalesce {e_coq(e[1])} {e_coq(e[2])})"
    raise ValueError(e)


def e_sf(e, F):
    """build the sqlframe Column the way a user would"""
    k = e[0]
    if k == "col":
        return F.col(e[1])
    if k == "lit":
        return F.lit(e[1])
    if k == "bin":
        a, b = e_sf(e[2], F), e_sf(e[3], F)
        op = e[1]
        if op == "Add":
            return a + b
        if op == "Sub":
            return a - b
        if op == "Mul":
            return a * b
        if op == "Eq":
            return a == b
        if op == "Neq":
            return a != b
        if op == "Lt":
            return a < b
        if op == "Le":
            return a <= b
        if op == "Gt":
            return a > b
        if op == "Ge":
            return a >= b
        if op == "And":
            return a & b
        if op == "Or":
            return a | b
        if op == "NullSafeEq":
            return a.eqNullSafe(b)
    if k == "not":
        return ~e_sf(e[1], F)
    if k == "neg":
        return -e_sf(e[1], F)
    if k == "isnull":
        return e_sf(e[1], F).isNull()
    if k == "if":
        return F.when(e_sf(e[1], F), e_sf(e[2], F)).otherwise(e_sf(e[3], F))
    if k == "coalesce":
        return F.coalesce(e_sf(e[1], F), e_sf(e[2], F))
    raise ValueError(e)


def e_cols(e) -> set:
    if e[0] == "col":
        return {e[1]}
    if e[0] == "lit":
        return set()
    s = set()
    for x in e[1:]:
        if isinstance(x, tuple):
            s |= e_cols(x)
    return s


def e_str(e) -> str:
    k = e[0]
    if k == "col":
        return e[1]
    if k == "lit":
        return repr(e[1])
    if k == "bin":
        sym = {"Add": "+", "Sub": "-", "Mul": "*", "Eq": "==", "Neq": "!=", "Lt": "<", "Le": "<=", "Gt": ">",
               "Ge": ">=", "And": "&", "Or": "|", "NullSafeEq": "<=>"}[e[1]]
        return f"({e_str(e[2])} {sym} {e_str(e[3])})"
    if k == "not":
        return f"~{e_str(e[1])}"
    if k == "neg":
        return f"-{e_str(e[1])}"
    if k == "isnull":
        return f"{e_str(e[1])}.isNull()"
    if k == "if":
        return f"when({e_str(e[1])},{e_str(e[2])}).otherwise({e_str(e[3])})"
    if k == "coalesce":
        return f"coalesce({e_str(e[1])},{e_str(e[2])})"
    return str(e)


# ---- exporter: sqlglot tree -> Coq expr / block chain ---------------------------------------------

def x_expr(n, exp, cte_names=()) -> str:
    """sqlglot scalar expression -> Coq expr term (fail-closed)."""
    t = type(n).__name__
    if isinstance(n, exp.Paren):
        return x_expr(n.this, exp, cte_names)
    if isinstance(n, exp.Column):
        tbl = n.table
        if tbl and cte_names and tbl not in cte_names:
            raise NotExportable(f"column qualified by unknown table {tbl}")
        if isinstance(n.this, exp.Star):
            raise NotExportable("star")
        return f"(ECol {strlit(n.name)})"
    if isinstance(n, exp.Literal):
        if n.is_string:
            return f"(ELit (VStr {strlit(n.this)}))"
        try:
            return f"(ELit (VInt {zlit(int(n.this))}))"
        except ValueError:
            raise NotExportable(f"non-integer numeric literal {n.this}")
    if isinstance(n, exp.Null):
        return "(ELit VNull)"
    if isinstance(n, exp.Boolean):
        return f"(ELit (VBool {boollit(bool(n.this))}))"
    binmap = {"Add": "Add", "Sub": "Sub", "Mul": "Mul", "EQ": "Eq", "NEQ": "Neq", "LT": "Lt", "LTE": "Le",
              "GT": "Gt", "GTE": "Ge", "And": "And", "Or": "Or", "NullSafeEQ": "NullSafeEq"}
    if t in binmap:
        return f"(EBin {binmap[t]} {x_expr(n.this, exp, cte_names)} {x_expr(n.expression, exp, cte_names)})"
    if isinstance(n, exp.Not):
        return f"(ENot {x_expr(n.this, exp, cte_names)})"
    if isinstance(n, exp.Neg):
        if isinstance(n.this, exp.Literal) and not n.this.is_string:
            # exp.convert(-1) builds Neg(Literal 1) with no Paren; user-written -col builds Neg(Paren(..))
            return f"(ELit (VInt {zlit(-int(n.this.this))}))"
        return f"(ENeg {x_expr(n.this, exp, cte_names)})"
    if isinstance(n, exp.Is) and isinstance(n.expression, exp.Null):
        return f"(EIsNull {x_expr(n.this, exp, cte_names)})"
    if isinstance(n, exp.Case) and n.this is None:
        ifs = n.args.get("ifs") or []
        default = n.args.get("default")
        acc = x_expr(default, exp, cte_names) if default is not None else "(ELit VNull)"
        for i in reversed(ifs):
            acc = f"(EIf {x_expr(i.this, exp, cte_names)} {x_expr(i.args['true'], exp, cte_names)} {acc})"
        return acc
    if isinstance(n, exp.Coalesce) and len(n.expressions) == 1:
        return f"(ECoalesce {x_expr(n.this, exp, cte_names)} {x_expr(n.expressions[0], exp, cte_names)})"
    raise NotExportable(f"expression node {t}")


def flatten_and(n, exp):
    """sqlglot's Select.where(a).where(b) builds And(a, b) with user conditions kept under Paren."""
    if isinstance(n, exp.Paren):
        return flatten_and(n.this, exp)
    if isinstance(n, exp.And):
        return flatten_and(n.this, exp) + flatten_and(n.expression, exp)
    return [n]


def x_item(n, exp, cte_names) -> str:
    if isinstance(n, exp.Alias):
        return f"({x_expr(n.this, exp, cte_names)}, {strlit(n.alias)})"
    if isinstance(n, exp.Column):
        return f"(ECol {strlit(n.name)}, {strlit(n.name)})"
    raise NotExportable(f"select item {type(n).__name__}")


def x_select(sel, exp, prev_name, cte_names) -> str:
    """one SELECT over the previous CTE -> Coq block"""
    allowed = {"expressions", "from", "where", "distinct", "order", "limit", "with", "kind", "hint"}
    for k, v in sel.args.items():
        if v and k not in allowed:
            raise NotExportable(f"select arg {k}")
    if sel.args.get("hint"):
        raise NotExportable("hint")
    frm = sel.args.get("from")
    if frm is None or not isinstance(frm.this, exp.Table) or frm.this.name != prev_name:
        raise NotExportable(f"FROM is not the previous CTE ({prev_name})")
    if sel.args.get("joins"):
        raise NotExportable("join")
    where = sel.args.get("where")
    ws = [x_expr(w, exp, cte_names) for w in flatten_and(where.this, exp)] if where else []
    items = [x_item(i, exp, cte_names) for i in sel.expressions]
    dist = sel.args.get("distinct")
    if dist is not None and dist.args.get("on"):
        raise NotExportable("distinct on")
    order = sel.args.get("order")
    ks = []
    if order:
        for o in order.expressions:
            if not isinstance(o, exp.Ordered):
                raise NotExportable("bare order key")
            desc = bool(o.args.get("desc"))
            nf = o.args.get("nulls_first")
            if nf is None:
                raise NotExportable("order key without explicit null placement")
            ks.append(f"(mkKey {x_expr(o.this, exp, cte_names)} {boollit(desc)} {boollit(bool(nf))})")
    lim = sel.args.get("limit")
    lim_t = "None"
    if lim is not None:
        le = lim.expression
        if not isinstance(le, exp.Literal) or le.is_string:
            raise NotExportable("limit is not a literal")
        lim_t = f"(Some {natlit(int(le.this))})"
    return f"(mkBlock {listlit(ws)} {listlit(items)} {boollit(dist is not None)} {listlit(ks)} {lim_t})"


def x_values_block(sel, exp):
    """the createDataFrame block: SELECT CAST(c AS T) AS c ... FROM (VALUES ...) AS t(c...)  -> column names"""
    names = []
    for i in sel.expressions:
        if not (isinstance(i, exp.Alias) and isinstance(i.this, exp.Cast) and isinstance(i.this.this, exp.Column)
                and i.this.this.name == i.alias):
            raise NotExportable("createDataFrame block is not a cast pass-through")
        names.append(i.alias)
    frm = sel.args.get("from")
    if frm is None or not isinstance(frm.this, exp.Values):
        raise NotExportable("createDataFrame block does not read VALUES")
    w = sel.args.get("where")
    if w is not None and not (isinstance(w.this, exp.Boolean) and w.this.this is False):
        raise NotExportable("createDataFrame block has a WHERE other than FALSE (the empty-input form)")
    for k in ("distinct", "order", "limit", "joins", "group"):
        if sel.args.get(k):
            raise NotExportable(f"createDataFrame block has {k}")
    return names


def export_chain(expression, exp):
    """df.expression of a single-input chain -> (input column names, Coq `list block` term)."""
    ctes = list(expression.ctes)
    if not ctes:
        raise NotExportable("no CTE (DataFrame never left INIT)")
    names = x_values_block(ctes[0].this, exp)
    cte_names = [c.alias for c in ctes]
    blocks = ["(pass_block " + listlit([strlit(n) for n in names]) + ")"]
    prev = ctes[0].alias
    for c in ctes[1:]:
        blocks.append(x_select(c.this, exp, prev, cte_names))
        prev = c.alias
    main = expression.copy()
    main.set("with", None)
    blocks.append(x_select(main, exp, prev, cte_names))
    return names, listlit(blocks)
