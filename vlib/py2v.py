"""Fail-closed translator from small pure Python functions (as `ast`) to Gallina text.

Supported statement shapes (anything else raises Untranslatable, which the caller reports as a
broken T1 tie):  return e | x = e | if c: S [elif ...] [else: S] followed by more statements
| pass-through of docstrings | assert (ignored only when `allow_assert`).
Supported expressions: names / dotted names (through `env`), int/str/bool/None constants, tuples,
comparisons, and/or/not, + - * unary -, conditional expressions, calls listed in `calls`.
Types are given by the caller for parameters (`'Z' | 'string' | 'bool' | 'optZ' | other`) and are
inferred structurally for sub-expressions, only as far as needed to choose the comparison function.
"""
from __future__ import annotations

import ast
import hashlib
import sys


class Untranslatable(Exception):
    pass


def src_hash(node, source: str) -> str:
    seg = ast.get_source_segment(source, node) or ""
    return hashlib.sha1(seg.encode()).hexdigest()[:12]


def load(path: str):
    with open(path) as f:
        src = f.read()
    return ast.parse(src), src


def find_class(tree, name):
    for n in ast.walk(tree):
        if isinstance(n, ast.ClassDef) and n.name == name:
            return n
    raise Untranslatable(f"class {name} not found")


def find_func(node, name, nested_ok=True):
    """first FunctionDef called `name` under node (searching nested defs too)."""
    for n in ast.walk(node):
        if isinstance(n, (ast.FunctionDef, ast.AsyncFunctionDef)) and n.name == name:
            return n
    raise Untranslatable(f"function {name} not found")


def find_method(tree, cls, name):
    c = find_class(tree, cls)
    for n in c.body:
        if isinstance(n, ast.FunctionDef) and n.name == name:
            return n
    raise Untranslatable(f"method {cls}.{name} not found")


def dotted(node) -> str | None:
    if isinstance(node, ast.Name):
        return node.id
    if isinstance(node, ast.Attribute):
        b = dotted(node.value)
        return None if b is None else b + "." + node.attr
    return None


# ---- constant evaluation (class-level constants such as -(1 << 63)) ---------------------------

def const_eval(node, env: dict):
    if isinstance(node, ast.Constant) and isinstance(node.value, (int, str, bool, type(None))):
        return node.value
    d = dotted(node)
    if d is not None:
        if d in env:
            return env[d]
        if d == "sys.maxsize":
            return sys.maxsize
        raise Untranslatable(f"unknown constant name {d}")
    if isinstance(node, ast.UnaryOp) and isinstance(node.op, ast.USub):
        return -const_eval(node.operand, env)
    if isinstance(node, ast.BinOp):
        a, b = const_eval(node.left, env), const_eval(node.right, env)
        if isinstance(node.op, ast.LShift):
            return a << b
        if isinstance(node.op, ast.Add):
            return a + b
        if isinstance(node.op, ast.Sub):
            return a - b
        if isinstance(node.op, ast.Mult):
            return a * b
        raise Untranslatable("binop in constant: " + ast.dump(node.op))
    if isinstance(node, ast.Call) and dotted(node.func) in ("max", "min") and not node.keywords:
        vals = [const_eval(a, env) for a in node.args]
        return max(vals) if dotted(node.func) == "max" else min(vals)
    raise Untranslatable("constant expression: " + ast.dump(node)[:120])


def class_constants(cls: ast.ClassDef, prefix: str | None = None) -> dict:
    """int/str constants assigned at class level, evaluated in order; keys 'Cls.name' and 'name'."""
    env: dict = {}
    prefix = prefix or cls.name
    for st in cls.body:
        tgt = val = None
        if isinstance(st, ast.Assign) and len(st.targets) == 1 and isinstance(st.targets[0], ast.Name):
            tgt, val = st.targets[0].id, st.value
        elif isinstance(st, ast.AnnAssign) and isinstance(st.target, ast.Name) and st.value is not None:
            tgt, val = st.target.id, st.value
        if tgt is None:
            continue
        try:
            v = const_eval(val, env)
        except Untranslatable:
            continue
        env[tgt] = v
        env[prefix + "." + tgt] = v
    return env


# ---- expression / statement translation -------------------------------------------------------

class Tr:
    def __init__(self, types: dict, env: dict, calls: dict, strs: dict | None = None,
                 helpers: dict | None = None, _depth: int = 0):
        """types: local name -> type tag; env: dotted name -> (coq term, type tag);
        calls: dotted callee -> fn(tr, node) -> (coq term, type tag);
        strs: python string constant -> (coq term, type tag) (for enum-like strings);
        helpers: name -> ast.FunctionDef of module-level pure helper functions that may be INLINED at a call
        (positional/keyword arguments for plain parameters, body = docstring? + if/assign/return statements)."""
        self.types = dict(types)
        self.env = env
        self.calls = calls
        self.strs = strs or {}
        self.helpers = helpers or {}
        self._depth = _depth

    def inline(self, fn: ast.FunctionDef, call: ast.Call) -> tuple[str, str]:
        """Translate a call of a module-level helper by inlining its body (fail-closed on anything unusual)."""
        if self._depth > 4:
            raise Untranslatable(f"helper {fn.name}: inlining too deep (recursion?)")
        a = fn.args
        if fn.decorator_list or a.vararg or a.kwarg or a.kwonlyargs or a.posonlyargs or a.defaults or a.kw_defaults:
            raise Untranslatable(f"helper {fn.name}: unsupported signature")
        params = [x.arg for x in a.args]
        if any(isinstance(x, ast.Starred) for x in call.args) or any(k.arg is None for k in call.keywords):
            raise Untranslatable(f"helper {fn.name}: star arguments")
        actual = dict(zip(params, call.args))
        if len(call.args) > len(params):
            raise Untranslatable(f"helper {fn.name}: too many arguments")
        for k in call.keywords:
            if k.arg not in params or k.arg in actual:
                raise Untranslatable(f"helper {fn.name}: keyword {k.arg}")
            actual[k.arg] = k.value
        if set(actual) != set(params):
            raise Untranslatable(f"helper {fn.name}: missing arguments")
        for n in ast.walk(fn):
            if isinstance(n, (ast.Global, ast.Nonlocal, ast.Yield, ast.YieldFrom, ast.Await, ast.Lambda)):
                raise Untranslatable(f"helper {fn.name}: not a plain function")
        vals = [(p, self.e(actual[p])) for p in params]          # evaluated in the caller's scope
        sub = Tr({p: t for p, (_, t) in vals}, self.env, self.calls, self.strs, self.helpers, self._depth + 1)
        body, tb = sub.body(list(fn.body))
        pre = "".join(f"let {fn.name}__{p} := {v} in " for p, (v, _) in vals)
        mid = "".join(f"let {p} := {fn.name}__{p} in " for p in params)
        return f"({pre}{mid}{body})", tb

    def e(self, n) -> tuple[str, str]:
        if isinstance(n, ast.Constant):
            v = n.value
            if isinstance(v, bool):
                return ("true" if v else "false"), "bool"
            if isinstance(v, int):
                return f"({v})%Z", "Z"
            if v is None:
                return "None", "none"
            if isinstance(v, str):
                if v in self.strs:
                    return self.strs[v]
                from .core import strlit
                return strlit(v), "string"
            raise Untranslatable(f"constant {v!r}")
        d = dotted(n)
        if d is not None:
            if d in self.types:
                return d.replace(".", "_"), self.types[d]
            if d in self.env:
                return self.env[d]
            raise Untranslatable(f"unknown name {d}")
        if isinstance(n, ast.Tuple):
            parts = [self.e(x) for x in n.elts]
            return "(" + ", ".join(p[0] for p in parts) + ")", "tuple"
        if isinstance(n, ast.UnaryOp):
            a, ta = self.e(n.operand)
            if isinstance(n.op, ast.USub) and ta == "Z":
                return f"(- {a})%Z", "Z"
            if isinstance(n.op, ast.Not) and ta == "bool":
                return f"(negb {a})", "bool"
            raise Untranslatable("unary op " + ast.dump(n.op))
        if isinstance(n, ast.BinOp):
            a, ta = self.e(n.left)
            b, tb = self.e(n.right)
            if ta == tb == "Z":
                op = {ast.Add: "+", ast.Sub: "-", ast.Mult: "*"}.get(type(n.op))
                if op:
                    return f"({a} {op} {b})%Z", "Z"
            raise Untranslatable("binary op " + ast.dump(n.op) + f" on {ta},{tb}")
        if isinstance(n, ast.BoolOp):
            parts = [self.e(x) for x in n.values]
            if any(t != "bool" for _, t in parts):
                raise Untranslatable("and/or on non-bool")
            f = "andb" if isinstance(n.op, ast.And) else "orb"
            acc = parts[-1][0]
            for p, _ in reversed(parts[:-1]):
                acc = f"({f} {p} {acc})"
            return acc, "bool"
        if isinstance(n, ast.Compare):
            if len(n.ops) != 1:
                # a == b == c  -> (a == b) and (b == c)
                items = [n.left] + list(n.comparators)
                parts = []
                for l, o, r in zip(items, n.ops, items[1:]):
                    parts.append(self.e(ast.Compare(left=l, ops=[o], comparators=[r]))[0])
                acc = parts[-1]
                for p in reversed(parts[:-1]):
                    acc = f"(andb {p} {acc})"
                return acc, "bool"
            a, ta = self.e(n.left)
            b, tb = self.e(n.comparators[0])
            op = type(n.ops[0])
            if isinstance(n.ops[0], (ast.Is, ast.IsNot)) and tb == "none":
                if not ta.startswith("opt"):
                    raise Untranslatable(f"`is None` on non-option {ta}")
                t = f"(match {a} with None => true | Some _ => false end)"
                return (t if op is ast.Is else f"(negb {t})"), "bool"
            if ta != tb:
                raise Untranslatable(f"comparison between {ta} and {tb}")
            if ta == "Z":
                f = {ast.Eq: "Z.eqb", ast.NotEq: None, ast.Lt: "Z.ltb", ast.LtE: "Z.leb",
                     ast.Gt: "Z.gtb", ast.GtE: "Z.geb"}.get(op)
                if op is ast.NotEq:
                    return f"(negb (Z.eqb {a} {b}))", "bool"
                if f:
                    return f"({f} {a} {b})", "bool"
            if ta == "string" and op in (ast.Eq, ast.NotEq):
                t = f"(String.eqb {a} {b})"
                return (t if op is ast.Eq else f"(negb {t})"), "bool"
            if ta == "bool" and op in (ast.Eq, ast.NotEq):
                t = f"(Bool.eqb {a} {b})"
                return (t if op is ast.Eq else f"(negb {t})"), "bool"
            opn = {ast.Eq: "eq", ast.NotEq: "ne", ast.Lt: "lt", ast.LtE: "le", ast.Gt: "gt", ast.GtE: "ge"}.get(op)
            fn = self.env.get(f"{opn}:{ta}")
            if fn:
                return f"({fn[0]} {a} {b})", "bool"
            if opn == "ne" and self.env.get(f"eq:{ta}"):
                return f"(negb ({self.env['eq:' + ta][0]} {a} {b}))", "bool"
            raise Untranslatable(f"comparison {op.__name__} on {ta}")
        if isinstance(n, ast.IfExp):
            c, tc = self.e(n.test)
            a, ta = self.e(n.body)
            b, tb = self.e(n.orelse)
            if tc != "bool":
                raise Untranslatable("condition is not bool")
            if ta != tb:
                raise Untranslatable(f"branches of conditional have types {ta} / {tb}")
            return f"(if {c} then {a} else {b})", ta
        if isinstance(n, ast.Call):
            d = dotted(n.func)
            if d is None and isinstance(n.func, ast.Attribute):
                # method-style call on a call result, e.g. F.lit(x).expression handled via Attribute below
                pass
            if d in self.calls:
                return self.calls[d](self, n)
            if d in self.helpers:
                return self.inline(self.helpers[d], n)
            raise Untranslatable(f"call to {d or ast.dump(n.func)[:60]}")
        if isinstance(n, ast.Attribute):
            # attribute of a non-name (e.g. F.lit(abs(x)).expression)
            key = "attr:" + n.attr
            if key in self.calls:
                return self.calls[key](self, n)
            raise Untranslatable("attribute access ." + n.attr)
        raise Untranslatable("expression " + ast.dump(n)[:100])

    def body(self, stmts: list) -> tuple[str, str]:
        stmts = [s for s in stmts if not (isinstance(s, ast.Expr) and isinstance(s.value, ast.Constant))]
        if not stmts:
            raise Untranslatable("control reaches end of function without return")
        s, rest = stmts[0], stmts[1:]
        if isinstance(s, ast.Return):
            if s.value is None:
                return "tt", "unit"
            return self.e(s.value)
        if isinstance(s, (ast.Assign, ast.AnnAssign)):
            tgt = s.targets[0] if isinstance(s, ast.Assign) else s.target
            if not isinstance(tgt, ast.Name):
                raise Untranslatable("assignment target")
            v, tv = self.e(s.value)
            old = self.types.get(tgt.id)
            self.types[tgt.id] = tv
            r, tr_ = self.body(rest)
            if old is None:
                pass
            return f"(let {tgt.id} := {v} in {r})", tr_
        if isinstance(s, ast.If):
            c, tc = self.e(s.test)
            if tc != "bool":
                raise Untranslatable("if-condition is not bool")
            saved = dict(self.types)
            a, ta = self.body(list(s.body) + ([] if _returns(s.body) else rest))
            self.types = dict(saved)
            if s.orelse:
                b, tb = self.body(list(s.orelse) + ([] if _returns(s.orelse) else rest))
            else:
                b, tb = self.body(rest)
            self.types = saved
            if ta != tb:
                raise Untranslatable(f"if-branches return {ta} / {tb}")
            return f"(if {c} then {a} else {b})", ta
        raise Untranslatable("statement " + type(s).__name__)


def module_helpers(tree: ast.Module) -> dict:
    """module-level plain functions (candidates for inlining by Tr)"""
    return {st.name: st for st in tree.body if isinstance(st, ast.FunctionDef)}


def _returns(stmts) -> bool:
    """every path through stmts ends in return"""
    if not stmts:
        return False
    last = stmts[-1]
    if isinstance(last, ast.Return):
        return True
    if isinstance(last, ast.If):
        return _returns(last.body) and bool(last.orelse) and _returns(last.orelse)
    if isinstance(last, ast.Raise):
        return True
    return False


# ---- normalisation of a function before pattern matching / hashing ---------------------------------------------
# A translator that pins or pattern-matches a function body should do so on the NORMALISED body, so that edits which
# cannot change behaviour do not break the tie: docstrings, comments, type annotations, logging calls, `# type:`
# comments, local variable names, and temporaries introduced for readability.

_LOG_METHODS = {"debug", "info", "warning", "warn", "error", "exception", "critical", "log"}


def _is_noise_stmt(st) -> bool:
    if isinstance(st, ast.Expr):
        if isinstance(st.value, ast.Constant):                       # docstring / bare literal
            return True
        c = st.value
        if isinstance(c, ast.Call):
            d = dotted(c.func) or ""
            parts = d.split(".")
            # logger.debug(...), logging.info(...), self.logger.warning(...), self._logger.debug(...)
            if len(parts) >= 2 and parts[-1] in _LOG_METHODS and parts[-2].lstrip("_") in ("logger", "logging", "log", "LOGGER"):
                # arguments of a logging call must be side-effect free: names, attributes, constants, f-strings, % / +, len(), str(), repr()
                for n in ast.walk(c):
                    if isinstance(n, ast.Call) and n is not c and (dotted(n.func) not in ("len", "str", "repr", "type", "id")):
                        return False
                    if isinstance(n, (ast.NamedExpr, ast.Await, ast.Yield, ast.YieldFrom, ast.Lambda)):
                        return False
                return True
    if isinstance(st, ast.Pass):
        return True
    return False


class _Normaliser(ast.NodeTransformer):
    def __init__(self, rename: dict):
        self.rename = rename

    def _body(self, stmts):
        out = []
        for st in stmts:
            if _is_noise_stmt(st):
                continue
            r = self.visit(st)
            if r is not None:
                out.append(r)
        return out or [ast.Pass()]

    def visit_FunctionDef(self, node):
        node = self.generic_visit(node)
        node.returns = None
        for a in node.args.args + node.args.kwonlyargs + node.args.posonlyargs + \
                ([node.args.vararg] if node.args.vararg else []) + ([node.args.kwarg] if node.args.kwarg else []):
            a.annotation = None
            a.type_comment = None
        node.type_comment = None
        node.body = self._body(node.body)
        return node

    def visit_AnnAssign(self, node):
        node = self.generic_visit(node)
        if node.value is None:
            return None                                               # bare annotation `x: int`
        return ast.copy_location(ast.Assign(targets=[node.target], value=node.value), node)

    def visit_Assign(self, node):
        node = self.generic_visit(node)
        node.type_comment = None
        return node

    def visit_If(self, node):
        node = self.generic_visit(node)
        node.body = self._body(node.body)
        node.orelse = [s for s in node.orelse if not _is_noise_stmt(s)]
        return node

    def visit_For(self, node):
        node = self.generic_visit(node)
        node.body = self._body(node.body)
        node.type_comment = None
        return node

    def visit_While(self, node):
        node = self.generic_visit(node)
        node.body = self._body(node.body)
        return node

    def visit_With(self, node):
        node = self.generic_visit(node)
        node.body = self._body(node.body)
        return node

    def visit_Try(self, node):
        node = self.generic_visit(node)
        node.body = self._body(node.body)
        node.finalbody = [s for s in node.finalbody if not _is_noise_stmt(s)]
        return node

    def visit_Name(self, node):
        if node.id in self.rename:
            return ast.copy_location(ast.Name(id=self.rename[node.id], ctx=node.ctx), node)
        return node

    def visit_arg(self, node):
        if node.arg in self.rename:
            node.arg = self.rename[node.arg]
        return node

    def visit_Call(self, node):
        node = self.generic_visit(node)
        # typing.cast(T, x) / t.cast(T, x) is the identity
        if dotted(node.func) in ("t.cast", "typing.cast", "cast") and len(node.args) == 2 and not node.keywords:
            return node.args[1]
        return node


def _local_names(fn: ast.FunctionDef, keep: set) -> list:
    """locally bound names (assignment / for / with / comprehension targets, not parameters) in order of first binding"""
    seen, order = set(), []

    def add(n):
        if isinstance(n, ast.Name) and n.id not in seen and n.id not in keep:
            seen.add(n.id)
            order.append(n.id)
        elif isinstance(n, (ast.Tuple, ast.List)):
            for e in n.elts:
                add(e)
        elif isinstance(n, ast.Starred):
            add(n.value)

    class V(ast.NodeVisitor):
        def visit_Assign(self, node):
            for tg in node.targets:
                add(tg)
            self.generic_visit(node)

        def visit_AnnAssign(self, node):
            add(node.target)
            self.generic_visit(node)

        def visit_AugAssign(self, node):
            add(node.target)
            self.generic_visit(node)

        def visit_For(self, node):
            add(node.target)
            self.generic_visit(node)

        def visit_With(self, node):
            for it in node.items:
                if it.optional_vars is not None:
                    add(it.optional_vars)
            self.generic_visit(node)

        def visit_comprehension(self, node):
            add(node.target)
            self.generic_visit(node)

        def visit_NamedExpr(self, node):
            add(node.target)
            self.generic_visit(node)

        def visit_FunctionDef(self, node):
            if node is not fn:
                return                                              # nested defs keep their own names
            self.generic_visit(node)

        visit_Lambda = lambda self, node: None

    V().visit(fn)
    return order


def normalize_func(fn: ast.FunctionDef, rename_locals: bool = True, rename_params: bool = False) -> ast.FunctionDef:
    """A copy of `fn` without docstrings, comments, annotations, `typing.cast`, logging statements and `pass`, and (by
    default) with its local variables alpha-renamed to _v0, _v1, ... in order of first binding (parameters are kept unless
    rename_params, then they become _p0, ... except self/cls).  Two functions with equal `ast.dump` of the result differ
    only in ways that cannot change behaviour.  Functions using global/nonlocal, or locals()/vars()/eval/exec, are refused."""
    import copy as _copy
    fn = _copy.deepcopy(fn)
    for n in ast.walk(fn):
        if isinstance(n, (ast.Global, ast.Nonlocal)):
            raise Untranslatable(f"{fn.name}: global/nonlocal")
        if isinstance(n, ast.Call) and dotted(n.func) in ("locals", "vars", "eval", "exec", "globals"):
            raise Untranslatable(f"{fn.name}: reflective call")
    params = [a.arg for a in fn.args.posonlyargs + fn.args.args + fn.args.kwonlyargs]
    if fn.args.vararg:
        params.append(fn.args.vararg.arg)
    if fn.args.kwarg:
        params.append(fn.args.kwarg.arg)
    rename = {}
    if rename_params:
        i = 0
        for p in params:
            if p not in ("self", "cls"):
                rename[p] = f"_p{i}"
                i += 1
    if rename_locals:
        for i, n in enumerate(_local_names(fn, set(params))):
            rename[n] = f"_v{i}"
    out = _Normaliser(rename).visit(fn)
    ast.fix_missing_locations(out)
    return out


def norm_dump(fn: ast.FunctionDef, **kw) -> str:
    n = normalize_func(fn, **kw)
    n.name = "_f"
    n.decorator_list = []
    return ast.dump(n, include_attributes=False)


def norm_hash(fn: ast.FunctionDef, **kw) -> str:
    """hash of the normalised function: stable under docstring / comment / annotation / logging / local-renaming edits"""
    return hashlib.sha1(norm_dump(fn, **kw).encode()).hexdigest()[:12]


def norm_body(fn: ast.FunctionDef, **kw) -> list:
    """the normalised statement list (what pattern matchers should look at)"""
    return normalize_func(fn, **kw).body
