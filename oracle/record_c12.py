"""Recorder for C12's function-sample baseline (run on the UNCHANGED tree:  PYTHONPATH=/verif:/repo /venv/bin/python oracle/record_c12.py).

For every engine and every function of the sample (checks/c12_worker.function_sample) it records whether the value the engine
session returns THROUGH THE DIALECT READER (sqlglot read-back + DuckDB) agrees with the DuckDB session's value.  The reader is
not the engine: many engine-specific forms cannot be read back faithfully (e.g. Spark's 1-based DAYOFWEEK read as DuckDB's
0-based one).  The baseline therefore separates
    agree     -> a later disagreement is a REGRESSION the check reports (e.g. a wrong `_is_<engine>` branch)
    differ / rejected / duck-unsupported -> the reader cannot judge; stays evidence only
Nothing here is an oracle for the property itself."""
import json
import os
import sys
from concurrent.futures import ThreadPoolExecutor

sys.path.insert(0, os.path.dirname(os.path.dirname(os.path.abspath(__file__))))
from checks import c01, c12            # noqa: E402
from translate import c12_facts        # noqa: E402
from vlib import core                  # noqa: E402


def main():
    _, _, info = c12_facts.generate(core.REPO)
    req = {"tables": {k: [list(r) for r in v] for k, v in c01.TABLES.items()}, "programs": [], "tables_for": {},
           "functions": sorted(info["functions"]), "dispatch_names": []}
    with ThreadPoolExecutor(max_workers=7) as ex:
        results = dict(zip(c12.ENGINES, ex.map(lambda e: c12.run_worker(e, req), c12.ENGINES)))
    duck = {f["fn"]: f for f in results["duckdb"]["functions"]}
    out = {}
    for e, r in results.items():
        if e == "duckdb":
            continue
        out[e] = {}
        for f in r["functions"]:
            out[e][f["fn"]] = c12.function_outcome(f, duck.get(f["fn"]))
    path = os.path.join(core.VERIF, "oracle", "c12_function_baseline.json")
    with open(path, "w") as fh:
        json.dump({"recorded_with": {"sqlglot": __import__("sqlglot").__version__, "duckdb": __import__("duckdb").__version__},
                   "outcomes": out}, fh, indent=1, sort_keys=True)
    print(path, {e: {k: list(v.values()).count(k) for k in ("agree", "differ", "rejected", "duck-unsupported")} for e, v in out.items()})


if __name__ == "__main__":
    main()
