"""Recorder for C12's function-sample baseline (run on the UNCHANGED tree:  PYTHONPATH=/verif:/repo /venv/bin/python oracle/record_c12.py).

For every engine and every typed call template (checks/c17_cases.all_calls + checks/c12.EXTRA_CALLS) it records whether the value the engine
session returns THROUGH THE DIALECT READER (sqlglot read-back + DuckDB) agrees with the DuckDB session's value.  The reader is
not the engine: many engine-specific forms cannot be read back faithfully (e.g. Spark's 1-based DAYOFWEEK read as DuckDB's
0-based one).  The baseline therefore separates
    agree     -> a later disagreement is a REGRESSION the check reports (e.g. a wrong `_is_<engine>` branch)
    differ / rejected / duck-unsupported -> the reader cannot judge; stays evidence only
"text" records, per engine and call, the SHAPE of a statement that does not parse / is not a textual fixed point of parse+render on the
unchanged tree (most are sqlglot generator/parser asymmetries); the check reports those as the listed known findings and anything
else (another call, another shape) as a regression.
"expr" records, per engine and call, the TEXT each call's expression renders to in the engine's execution dialect (what the
engine-specific branch of the function emits for that argument shape).  Some slips change that text in a way the DuckDB
transpilation cannot tell apart (ROUND(x) vs ROUND(CAST(x AS DECIMAL)) on Postgres: ties to even vs half up); the check reports a
change of the recorded text of an engine-sensitive function as a broken T1 tie naming (function, engine).
Nothing here is an oracle for the property itself."""
import json
import os
import sys
from concurrent.futures import ThreadPoolExecutor

sys.path.insert(0, os.path.dirname(os.path.dirname(os.path.abspath(__file__))))
from checks import c01, c12            # noqa: E402
from translate import c12_facts        # noqa: E402
from vlib import core                  # noqa: E402


def main():
    _, _, info = c12_facts.generate(core.REPO)
    calls, _, _ = c12.function_calls(info)
    req = {"tables": {k: [list(r) for r in v] for k, v in c01.TABLES.items()}, "programs": [], "tables_for": {},
           "calls": calls, "dispatch_names": [], "batch_size": 1}      # the baseline is recorded one call per statement
    with ThreadPoolExecutor(max_workers=7) as ex:
        results = dict(zip(c12.ENGINES, ex.map(lambda e: c12.run_worker(e, req), c12.ENGINES)))
    for e, r in results.items():
        if "fatal" in r:
            raise SystemExit(f"{e}: {r['fatal']}")
    duck = {f["id"]: f for f in results["duckdb"]["functions"]}
    out, text, expr = {}, {}, {}
    for e, r in results.items():
        text[e] = {}
        expr[e] = {f["id"]: f.get("expr") for f in r["functions"] if f.get("expr")}
        for f in r["functions"]:
            shape, _ = c12.text_shape(f)
            if shape:
                text[e][f["id"]] = shape
        if e == "duckdb":
            continue
        out[e] = {}
        for f in r["functions"]:
            out[e][f["id"]] = c12.function_outcome(f, duck.get(f["id"]))
    path = os.path.join(core.VERIF, "oracle", "c12_function_baseline.json")
    with open(path, "w") as fh:
        json.dump({"recorded_with": {"sqlglot": __import__("sqlglot").__version__, "duckdb": __import__("duckdb").__version__},
                   "outcomes": out, "text": text, "expr": expr}, fh, indent=1, sort_keys=True)
    print({e: len(v) for e, v in text.items()})
    print(path, {e: {k: list(v.values()).count(k) for k in ("agree", "names-differ", "differ", "rejected", "duck-unsupported")} for e, v in out.items()})


if __name__ == "__main__":
    main()
