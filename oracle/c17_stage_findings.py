"""Development tool (not a registered command): after reviewing that every deviation class of a C17 run is a genuine
defect, stage them as known findings:
    PYTHONPATH=/verif:/repo /venv/bin/python oracle/c17_stage_findings.py [evidence-of-a-thorough-run.json]
writes findings/C17.known.json (signature -> what) and one replay file findings/C17-<function>-<aspect>.json each.
The quick-tier classes are recomputed here by running the check in-process (no Coq); the Spark-session classes of the
thorough tier are taken from the evidence file given as argument."""
import json
import os
import re
import sys

sys.path.insert(0, "/verif")
from vlib import core
from checks import c17

NOTES = {
    ("slice", "value"): "slice_as_list_slice emits LIST_SLICE(x, start, start + length); LIST_SLICE's end is inclusive, so length+1 elements "
                        "come back (and a negative start gives []). Patch: end = start + length - 1 (and map negative starts).",
    ("slice", "value", "negative-start"): "with a negative start LIST_SLICE clamps a start before the first element to the first element "
                                         "(slice([10], -2, 2) = [10]); Spark returns [] when the start lies outside the array.",
    ("slice", "raises"): "slice_as_list_slice wraps a column NAME passed for start/length into lit('name') (a string literal). "
                         "Patch: use Column.ensure_col for str arguments, lit only for ints.",
    ("element_at", "value"): "element_at_using_brackets subtracts 1 whenever the index expression CONTAINS a number literal, while sqlglot's "
                             "DuckDB generator adds 1 only to indices of integer type: `col + 1` is shifted down but not up, and "
                             "`col.cast('int')` is shifted up but not down. Patch: build the Bracket with offset=1 (already 1-based) "
                             "instead of editing the index.",
    ("Column.getItem", "value"): "Column.getItem adds 1 only to literal keys; a Column key reaches element_at unshifted and is read 1-based "
                                 "(Spark's getItem is 0-based). Patch: always key + 1 for arrays.",
    ("rint", "value"): "rint_from_round emits ROUND(x, 0) (half away from zero); Spark's rint rounds half to even (2.5 -> 2.0). "
                       "Patch: ROUND_EVEN(x, 0).",
    ("sequence", "value"): "sequence_from_generate_series passes step 1 when no step is given; Spark uses -1 when start > stop. "
                           "Patch: CASE WHEN start <= stop THEN 1 ELSE -1 END as the default step.",
    ("unix_millis", "value"): "unix_millis_multiply_epoch computes whole seconds * 1000 and loses the milliseconds. Patch: EPOCH_MS(col).",
    ("nanvl", "value"): "nanvl_as_case: CASE WHEN NOT ISNAN(a) THEN a ELSE b END returns b for a NULL a (ISNAN(NULL) is NULL); Spark returns NULL. "
                        "Patch: WHEN a IS NULL OR NOT ISNAN(a) THEN a.",
    ("array_position", "null-input"): "COALESCE(ARRAY_POSITION(col, v), 0) turns a NULL array into 0; Spark returns NULL. "
                                      "Patch: CASE WHEN col IS NULL THEN NULL ELSE COALESCE(..., 0) END.",
    ("levenshtein", "null-input"): "CASE WHEN LEVENSHTEIN(l, r) <= t THEN .. ELSE -1 END returns -1 for NULL inputs; Spark returns NULL.",
    ("skewness", "null-input"): "the DuckDB branch switches on COUNT(*) instead of COUNT(col): a group whose values are all NULL gives NaN "
                                "(Spark: NULL), and NULLs in a group distort the (n-2)/sqrt(n(n-1)) correction.",
    ("expm1", "value"): "expm1_from_exp computes EXP(x) - 1, which cancels for small x (1e-10: 8e-8 relative error; Spark uses StrictMath.expm1).",
    ("log1p", "value"): "log1p_from_log computes LN(x + 1), which loses x's low bits for small x (Spark uses StrictMath.log1p).",
    ("log1p", "raises"): "log1p_from_log computes `col + lit(1)` on the raw argument: a column NAME becomes the string literal 'p' + 1 (also C16).",
    ("to_unix_timestamp", "raises"): "functions.to_unix_timestamp uses _BaseSession without importing it (NameError) when no format is given.",
    ("sha2", "raises"): "sha2 raises ValueError for numBits other than 256/0; Spark supports 224/256/384/512.",
    ("split", "value"): "the limit argument is dropped on DuckDB (a warning is logged).",
    ("months_between", "value"): "sqlglot maps MonthsBetween to DATE_DIFF('month', ..): whole months, no fractional part, no day-of-month rule.",
    ("get_json_object", "value"): "JSON extraction with -> keeps the JSON quoting of strings ('\"x\"'); Spark returns the unquoted string.",
    ("hash", "value"): "DuckDB's hash() is a different 64-bit hash; Spark's is 32-bit Murmur3 with seed 42.",
    ("typeof", "value"): "DuckDB type names (DOUBLE, VARCHAR) instead of Spark's (double, string).",
    ("approx_count_distinct", "value"): "approximate on both engines, but Spark's HLL++ is exact on tiny inputs while DuckDB's answers 3 for 4 distinct values.",
    ("approxCountDistinct", "value"): "alias of approx_count_distinct.",
    ("percentile_approx", "value"): "DuckDB's APPROX_QUANTILE (t-digest) interpolates; Spark's percentile_approx returns an element of the column.",
    ("concat", "null-input"): "DuckDB's CONCAT skips NULL arguments (''/[]); Spark returns NULL if any argument is NULL.",
    ("overlay", "null-input"): "built from CONCAT, which skips NULLs on DuckDB: '' instead of NULL.",
    ("array_append", "null-input"): "LIST_APPEND(NULL, 7) is [7]; Spark returns NULL.",
    ("array_union", "null-input"): "LIST_DISTINCT(LIST_CONCAT(NULL, NULL)) is []; Spark returns NULL.",
    ("char", "raises"): "CHR has no BIGINT overload on DuckDB; Spark's char takes any integral column (Python ints arrive as bigint).",
    ("hour", "raises"): "HOUR/MINUTE/SECOND are emitted without a cast, DuckDB does not accept a timestamp STRING (Spark casts implicitly).",
    ("minute", "raises"): "see hour.", ("second", "raises"): "see hour.",
    ("reverse", "raises"): "REVERSE is the string function only on DuckDB; Spark's reverse also reverses arrays (LIST_REVERSE).",
    ("shiftleft", "raises"): "DuckDB refuses to left-shift a negative BIGINT; Spark shifts two's-complement values (-3 << 2 = -12).",
    ("shiftLeft", "raises"): "alias of shiftleft.",
    ("corr", "value"): "a single pair: Spark returns NULL (zero variance), DuckDB's CORR returns NaN.",
    ("factorial", "value", "beyond-20"): "Spark's factorial is NULL outside 0..20 (the result must fit a BIGINT); DuckDB's returns the HUGEINT value.",
    ("left", "value", "negative-len"): "Spark's left/right with a negative length is ''; DuckDB's LEFT/RIGHT(s, -n) drops n characters from the other end.",
    ("right", "value", "negative-len"): "see left.",
    ("locate", "value", "pos-0"): "Spark's locate with pos 0 is 0; the STRPOS(SUBSTRING(s, pos), ..) emulation sqlglot generates finds the match.",
    ("lpad", "raises", "empty-pad"): "Spark returns the (truncated) string for an empty pad; DuckDB's LPAD/RPAD raise 'Insufficient padding'.",
    ("rpad", "raises", "empty-pad"): "see lpad.",
    ("substring", "value", "pos-0"): "Spark treats position 0 like 1; DuckDB's SUBSTRING(s, 0, n) counts a virtual position 0 and returns n-1 characters.",
    ("substr", "value", "pos-0"): "see substring.",
    ("date_format", "value", "day-of-year"): "sqlglot's Spark->DuckDB time-format table has no entry for DDD (day of year): it is read as DD + D.",
    ("date_format", "value", "fraction"): "the fraction field SSS is not translated (left as the text 'SSS'); DuckDB's specifier would be %g / %f.",
    ("date_format", "value", "quoted-literal"): "quoted literal text ('T') keeps its quotes in the strftime format; Spark drops them.",
    ("to_timestamp", "raises", "fraction"): "see date_format fraction: the untranslated 'SSS' makes STRPTIME fail.",
    ("to_timestamp", "raises", "quoted-literal"): "see date_format quoted-literal: the quotes stay in the STRPTIME format and the parse fails.",
    ("date_trunc", "raises", "unit-spelling"): "Spark accepts the unit spellings yyyy/yy/mm/mon/...; the unit is passed through verbatim and DuckDB only knows year/month/...",
    ("trunc", "raises", "unit-spelling"): "see date_trunc.",
    ("extract", "value", "unit-spelling"): "extract(SECOND ..) is a DECIMAL with the fraction in Spark (10.123456); DuckDB's EXTRACT(SECOND ..) is the whole second.",
    ("regexp_replace", "value", "group-reference"): "Spark's replacement refers to groups as $1; DuckDB's REGEXP_REPLACE wants \\1 and copies '$1' literally.",
    ("split_part", "value", "empty-delimiter"): "with an empty delimiter Spark returns the whole string as part 1; DuckDB splits into characters.",
    ("sha2", "raises", "numBits-224"): "see sha2 numBits-512.", ("sha2", "raises", "numBits-384"): "see sha2 numBits-512.",
    ("sha2", "raises", "numBits-512"): "sha2 raises ValueError for numBits other than 256/0; Spark supports 224/256/384/512.",
    ("soundex", "value", "non-letter-first"): "for a first character that is not a letter Spark returns its input unchanged ('123abc'); util.soundex keeps that character and codes the rest ('1120'). Patch (sqlframe/base/util.py): after upper-casing, `if not ('A' <= s[0] <= 'Z'): return <the original string>`.",
    ("spark-session", "Column.getItem"): "on a Spark-backed session the Column key is not shifted either: element_at(col, key) is 1-based.",
    ("spark-session", "array_position"): "the COALESCE(.., 0) guard is applied on Spark too: NULL array -> 0.",
    ("spark-session", "levenshtein"): "the CASE guard is applied on Spark too: NULL inputs -> -1.",
    ("spark-session", "overlay"): "overlay passes lit(pos) / lit(len): a column NAME becomes a string literal and the result is NULL.",
}


# findings repaired in /repo: signature -> (commit, what failed, old replay file to take the cases from, tag filter)
FIXED = {
    "C17/slice/value/positive-start": ("e7e48fc", "slice on DuckDB returned length+1 elements (LIST_SLICE end is inclusive)", "slice-value", "positive-start"),
    "C17/slice/raises/column-arguments": ("696553d", "slice read a str start/length as a string literal and raised", "slice-raises", None),
    "C17/log1p/raises": ("149f416", "log1p('p') added 1 to the string literal 'p' and raised", "log1p-raises", None),
    "C17/rint/value": ("845ab20", "rint rounded ties away from zero (ROUND) instead of to even", "rint-value", None),
    "C17/sequence/value/default-step": ("78f58b6", "sequence(start, stop) with start > stop returned [] (default step always 1)", "sequence-value", None),
    "C17/unix_millis/value": ("7e25340", "unix_millis dropped the milliseconds (whole seconds * 1000)", "unix_millis-value", None),
    "C17/nanvl/value/null-first-argument": ("7b1cb67", "nanvl(NULL, b) returned b instead of NULL", "nanvl-value", None),
    "C17/array_position/null-input": ("a27f395", "array_position of a NULL array returned 0 instead of NULL on DuckDB", "array_position-null-input", None),
    "C17/levenshtein/null-input": ("0dba499", "levenshtein with a threshold returned -1 instead of NULL for NULL input", "levenshtein-null-input", None),
    "C17/skewness/null-input": ("0980913", "skewness of an all-NULL group returned NaN (sample size from COUNT(*))", "skewness-null-input", None),
    "C17/to_unix_timestamp/raises": ("8ddbf10", "to_unix_timestamp without a format raised NameError (_BaseSession not imported)", "to_unix_timestamp-raises", None),
    "C17/element_at/value/index-expression": ("d51b33c", "element_at(a, col + 1) read one position too low on DuckDB", "element_at-value", "index-expression"),
    "C17/element_at/value/typed-index": ("d51b33c", "element_at(a, col.cast('int')) read one position too high on DuckDB", "element_at-value", "typed-index"),
    "C17/percentile/value": ("fefb690", "percentile returned an element of the column (PERCENTILE_DISC) instead of interpolating", "percentile-value", None),
    "C17/skewness/value": ("87eb31d", "skewness of a single value returned NaN instead of NULL on DuckDB", "skewness-value", None),
    "C17/concat/null-input": ("1fad93b", "concat with a NULL argument returned '' / [] instead of NULL on DuckDB (CONCAT skips NULLs)", "concat-null-input", None),
    "C17/overlay/null-input": ("07cdf49", "overlay of NULL strings returned '' instead of NULL (parts glued with CONCAT)", "overlay-null-input", None),
    "C17/array_append/null-input": ("1911cdd", "array_append of a NULL array returned [x] instead of NULL on DuckDB", "array_append-null-input", None),
    "C17/array_union/null-input": ("8fdffd8", "array_union with a NULL array returned [] instead of NULL on DuckDB", "array_union-null-input", None),
    "C17/char/raises": ("28d1c8b", "char of a BIGINT column raised a binder error on DuckDB", "char-raises", None),
    "C17/hour/raises/timestamp-string": ("0d593f4", "hour of a timestamp string raised a binder error on DuckDB", "hour-raises-timestamp-string", None),
    "C17/minute/raises/timestamp-string": ("0d593f4", "minute of a timestamp string raised a binder error on DuckDB", "minute-raises-timestamp-string", None),
    "C17/second/raises/timestamp-string": ("0d593f4", "second of a timestamp string raised a binder error on DuckDB", "second-raises-timestamp-string", None),
    "C17/left/value/negative-len": ("09eb0f8", "left(s, -1) dropped the last character instead of returning '' on DuckDB", "left-value-negative-len", None),
    "C17/right/value/negative-len": ("09eb0f8", "right(s, -1) dropped the first character instead of returning '' on DuckDB", "right-value-negative-len", None),
    "C17/factorial/value/beyond-20": ("bc008ba", "factorial(21) returned a HUGEINT instead of NULL on DuckDB", "factorial-value-beyond-20", None),
    "C17/get_json_object/value": ("82d5ffe", "get_json_object returned a JSON string with its quotes on DuckDB", "get_json_object-value", None),
    "C17/slice/value/negative-start": ("af12d2d", "slice with a negative start before the first element was clamped instead of returning []", "slice-value-negative-start", None),
    "C17/date_trunc/raises/unit-spelling": ("2472c33", "date_trunc('yyyy' / 'mm', ..) raised a conversion error on DuckDB", "date_trunc-raises-unit-spelling", None),
    "C17/trunc/raises/unit-spelling": ("2472c33", "trunc(d, 'yyyy' / 'yy' / 'mm') raised a conversion error on DuckDB", "trunc-raises-unit-spelling", None),
    "C17/regexp_replace/value/group-reference": ("8086d90", "regexp_replace copied the group reference $1 literally on DuckDB", "regexp_replace-value-group-reference", None),
    "C17/spark-session/array_position": ("911fdaf", "array_position of a NULL array returned 0 on a Spark-backed session", "spark-session-array_position", None),
    "C17/substring/value/pos-0": ("80fae59", "substring(s, 0, n) returned n-1 characters (position 0 is position 1 in Spark); repaired in column.py by the C05 work", "substring-value-pos-0", None),
    "C17/substr/value/pos-0": ("c1c21b8", "substr(s, lit(0), n) returned n-1 characters on DuckDB (position 0 is position 1 in Spark)", "substr-value-pos-0", None),
    "C17/soundex/value/non-letter-first": ("5196d0d", "soundex of a string whose first character is not a letter was coded instead of returned unchanged (soundex('123abc') gave '1120')", "soundex-value-non-letter-first", None),
    "C17/spark-session/levenshtein": ("0dba499", "levenshtein with a threshold returned -1 for NULL input on a Spark-backed session too", "spark-session-levenshtein", None),
    "C17/spark-session/overlay": ("dcac97a", "overlay read a str pos/len as a string literal on a Spark-backed session (NULL result)", "spark-session-overlay", None),
}


def main():
    from checks import c17_cases as cc
    tags = {c["id"]: c["tag"] for c in cc.all_calls()}
    ctx = core.Ctx("C17stage", "quick", 20261001, "other")
    ctx.prove = lambda *a, **k: True
    ctx.cases = lambda *a, **k: []
    ctx.coq_eval = lambda *a, **k: ""
    c17.run(ctx)
    devs = list(ctx.deviations)
    if len(sys.argv) > 1:
        ev = json.load(open(sys.argv[1]))
        for b in ev["coverage"]["live"]["spark_backed"].get("differences", []):
            sig = f"C17/spark-session/{b['fn']}"
            if not any(d["signature"] == sig for d in devs):
                devs.append({"signature": sig, "what": f"through sqlframe.spark: {b['call']}: " +
                             (b.get("error") or f"recorded PySpark {b.get('recorded')!r}, sqlframe.spark {b.get('now')!r}"), "replay": b})
    fdir = os.path.join(core.VERIF, "findings")
    old = {}
    for fn in os.listdir(fdir):
        if fn.startswith("C17-") and fn.endswith(".json"):
            old[fn[4:-5]] = json.load(open(os.path.join(fdir, fn)))
    for fn in list(os.listdir(fdir)):
        if fn.startswith("C17-") and fn.endswith(".json"):
            os.remove(os.path.join(fdir, fn))
    findings = []

    def fname(sig):
        return "C17-" + re.sub(r"[^A-Za-z0-9_.-]", "_", "-".join(sig.split("/")[1:])) + ".json"

    for d in devs:
        assert d["signature"] not in FIXED, ("listed as fixed but still reproduces", d["signature"])
        parts = d["signature"].split("/")
        note = NOTES.get(tuple(parts[1:4])) or NOTES.get((parts[1], parts[2]), "")
        rp = os.path.join("findings", fname(d["signature"]))
        with open(os.path.join(core.VERIF, rp), "w") as f:
            json.dump({"property": "C17", "signature": d["signature"], "what": d["what"], "cause_and_patch": note,
                       "judged_by": "value recorded from PySpark 3.5.9 (oracle/c17_pyspark.jsonl)", "replay": d["replay"]},
                      f, indent=1, default=str)
        findings.append({"property": "C17", "status": "known", "signature": d["signature"],
                         "what": (d["what"] + (" -- " + note if note else ""))[:600], "replay": rp})
    for sig, (commit, what, oldname, tag) in FIXED.items():
        o = old.get(oldname) or old.get(fname(sig)[4:-5])
        replay = dict((o or {}).get("replay") or {})
        if tag and "cases" in replay:
            replay["cases"] = [c for c in replay["cases"] if tags.get((c.get("call_spec") or {}).get("id")) == tag]
        rp = os.path.join("findings", fname(sig))
        parts = sig.split("/")
        note = NOTES.get(tuple(parts[1:4])) or NOTES.get((parts[1], parts[2]), "")
        with open(os.path.join(core.VERIF, rp), "w") as f:
            json.dump({"property": "C17", "signature": sig, "status": "fixed", "commit": commit, "what": what, "cause_and_patch": note,
                       "judged_by": "value recorded from PySpark 3.5.9 (oracle/c17_pyspark.jsonl)",
                       "before_the_fix": "the cases below failed as shown (sqlframe value before the fix; the spark value is what the fixed code returns)",
                       "replay": replay}, f, indent=1, default=str)
        findings.append({"property": "C17", "status": "fixed", "signature": sig, "commit": commit, "what": what,
                         "line": f"fixed: property=C17 {commit} {what}", "replay": rp})
    with open(os.path.join(fdir, "C17.known.json"), "w") as f:
        json.dump({"comment": "staged findings of C17 (genuine deviations of sqlframe-on-DuckDB from PySpark 3.5.9, each with a replay). "
                              "status=known: still reproduces, printed as KNOWN-FINDING. status=fixed: repaired by the named commit in /repo; "
                              "suppresses nothing (the check reports it as a VIOLATION if it returns).",
                   "findings": findings}, f, indent=1)
    print("staged", sum(1 for x in findings if x["status"] == "known"), "known,", sum(1 for x in findings if x["status"] == "fixed"), "fixed")
    import shutil
    shutil.rmtree(ctx.build, ignore_errors=True)


if __name__ == "__main__":
    main()
