"""Recorder for C04: what live PySpark 3.5.9 reports for the scenarios of the staged findings (run once, offline).
usage: PYSPARK_PYTHON=/venv/bin/python /venv/bin/python oracle/record_c04.py  -> oracle/c04_pyspark.jsonl"""
import json
import os

os.environ.setdefault("PYSPARK_PYTHON", "/venv/bin/python")
from pyspark.sql import SparkSession
import pyspark.sql.functions as F

spark = (SparkSession.builder.master("local[1]").config("spark.ui.enabled", "false")
         .config("spark.sql.shuffle.partitions", "1").getOrCreate())
spark.sparkContext.setLogLevel("ERROR")
ROWS = [(1, 2, "x"), (3, 4, "y"), (None, 5, "x"), (3, 4, "y")]


def base():
    return (spark.createDataFrame(ROWS, "a long, b long, s string"),
            spark.createDataFrame([(1, 10), (3, 30), (7, 70)], "a long, c long"))


def look(d):
    return {"columns": d.columns, "rows": sorted([tuple(r) for r in d.collect()], key=repr),
            "schema": [f.name for f in d.schema.fields]}


def plan(d):
    return d._jdf.queryExecution().analyzed().toString()


out = []
CALLS = {
    "select": lambda d: d.select(F.col("A"), "B"),
    "agg": lambda d: d.agg(F.max("a").alias("A")),
    "withColumn": lambda d: d.withColumn("A", F.col("b")),
    "withColumns": lambda d: d.withColumns({"Z": F.lit(1), "B": F.col("a")}),
    "withColumnRenamed": lambda d: d.withColumnRenamed("b", "A"),
}
for name, f in CALLS.items():
    df, o = base()
    d1 = df.where(F.col("a").isNotNull())
    before = look(d1)
    f(d1)
    after = look(d1)
    out.append({"signature": f"C04/{name}-writes-receiver-display-names", "program": f"d1 = df.where(a is not null); d1.{name}(...)",
                "d1_before": before, "d1_after": after, "unchanged": before == after})
# hints
df, o = base()
h = df.hint("broadcast")
j = h.where(F.col("b").isNotNull()).join(o, "a")
p0 = plan(j)
h.alias("x")
out.append({"signature": "C04/alias-rewrites-shared-join-hint", "program": "h = df.hint('broadcast'); j = h.where(..).join(o,'a'); h.alias('x')",
            "j_plan_unchanged": plan(j) == p0, "unchanged": plan(j) == p0, "j_plan": p0[:400]})
df, o = base()
h = df.hint("broadcast")
j = h.join(o, "a")
k = h.where(F.col("b").isNotNull()).join(o, "a")
p0 = plan(k)
j.collect()
out.append({"signature": "C04/hint-resolution-rewrites-shared-join-hint",
            "program": "h = df.hint('broadcast'); j = h.join(o,'a'); k = h.where(..).join(o,'a'); j.collect()",
            "k_plan_unchanged": plan(k) == p0, "unchanged": plan(k) == p0, "k_plan": p0[:400]})
with open(os.path.join(os.path.dirname(__file__), "c04_pyspark.jsonl"), "w") as fh:
    for r in out:
        fh.write(json.dumps(r, default=str) + "\n")
print(json.dumps([{k: r[k] for k in ("signature", "unchanged")} for r in out], indent=1))
spark.stop()
