"""Record PySpark 3.5.9's answers for C01 programs (run manually; needs a JVM):
   PYSPARK_PYTHON=/venv/bin/python PYTHONPATH=/verif /venv/bin/python oracle/record_c01.py            (re-record everything)
   PYSPARK_PYTHON=/venv/bin/python PYTHONPATH=/verif /venv/bin/python oracle/record_c01.py --corpus   (append the corpus
       programs of checks/c01.py that are not in the file yet; the rest of the file is left as it is)
The registered check only reads oracle/c01_pyspark.jsonl and compares the Coq spec with it."""
import json, os, random, sys
os.environ.setdefault("PYSPARK_PYTHON", "/venv/bin/python")
sys.path.insert(0, "/verif")
from checks import c01
from pyspark.sql import SparkSession
import pyspark.sql.functions as F
from pyspark.sql.types import StructType, StructField, LongType, StringType

spark = SparkSession.builder.master("local[1]").config("spark.ui.enabled", "false").config("spark.sql.shuffle.partitions", "1").getOrCreate()
spark.sparkContext.setLogLevel("ERROR")
schema = StructType([StructField("a", LongType(), True), StructField("b", LongType(), True), StructField("s", StringType(), True)])

class Ctx: seed = 4242; tier = "quick"
PATH = "/verif/oracle/c01_pyspark.jsonl"
if "--corpus" in sys.argv:
    # C01's extended program set: its corpus + every short program that asks for a direction through `ascending=`
    # or gives a predicate as SQL text
    progs, _ = c01.make_programs(Ctx, extended=True)
    have = {json.dumps(json.loads(l)["steps"]) for l in open(PATH)}
    todo = []
    for i, p in enumerate(progs):
        (_, _), st = c01.plan_mode(p)
        wanted = i < c01.N_CORPUS or (len(st) <= 2 and any(x[0] == "orderByFlags" or (x[0] in ("where", "fillna") and len(x) > 2) for x in st))
        key = json.dumps(json.loads(json.dumps(st)))
        if wanted and st and key not in have:
            have.add(key)
            todo.append(p)
    out = open(PATH, "a")
else:
    progs, _ = c01.make_programs(Ctx)
    rnd = random.Random(1)
    rnd.shuffle(progs)
    todo = progs[:420]
    out = open(PATH, "w")
n = skipped = 0
for steps in todo:
    (mode, lim), steps = c01.plan_mode(steps)
    if not steps:
        continue
    for tname in ("t1", "t2", "empty"):
        rows = c01.TABLES[tname]
        try:
            df = spark.createDataFrame(rows, schema)
            for st in steps:
                df = c01.apply_step(df, st, F)
            got = df.collect()
            cols = df.columns
        except Exception as ex:
            skipped += 1
            print("skip", [c01.step_str(s) for s in steps], type(ex).__name__, str(ex)[:120].replace("\n", " "))
            break
        res = [[(float(x) if isinstance(x, float) else x) for x in r] for r in got]
        out.write(json.dumps({"steps": steps, "table": tname, "mode": mode, "lim": lim, "cols": cols, "result": res}) + "\n")
        n += 1
out.close()
print("recorded", n, "skipped programs", skipped)
spark.stop()
