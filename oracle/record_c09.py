"""Recorder for C09: what PySpark 3.5.9 answers on the container / schema-form cases that the Coq model does
not carry (row containers x schema forms, name handling) and on the witnesses of the refutation theorems.

usage:  PYSPARK_PYTHON=/venv/bin/python /venv/bin/python oracle/record_c09.py   (writes oracle/c09_pyspark.jsonl)

Each case is Python source evaluated in a namespace with datetime, Row, T (types), F (functions), inf, nan.
`data`/`schema` go to createDataFrame; `select` (optional) is a list of column expressions applied afterwards.
The recording keeps repr(collect()) rows in a canonical form and df.schema.simpleString().
"""
import datetime
import json
import math
import os
import sys

CASES = [
    # --- containers x schema forms
    {"id": "tuple-inferred", "data": "[(1, 'x'), (2, 'y')]", "schema": "None"},
    {"id": "list-names", "data": "[[1, 'x'], [2, 'y']]", "schema": "['a', 'b']"},
    {"id": "dict-inferred", "data": "[{'a': 1, 'b': 'x'}, {'a': 2, 'b': 'y'}]", "schema": "None"},
    {"id": "row-inferred", "data": "[Row(a=1, b='x'), Row(a=2, b='y')]", "schema": "None"},
    {"id": "dict-key-order", "data": "[{'a': 1, 'b': 2}, {'b': 3, 'a': 4}]", "schema": "None"},
    {"id": "dict-key-order-ddl", "data": "[{'a': 1, 'b': 2}, {'b': 3, 'a': 4}]", "schema": "'a bigint, b bigint'"},
    {"id": "row-names-rename", "data": "[Row(a=1, b='x')]", "schema": "['c', 'd']"},
    {"id": "dict-names-rename", "data": "[{'a': 1, 'b': 'x'}]", "schema": "['c', 'd']"},
    {"id": "row-ddl-rename", "data": "[Row(a=1, b='x')]", "schema": "'c bigint, d string'"},
    {"id": "tuple-ddl", "data": "[(1, 'x')]", "schema": "'a bigint, b string'"},
    {"id": "tuple-structtype", "data": "[(1, 'x')]",
     "schema": "T.StructType([T.StructField('a', T.LongType()), T.StructField('b', T.StringType())])"},
    # --- first value None / untyped
    {"id": "first-none-int", "data": "[(None, 1), (2, 3)]", "schema": "None"},
    {"id": "first-none-float", "data": "[(None,), (1.5,)]", "schema": "None"},
    {"id": "first-none-inf", "data": "[(None,), (inf,)]", "schema": "None"},
    {"id": "first-none-floatlist", "data": "[(None,), ([0.1],)]", "schema": "None"},
    {"id": "all-none", "data": "[(None,)]", "schema": "None"},
    # --- nested
    {"id": "struct-none-field", "data": "[(Row(a=None, b=1),), (Row(a=5, b=2),)]", "schema": "None"},
    {"id": "nested-inf", "data": "[([inf, 1.0],)]", "schema": "None"},
    {"id": "struct-inf", "data": "[(Row(a=inf),)]", "schema": "None"},
    {"id": "struct-key-value", "data": "[(Row(key=1, value=2),)]", "schema": "None"},
    {"id": "nested-tuple", "data": "[((1, 'x'),)]", "schema": "None"},
    {"id": "nested-row-case", "data": "[(Row(A=1),)]", "schema": "None"},
    # --- literals
    {"id": "lit-inf", "data": "[(1,)]", "schema": "['a']", "select": "[F.lit(inf).alias('x'), F.lit(-inf).alias('y')]"},
    {"id": "lit-floatlist", "data": "[(1,)]", "schema": "['a']", "select": "[F.array(F.lit(0.1)).alias('x')]"},
    {"id": "lit-nan", "data": "[(1,)]", "schema": "['a']", "select": "[F.lit(nan).alias('x')]"},
    {"id": "nan-narrows-column", "data": "[(nan,), (0.1,)]", "schema": "None"},
    {"id": "nan-narrows-list", "data": "[([nan, 0.1],)]", "schema": "None"},
    {"id": "nan-narrows-declared", "data": "[(0.1,), (nan,)]", "schema": "'a double'"},
    {"id": "operand-inf", "data": "[(1.5,), (inf,)]", "schema": "['f']", "select": "[(F.col('f') == inf).alias('x')]"},
    # --- strings
    {"id": "nul-string", "data": "[('a\\x00b',)]", "schema": "None"},
    {"id": "neg-zero", "data": "[(-0.0,)]", "schema": "None"},
    {"id": "aware-ts", "data": "[(datetime.datetime(2020, 1, 2, 3, 4, 5, 678, tzinfo=datetime.timezone(datetime.timedelta(hours=2))),)]",
     "schema": "None"},
    # --- names
    {"id": "name-dashdash-list", "data": "[(1,)]", "schema": "['a--b']"},
    {"id": "name-dashdash-dict-rows", "data": "[{'a--b': 1}]", "schema": "None"},
    {"id": "name-space-upper", "data": "[(1, 2)]", "schema": "['a b', 'B']"},
    # --- declared names with upper-case letters, every schema form and container kind
    {"id": "case-names-list", "data": "[(1, 'x')]", "schema": "['Id', 'userName']"},
    {"id": "case-ddl", "data": "[(1, 'x')]", "schema": "'Id bigint, userName string'"},
    {"id": "case-structtype", "data": "[[1, 'x']]",
     "schema": "T.StructType([T.StructField('Id', T.LongType()), T.StructField('userName', T.StringType())])"},
    {"id": "case-dict-rows", "data": "[{'Id': 1, 'userName': 'x'}]", "schema": "None"},
    {"id": "case-row-rows", "data": "[Row(Id=1, userName='x')]", "schema": "None"},
    {"id": "case-row-ddl", "data": "[Row(Id=1, userName='x')]", "schema": "'Id bigint, userName string'"},
    {"id": "case-dict-names", "data": "[{'Id': 1, 'userName': 'x'}]", "schema": "['Id', 'userName']"},
    # --- DDL spellings
    {"id": "ddl-colon", "data": "[(1,)]", "schema": "'a: int'"},
    {"id": "ddl-struct", "data": "[(Row(x=1, y='s'),)]", "schema": "'a struct<x:bigint,y:string>'"},
    {"id": "ddl-array", "data": "[([1, 2],)]", "schema": "'a array<bigint>'"},
    {"id": "ddl-spaces", "data": "[(1, 2)]", "schema": "' a  int ,  b int'"},
    {"id": "ddl-single-type", "data": "[(1,)]", "schema": "'int'"},
]


def namespace(Row, T, F):
    return {"datetime": datetime, "Row": Row, "T": T, "F": F, "inf": float("inf"), "nan": float("nan")}


def canon(v):
    """JSON-able canonical form of a collected value (shared with checks/c09.py)"""
    import decimal
    if v is None or isinstance(v, (bool, int, str)):
        return v if not isinstance(v, bool) else {"bool": v}
    if isinstance(v, float):
        return {"float": "nan" if math.isnan(v) else repr(v + 0.0)}
    if isinstance(v, decimal.Decimal):
        return {"decimal": str(v)}
    if isinstance(v, (bytes, bytearray)):
        return {"bytes": bytes(v).hex()}
    if isinstance(v, datetime.datetime):
        return {"datetime": v.isoformat(), "aware": v.tzinfo is not None}
    if isinstance(v, datetime.date):
        return {"date": v.isoformat()}
    if hasattr(v, "__fields__"):
        return {"row": [[k, canon(x)] for k, x in zip(v.__fields__, v)]}
    if isinstance(v, (list, tuple)):
        return {"list" if isinstance(v, list) else "tuple": [canon(x) for x in v]}
    if isinstance(v, dict):
        return {"dict": [[canon(k), canon(x)] for k, x in v.items()]}
    return {"other": repr(v)}


def run_case(session, case, ns):
    try:
        df = session.createDataFrame(eval(case["data"], ns), eval(case["schema"], ns))
        if case.get("select"):
            df = df.select(*eval(case["select"], ns))
        rows = df.collect()
        return {"ok": True, "rows": [canon(r) for r in rows], "schema": df.schema.simpleString()}
    except Exception as ex:  # noqa
        return {"ok": False, "error": type(ex).__name__, "message": str(ex)[:200]}


def main():
    os.environ.setdefault("PYSPARK_PYTHON", "/venv/bin/python")
    from pyspark.sql import SparkSession, Row
    from pyspark.sql import functions as F
    from pyspark.sql import types as T
    spark = (SparkSession.builder.master("local[1]").config("spark.ui.enabled", "false")
             .config("spark.sql.session.timeZone", "UTC").getOrCreate())
    spark.sparkContext.setLogLevel("ERROR")
    ns = namespace(Row, T, F)
    out = os.path.join(os.path.dirname(os.path.abspath(__file__)), "c09_pyspark.jsonl")
    with open(out, "w") as f:
        for case in CASES:
            rec = dict(case)
            rec["pyspark"] = run_case(spark, case, ns)
            f.write(json.dumps(rec) + "\n")
            print(case["id"], rec["pyspark"], file=sys.stderr)
    spark.stop()


if __name__ == "__main__":
    main()
