"""Record PySpark 3.5.9's values for C05 expression trees over the row pool (run once, offline JVM):
   PYTHONPATH=/verif PYSPARK_PYTHON=/venv/bin/python /venv/bin/python oracle/record_c05.py [n_random]
Writes oracle/c05_spark.jsonl: {"tree": ..., "vals": [...]} or {"tree": ..., "err": "..."} per line.
The check validates the Coq Spec (Build.ueval) against these recordings on every run."""
import json
import os
import random
import sys

sys.path.insert(0, os.path.dirname(os.path.dirname(os.path.abspath(__file__))))
from checks import c05_trees as T          # noqa: E402
from checks.c05 import impl_val, CORPUS    # noqa: E402


def main():
    n_rand = int(sys.argv[1]) if len(sys.argv) > 1 else 700
    from pyspark.sql import SparkSession
    import pyspark.sql.functions as F
    spark = (SparkSession.builder.master("local[1]").config("spark.ui.enabled", "false")
             .config("spark.sql.shuffle.partitions", "1").config("spark.sql.ansi.enabled", "false").getOrCreate())
    spark.sparkContext.setLogLevel("ERROR")
    df = spark.createDataFrame(T.ROWS, T.SCHEMA)
    rnd = random.Random(5)
    g = T.Gen(rnd)
    trees = list(CORPUS) + T.exhaustive(2)[::3]
    for _ in range(n_rand):
        trees.append(g.gen(rnd.choice(["bool", "bool", "int", "str", "num"]), rnd.choice([2, 3, 4])))
    seen, uniq = set(), []
    for t in trees:
        if repr(t) not in seen:
            seen.add(repr(t))
            uniq.append(t)
    out = open(os.path.join(os.path.dirname(os.path.abspath(__file__)), "c05_spark.jsonl"), "w")
    B = 20

    def one(t):
        try:
            rows = sorted(df.select("id", T.to_col(t, F).alias("r")).collect(), key=lambda r: r[0])
            return {"tree": t, "vals": [impl_val(r[1]) for r in rows]}
        except Exception as ex:
            return {"tree": t, "err": type(ex).__name__ + ": " + str(ex)[:120]}

    n_ok = 0
    for k in range(0, len(uniq), B):
        chunk = uniq[k:k + B]
        try:
            cols = [T.to_col(t, F).alias(f"r{i}") for i, t in enumerate(chunk)]
            rows = sorted(df.select("id", *cols).collect(), key=lambda r: r[0])
            recs = [{"tree": t, "vals": [impl_val(r[i + 1]) for r in rows]} for i, t in enumerate(chunk)]
        except Exception:
            recs = [one(t) for t in chunk]
        for r in recs:
            n_ok += "vals" in r
            out.write(json.dumps(r) + "\n")
    out.close()
    print(f"recorded {len(uniq)} trees, {n_ok} with values")
    spark.stop()


if __name__ == "__main__":
    main()
