"""Record PySpark 3.5.9's answers for C08 window cases (run manually; needs a JVM):
   PYSPARK_PYTHON=/venv/bin/python PYTHONPATH=/verif /venv/bin/python oracle/record_c08.py
The registered check only reads oracle/c08_pyspark.jsonl."""
import json, os, random, sys, warnings
os.environ.setdefault("PYSPARK_PYTHON", "/venv/bin/python")
sys.path.insert(0, "/verif")
from checks import c08
from pyspark.sql import SparkSession, Window
import pyspark.sql.functions as F
from pyspark.sql.types import StructType, StructField, LongType

spark = SparkSession.builder.master("local[1]").config("spark.ui.enabled", "false").config("spark.sql.shuffle.partitions", "1").getOrCreate()
spark.sparkContext.setLogLevel("ERROR")
schema = StructType([StructField(c, LongType(), True) for c in c08.COLS])
rnd = random.Random(808)
cases = c08.gen_cases(rnd, 330) if "--plans-only" not in sys.argv else []
out = open("/verif/oracle/c08_pyspark.jsonl", "w") if cases else open(os.devnull, "w")
n = 0
for sp, f in cases:
    for tname in ("w1", "w2", "w3"):
        rows = c08.TABLES[tname]
        try:
            df = spark.createDataFrame(rows, schema)
            got = df.select("id", "p", "k", "v", c08.fun_sf(f, F).over(c08.spec_sf(sp, F, Window)).alias("w")).collect()
        except Exception as ex:
            print("skip", c08.spec_str(sp, f), type(ex).__name__, str(ex)[:100])
            break
        res = [[(float(x) if isinstance(x, float) else x) for x in r] for r in got]
        out.write(json.dumps({"spec": sp, "fun": list(f), "table": tname, "rows": rows, "result": res}) + "\n")
        n += 1
out.close()
print("recorded", n)
spark.stop()

# ---- second recording: specs built by a sequence of builder calls (repeated / shuffled partitionBy, orderBy, frames) and
#      windows over frames derived by earlier chain steps   -> oracle/c08_pyspark_plans.jsonl
spark = SparkSession.builder.master("local[1]").config("spark.ui.enabled", "false").config("spark.sql.shuffle.partitions", "1").getOrCreate()
spark.sparkContext.setLogLevel("ERROR")
rnd = random.Random(909)
cases = c08.gen_cases(rnd, 140)
out = open("/verif/oracle/c08_pyspark_plans.jsonl", "w")
n = 0
for sp, f in cases:
    plan = c08.make_plan(rnd, sp)
    if len(plan) == len([1 for k in ("part", "order", "frame") if sp[k]]) and [k for k, _ in plan] == [k for k in ("part", "order", "frame") if sp[k]]:
        if rnd.random() < 0.7:
            continue        # the plain call order is already covered by the first recording
    pre = rnd.choice(c08.PRE_OPS)
    for tname in ("w1", "w2", "w3"):
        rows = c08.TABLES[tname]
        try:
            df = c08.apply_pre(spark.createDataFrame(rows, schema), pre, F)
            in_rows = [[r["id"], r["p"], r["k"], r["v"]] for r in df.collect()]
            got = df.select("id", "p", "k", "v", c08.fun_sf(f, F).over(c08.plan_sf(plan, F, Window)).alias("w")).collect()
        except Exception as ex:
            print("skip", c08.plan_str(plan, f), type(ex).__name__, str(ex)[:100])
            break
        res = [[(float(x) if isinstance(x, float) else x) for x in r] for r in got]
        out.write(json.dumps({"plan": plan, "pre": pre, "fun": list(f), "table": tname, "rows": rows, "in_rows": in_rows, "result": res}) + "\n")
        n += 1
out.close()
print("recorded plans", n)
spark.stop()
