"""Records what PySpark 3.5.9 answers for the minimal histories of the C13 findings (findings/C13-*.json).
Run:  cd /var/tmp && PYSPARK_PYTHON=/venv/bin/python /venv/bin/python /verif/oracle/record_c13.py
Writes /verif/oracle/c13_pyspark.json.  Not needed by the registered check (its oracle is the engine, DuckDB);
kept so that the judgement 'PySpark agrees with the engine, not with sqlframe' can be re-made."""
import glob
import json
import os
import tempfile

os.environ.setdefault("PYSPARK_PYTHON", "/venv/bin/python")
from pyspark.sql import SparkSession  # noqa: E402

wh = tempfile.mkdtemp(prefix="c13wh", dir="/var/tmp")
spark = (SparkSession.builder.master("local[1]").config("spark.ui.enabled", "false")
         .config("spark.sql.warehouse.dir", wh).config("spark.sql.shuffle.partitions", "1")
         .config("spark.driver.extraJavaOptions", f"-Dderby.system.home={wh}").getOrCreate())
spark.sparkContext.setLogLevel("ERROR")
STYPE = {"int": "bigint", "str": "string"}
out = {}
for path in sorted(glob.glob("/verif/findings/C13-*.json")):
    rp = json.load(open(path))["replay"]
    frames = rp["base_frames(heap[0..4])"]
    for v in [r.name for r in spark.catalog.listTables() if r.isTemporary]:
        spark.catalog.dropTempView(v)
    spark.sql("DROP TABLE IF EXISTS bt")
    heap = [spark.createDataFrame([tuple(r) for r in f["rows"]], ", ".join(f"{c} {STYPE[t]}" for c, t in zip(f["cols"], f["types"])))
            for f in frames]
    for name, t in rp["base_tables"].items():
        spark.createDataFrame([tuple(r) for r in t["rows"]], ", ".join(f"{c} {STYPE[ty]}" for c, ty in zip(t["cols"], t["types"]))) \
            .write.mode("overwrite").saveAsTable(name)
    res = []
    for st in rp["worker_steps"]:
        try:
            if st[0] == "reg":
                heap[st[2]].createOrReplaceTempView(st[1])
                res.append({"ok": True})
                continue
            df = spark.table(st[1]) if st[0] == "table" else spark.sql(st[1])
            heap.append(df)
            rows = sorted(([v for v in r] for r in df.collect()), key=lambda r: [(v is None, str(v)) for v in r])
            res.append({"cols": df.columns, "rows": rows})
        except Exception as ex:
            heap.append(None)
            res.append({"err": type(ex).__name__, "msg": str(ex)[:200]})
    out[os.path.basename(path)] = {"steps": rp["worker_steps"], "pyspark": res,
                                   "engine": rp["engine_returns(DuckDB, every frame materialised as a table)"],
                                   "sqlframe": rp["implementation_returned"]}
json.dump(out, open("/verif/oracle/c13_pyspark.json", "w"), indent=1)
for k, v in out.items():
    print(k, "| pyspark:", json.dumps(v["pyspark"][-1])[:160], "| engine:", json.dumps(v["engine"][-1])[:100])
spark.stop()
