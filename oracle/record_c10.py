"""Record PySpark 3.5.9's column names for C10 programs (run manually; needs a JVM, ~10 min):
   PYSPARK_PYTHON=/venv/bin/python PYTHONPATH=/verif /venv/bin/python oracle/record_c10.py [n_programs] [--append] | --exotic-only
Per step: df.columns and the schema's field names; at the last step also Row.__fields__ and toPandas().columns.
The registered check only reads oracle/c10_pyspark.jsonl (and re-runs the same programs on sqlframe)."""
import json, os, random, sys, warnings
os.environ.setdefault("PYSPARK_PYTHON", "/venv/bin/python")
sys.path.insert(0, "/verif")
from checks import c10
from pyspark.sql import SparkSession
import pyspark.sql.functions as F

N = int(sys.argv[1]) if len(sys.argv) > 1 and sys.argv[1].isdigit() else 400
spark = (SparkSession.builder.master("local[1]").config("spark.ui.enabled", "false")
         .config("spark.sql.shuffle.partitions", "1").getOrCreate())
spark.sparkContext.setLogLevel("ERROR")
warnings.simplefilter("ignore")
def record_exotic():
    """names outside the Coq model's identifier syntax: PySpark's answer for a fixed list (oracle/c10_pyspark_exotic.jsonl)"""
    with open("/verif/oracle/c10_pyspark_exotic.jsonl", "w") as f:
        for p in c10.EXOTIC:
            steps = []
            try:
                df = c10.make_df(spark, p["names"])
                steps.append({"columns": list(df.columns)})
                for op in p["ops"]:
                    df = c10.apply_op(spark, F, df, op)
                    steps.append({"columns": list(df.columns)})
                rows = df.collect()
                steps[-1]["fields"] = list(rows[0].__fields__)
            except Exception as ex:                   # noqa: BLE001
                steps.append({"error": f"{type(ex).__name__}: {str(ex)[:200]}"})
            f.write(json.dumps({"tag": p["tag"], "names": p["names"], "ops": p["ops"], "steps": steps}, ensure_ascii=False) + "\n")
            print("exotic", p["names"], p["ops"], steps[-1])


if "--exotic-only" in sys.argv:
    record_exotic()
    spark.stop()
    sys.exit(0)

APPEND = "--append" in sys.argv      # keep what is recorded, add the CORPUS entries not yet present + N fresh programs
done = set()
if APPEND and os.path.exists("/verif/oracle/c10_pyspark.jsonl"):
    for line in open("/verif/oracle/c10_pyspark.jsonl"):
        r = json.loads(line)
        done.add(json.dumps([r["names"], r["ops"]], ensure_ascii=False))
progs = list(c10.CORPUS)
for seed in ((2000 + len(done), 3000 + len(done)) if APPEND else (1010, 1011)):      # every --append run draws fresh programs
    g = c10.Gen(random.Random(seed))
    progs += [g.program(4) for _ in range(N // 2)]
progs = [p for p in progs if json.dumps([p["names"], json.loads(json.dumps(p["ops"]))], ensure_ascii=False) not in done]
out = open("/verif/oracle/c10_pyspark.jsonl", "a" if APPEND else "w")
n = nerr = 0
for p in progs:
    steps = []
    try:
        df = c10.make_df(spark, p["names"])
        steps.append({"columns": list(df.columns), "schema": [f.name for f in df.schema.fields]})
        for op in p["ops"]:
            df = c10.apply_op(spark, F, df, op)
            steps.append({"columns": list(df.columns), "schema": [f.name for f in df.schema.fields]})
        rows = df.collect()
        steps[-1]["fields"] = list(rows[0].__fields__) if rows else None
        steps[-1]["pandas"] = [str(c) for c in df.toPandas().columns]
    except Exception as ex:                       # noqa: BLE001
        steps.append({"error": f"{type(ex).__name__}: {str(ex)[:200]}"})
        nerr += 1
    out.write(json.dumps({"names": p["names"], "ops": p["ops"], "steps": steps}, ensure_ascii=False) + "\n")
    n += 1
    if n % 50 == 0:
        print(n, "programs,", nerr, "with an error", flush=True)
out.close()
print("recorded", n, "programs;", nerr, "ended in a PySpark error")
record_exotic()
spark.stop()
