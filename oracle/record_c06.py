"""Record PySpark 3.5.9's answers (column names + rows) for C06 aggregation programs (run manually; needs a JVM):
   PYSPARK_PYTHON=/venv/bin/python PYTHONPATH=/verif:/repo /venv/bin/python oracle/record_c06.py
The registered check only reads oracle/c06_pyspark.jsonl and validates the Coq Spark spec against it on every run."""
import json
import os
import random
import sys

os.environ.setdefault("PYSPARK_PYTHON", "/venv/bin/python")
sys.path.insert(0, "/verif")
from checks import c06  # noqa: E402
from pyspark.sql import SparkSession  # noqa: E402
import pyspark.sql.functions as F  # noqa: E402

spark = (SparkSession.builder.master("local[1]").config("spark.ui.enabled", "false")
         .config("spark.sql.shuffle.partitions", "1").getOrCreate())
spark.sparkContext.setLogLevel("ERROR")
rnd = random.Random(606)
g = c06.Gen(rnd)
cols0 = {"a": "int", "b": "int", "s": "str"}
progs = c06.api_shapes() + c06.corpus() + [g.program(cols0, 6) for _ in range(int(os.environ.get("C06_NREC", "170")))]
PATH = "/verif/oracle/c06_pyspark.jsonl"
seen = set()
if os.environ.get("C06_APPEND") and os.path.exists(PATH):      # only record programs that are not in the file yet
    for line in open(PATH):
        rc = json.loads(line)
        seen.add((json.dumps(rc["steps"]), rc["table"]))
    out = open(PATH, "a")
else:
    out = open(PATH, "w")
n = skipped = 0
for steps0 in progs:
    if not steps0 or not c06.well_formed(steps0):
        continue
    (mode, lim), steps = c06.plan_mode(steps0, cols0)
    if mode == "sub":
        continue
    for tname, rows in c06.TABLES.items():
        key = (json.dumps(steps), tname)
        if key in seen:
            continue
        seen.add(key)
        try:
            df0 = spark.createDataFrame(rows, c06.SCHEMA)
            df = df0
            for st in steps:
                df = c06.apply_step(df, st, F, df0)
            got = df.collect()
            columns = list(df.columns)
        except Exception as ex:
            skipped += 1
            print("skip", [c06.step_str(s) for s in steps], tname, type(ex).__name__, str(ex)[:120].replace("\n", " "))
            break
        res = [[(float(x) if isinstance(x, float) else x) for x in r] for r in got]
        out.write(json.dumps({"steps": steps, "table": tname, "rows": rows, "mode": mode, "lim": lim,
                              "columns": columns, "result": res}) + "\n")
        n += 1
out.close()
print("recorded", n, "skipped programs", skipped)
spark.stop()
