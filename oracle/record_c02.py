"""Record PySpark 3.5.9's answers (column list AND rows, or the error class) for the C02 join cases.
Run manually (needs a JVM, ~5 min):
   PYSPARK_PYTHON=/venv/bin/python PYTHONPATH=/verif /venv/bin/python oracle/record_c02.py
The registered check only reads oracle/c02_pyspark.jsonl: it validates the Coq Spark spec (C02.Model.sp_run) against
every recorded answer on every run, and uses the recording as a second judge for the cases it generates."""
import json
import os
import random
import sys

os.environ.setdefault("PYSPARK_PYTHON", "/venv/bin/python")
sys.path.insert(0, "/verif")
from checks import c02_cases as cc   # noqa: E402
from checks import c02_gen           # noqa: E402
from pyspark.sql import SparkSession  # noqa: E402
import pyspark.sql.functions as F     # noqa: E402

spark = (SparkSession.builder.master("local[1]").config("spark.ui.enabled", "false")
         .config("spark.sql.shuffle.partitions", "1").getOrCreate())
spark.sparkContext.setLogLevel("ERROR")

# the check draws its programs from c02_gen.PROGRAM_SEED whatever VERIF_SEED is: the quick tier's cases, the thorough tier's
# fixed families and its first 600 random chains are recorded
cases = c02_gen.gen_cases(random.Random(c02_gen.PROGRAM_SEED), "thorough", n_chains=600)

PATH = "/verif/oracle/c02_pyspark.jsonl"
have = set()
if os.path.exists(PATH) and "--all" not in sys.argv:       # incremental: only programs that are not recorded yet
    for line in open(PATH):
        c = json.loads(line)["case"]
        have.add(cc.key({x: c[x] for x in ("left", "steps", "fin", "data")}))
out = open(PATH, "a" if have else "w")
cases = [c for c in cases if cc.key({x: c[x] for x in ("left", "steps", "fin", "data")}) not in have]
print(len(cases), "programs to record,", len(have), "already recorded", flush=True)
n = n_err = 0
for case in cases:
    b = cc.Builder(spark, F, case["data"])
    try:
        df = b.final(case)
        cols, rows = cc.observe(df)
        res = {"cols": cols, "rows": rows}
    except Exception as ex:
        res = {"error": type(ex).__name__, "text": str(ex)[:200].replace("\n", " ")}
        n_err += 1
    out.write(json.dumps({"case": case, "result": res}) + "\n")
    n += 1
    if n % 200 == 0:
        print(n, "cases,", n_err, "errors", flush=True)
out.close()
print("recorded", n, "errors", n_err)
spark.stop()
