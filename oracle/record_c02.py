"""Record PySpark 3.5.9's answers (column list AND rows, or the error class) for the C02 join cases.
Run manually (needs a JVM, ~5 min):
   PYSPARK_PYTHON=/venv/bin/python PYTHONPATH=/verif /venv/bin/python oracle/record_c02.py
The registered check only reads oracle/c02_pyspark.jsonl: it validates the Coq Spark spec (C02.Model.sp_run) against
every recorded answer on every run, and uses the recording as a second judge for the cases it generates."""
import json
import os
import random
import sys

os.environ.setdefault("PYSPARK_PYTHON", "/venv/bin/python")
sys.path.insert(0, "/verif")
from checks import c02_cases as cc   # noqa: E402
from checks import c02_gen           # noqa: E402
from pyspark.sql import SparkSession  # noqa: E402
import pyspark.sql.functions as F     # noqa: E402

spark = (SparkSession.builder.master("local[1]").config("spark.ui.enabled", "false")
         .config("spark.sql.shuffle.partitions", "1").getOrCreate())
spark.sparkContext.setLogLevel("ERROR")

SEED = 20261001          # the check's default VERIF_SEED: the quick tier's cases and the first 600 chains of the thorough tier are recorded
cases = c02_gen.gen_cases(random.Random(SEED), "thorough", n_chains=600)

out = open("/verif/oracle/c02_pyspark.jsonl", "w")
n = n_err = 0
for case in cases:
    b = cc.Builder(spark, F, case["data"])
    try:
        df = b.final(case)
        cols, rows = cc.observe(df)
        res = {"cols": cols, "rows": rows}
    except Exception as ex:
        res = {"error": type(ex).__name__, "text": str(ex)[:200].replace("\n", " ")}
        n_err += 1
    out.write(json.dumps({"case": case, "result": res}) + "\n")
    n += 1
    if n % 200 == 0:
        print(n, "cases,", n_err, "errors", flush=True)
out.close()
print("recorded", n, "errors", n_err)
spark.stop()
