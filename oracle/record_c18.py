"""Records what PySpark 3.5.9 does in the two situations of the C18 findings (run once; output vendored in oracle/c18_pyspark.json).
usage: PYSPARK_PYTHON=/venv/bin/python /venv/bin/python oracle/record_c18.py"""
import json
import os

os.environ.setdefault("PYSPARK_PYTHON", "/venv/bin/python")
from pyspark.sql import SparkSession  # noqa: E402

spark = SparkSession.builder.master("local[1]").config("spark.ui.enabled", "false").getOrCreate()
out = {}
d1 = spark.createDataFrame([(1, 2), (3, 4)], "a bigint, b bigint")
d2 = spark.createDataFrame([(5, 6, 7)], "c bigint, d bigint, e bigint")
d1.createOrReplaceTempView("v")
out["after_first_registration"] = [list(r) for r in spark.sql("select a from v").collect()]
d2.createOrReplaceTempView("v")
out["reregistered_view_select_star"] = {"columns": spark.sql("select * from v").columns,
                                        "rows": [list(r) for r in spark.sql("select * from v").collect()]}
before = sorted(t.name for t in spark.catalog.listTables())
_ = d1.schema
_ = d1.where("a > 1").schema
after = sorted(t.name for t in spark.catalog.listTables())
out["listTables_before_schema"] = before
out["listTables_after_schema"] = after
# same alias names used by unrelated DataFrames
x1 = d1.alias("x")
h = spark.createDataFrame([(9, 9)], "a bigint, b bigint").alias("x")
_ = h.select("x.a").collect()
out["alias_reuse"] = [list(r) for r in x1.select("x.a").collect()]
with open(os.path.join(os.path.dirname(__file__), "c18_pyspark.json"), "w") as f:
    json.dump(out, f, indent=1)
print(json.dumps(out, indent=1))
spark.stop()
