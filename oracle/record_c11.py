"""Recorder for C11: what PySpark 3.5.9 answers for the action shapes on which sqlframe is judged.

Run (offline, ~15 s):  PYSPARK_PYTHON=/venv/bin/python /venv/bin/python oracle/record_c11.py
Writes oracle/c11_pyspark.json.  The registered check only READS that file (no JVM in the quick tier).
"""
import contextlib
import io
import json
import os

os.environ.setdefault("PYSPARK_PYTHON", "/venv/bin/python")
from pyspark.sql import SparkSession
import pyspark.sql.functions as F

spark = (SparkSession.builder.master("local[1]").config("spark.ui.enabled", "false")
         .config("spark.sql.shuffle.partitions", "1").getOrCreate())
spark.sparkContext.setLogLevel("ERROR")

ROWS = [(1, 2, "x"), (2, 1, "y"), (None, 3, "x")]
SCHEMA = "a bigint, b bigint, s string"


def rows(l):
    return [list(r) for r in l]


def shown(df, *a):
    buf = io.StringIO()
    with contextlib.redirect_stdout(buf):
        df.show(*a)
    return buf.getvalue()


df = spark.createDataFrame(ROWS, SCHEMA)
empty = df.where(F.col("a") > 100)
dup = df.select(F.col("a").alias("a"), F.col("b").alias("a"))
clash = df.select(F.col("a").alias("a_2"), F.col("b").alias("a"), F.col("s").alias("a"))
out = {
    "pyspark": __import__("pyspark").__version__,
    "rows": ROWS, "schema": SCHEMA,
    "head(0)": rows(df.head(0)),
    "head(1)": rows(df.head(1)),
    "head(2)": rows(df.head(2)),
    "head(100)": rows(df.head(100)),
    "head()": list(df.head()),
    "first()": list(df.first()),
    "limit(0).collect()": rows(df.limit(0).collect()),
    "empty.head()": empty.head(),
    "empty.first()": empty.first(),
    "empty.head(0)": rows(empty.head(0)),
    "empty.head(2)": rows(empty.head(2)),
    "empty.count()": empty.count(),
    "empty.isEmpty()": empty.isEmpty(),
    "isEmpty()": df.isEmpty(),
    "count()": df.count(),
    "limit(0).isEmpty()": df.limit(0).isEmpty(),
    "show(0)": shown(df, 0),
    "show(2)": shown(df, 2),
    "empty.show()": shown(empty),
    "dup.columns": dup.columns,
    "dup.collect()": rows(dup.collect()),
    "dup.show()": shown(dup),
    "dup.count()": dup.count(),
    "clash.columns": clash.columns,
    "clash.show()": shown(clash),
    "clash.show(1)": shown(clash, 1),
}
with open(os.path.join(os.path.dirname(os.path.abspath(__file__)), "c11_pyspark.json"), "w") as f:
    json.dump(out, f, indent=1)
print(json.dumps(out, indent=1))
spark.stop()
