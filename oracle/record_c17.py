"""Record PySpark 3.5.9's values for every C17 call (run manually; needs a JVM, ~1-2 min):
   TZ=UTC PYSPARK_PYTHON=/venv/bin/python PYTHONPATH=/verif /venv/bin/python oracle/record_c17.py
Writes oracle/c17_pyspark.jsonl (one call per line: id, fn, mode, args, kwargs, text, spark=[value per row] | spark_error).
The registered check only reads that file.  Session: local[1], UI off, session time zone UTC, ANSI off (Spark 3.5 default)."""
import json
import os
import sys
import time

os.environ["TZ"] = "UTC"
time.tzset()
os.environ.setdefault("PYSPARK_PYTHON", "/venv/bin/python")
sys.path.insert(0, "/verif")
from checks import c17_cases as cc

from pyspark.sql import SparkSession
import pyspark.sql.functions as F

spark = (SparkSession.builder.master("local[1]").config("spark.ui.enabled", "false")
         .config("spark.sql.shuffle.partitions", "1").config("spark.sql.session.timeZone", "UTC")
         .config("spark.driver.extraJavaOptions", "-Duser.timezone=UTC").getOrCreate())
spark.sparkContext.setLogLevel("ERROR")
df = spark.createDataFrame(cc.ROWS, cc.DDL).coalesce(1).sortWithinPartitions("id").cache()
df.count()


def run_row(cols):
    return cc.run_row(df, cols)


def run_agg(cols):
    return cc.run_agg(df, F, cols)


def err(ex):
    return f"{type(ex).__name__}: {str(ex).splitlines()[0][:300]}"


calls = cc.all_calls()
out = {}
for mode, runner in (("row", run_row), ("agg", run_agg)):
    pending = []
    for c in calls:
        if c["mode"] != mode:
            continue
        try:
            col = cc.build_call(c, F).alias("c%d" % len(pending))
            pending.append((c, col))
        except Exception as ex:
            out[c["id"]] = {"spark_error": "build: " + err(ex)}
    for i in range(0, len(pending), 20):
        chunk = pending[i:i + 20]
        try:
            vals = runner([col for _, col in chunk])
            for (c, _), v in zip(chunk, vals):
                out[c["id"]] = {"spark": v}
        except Exception:
            for c, col in chunk:
                try:
                    out[c["id"]] = {"spark": runner([col])[0]}
                except Exception as ex:
                    out[c["id"]] = {"spark_error": err(ex)}

n_ok = n_err = 0
with open("/verif/oracle/c17_pyspark.jsonl", "w") as f:
    for c in calls:
        rec = dict(c)
        rec["text"] = cc.call_text(c)
        rec.update(out[c["id"]])
        if "spark" in rec:
            n_ok += 1
        else:
            n_err += 1
            print("SPARK ERROR", rec["text"], rec["spark_error"][:200])
        f.write(json.dumps(rec, sort_keys=True) + "\n")
print("recorded", n_ok, "calls;", n_err, "calls Spark itself rejects (kept, marked spark_error)")
print("pyspark", __import__("pyspark").__version__)
spark.stop()
