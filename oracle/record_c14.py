"""Recorder for C14: runs write/read histories on live PySpark 3.5.9 and stores the outcomes in oracle/c14_pyspark.jsonl.

usage:  PYSPARK_PYTHON=/venv/bin/python PYTHONPATH=/verif /venv/bin/python oracle/record_c14.py [OUT.jsonl]

The histories use the op encoding of checks/c14.py, so that the check can feed them to the Coq Spec (`check_spec`)
unchanged.  Recorded: every ordered pair of the six save modes on a table and on a parquet / json / csv path, the mode
given as argument or through .mode(); append onto an absent table; append with permuted column names (by name);
insertInto (positional, names ignored; absent table); catalog calls.  byName (a sqlframe extension) and failing frames
(Spark's overwrite is not atomic; the property text is the judge there) are not recorded.
"""
from __future__ import annotations

import json
import os
import shutil
import sys

sys.path.insert(0, "/verif")
from checks import c14  # noqa: E402

OUT = sys.argv[1] if len(sys.argv) > 1 else "/verif/oracle/c14_pyspark.jsonl"
ROOT = f"/var/tmp/c14_spark_{os.getpid()}"
SPARK_TY = {"int": "long", "str": "string", "bool": "boolean"}


def histories():
    hs = list(c14.mode_pair_histories("record"))      # its own tier: trimming the quick tier must not change the recording
    A, B, S = c14.FR_AB, c14.FR_BA, c14.FR_AS
    hs += [
        [["save", "t", "append", None, A], ["exists", "t"], ["rtable", "t"]],
        [["save", "t", None, "append", A], ["exists", "t"], ["rtable", "t"]],
        [["save", "t", None, None, A], ["save", "t", "append", None, B], ["rtable", "t"]],
        [["save", "t", None, None, A], ["save", "t", None, "append", B], ["rtable", "t"]],
        [["save", "t", None, None, A], ["insert", "t", False, B], ["rtable", "t"]],
        [["insert", "t", False, A], ["exists", "t"]],
        [["save", "t", None, None, A], ["rtable", "t"], ["save", "t", "overwrite", None, c14.FR_C], ["rtable", "t"], ["cols", "t"]],
        [["save", "t", None, None, S], ["drop", "t"], ["exists", "t"], ["rtable", "t"], ["get", "t"], ["list"],
         ["save", "t", "ignore", None, c14.FR_AS2], ["rtable", "t"], ["list"], ["get", "t"]],
        [["save", "t", None, None, A], ["save", "u", None, None, S], ["list"], ["drop", "t"], ["list"], ["exists", "u"]],
        [["wpath", "p", "parquet", None, None, A], ["wpath", "p", "parquet", None, "overwrite", B], ["rpath", "p", "parquet"]],
        [["wpath", "p", "parquet", None, None, A], ["wpath", "p", "parquet", "append", None, A], ["rpath", "p", "parquet"]],
        [["wpath", "p", "parquet", "ignore", "overwrite", A], ["wpath", "p", "parquet", "ignore", "overwrite", B], ["rpath", "p", "parquet"]],
        [["rpath", "p", "parquet"]],
    ]
    # one reader object re-used for files with other columns / formats (Spark's JSON reader returns the columns sorted by
    # name: histories that write a frame with unsorted column names as JSON are left out)
    def json_sorted(h):
        return all(o[0] != "wpath" or o[2] != "json" or [c[0] for c in o[5]["cols"]] == sorted(c[0] for c in o[5]["cols"]) for o in h)
    hs += [h for h in c14.reader_histories("record") if json_sorted(h)]
    return hs


def ty_of_spark(s):
    return {"bigint": "int", "long": "int", "int": "int", "string": "str", "boolean": "bool"}.get(s, "other")  # csv inferSchema gives int


def classify(ex):
    msg = str(ex)
    if "ALREADY_EXISTS" in msg or "already exists" in msg:
        return "EExists"
    if "TABLE_OR_VIEW_NOT_FOUND" in msg or "PATH_NOT_FOUND" in msg or "cannot be found" in msg or "does not exist" in msg:
        return "EMissing"
    return "EFailed"


def main():
    from pyspark.sql import SparkSession
    shutil.rmtree(ROOT, ignore_errors=True)
    os.makedirs(ROOT)
    spark = (SparkSession.builder.master("local[1]").config("spark.ui.enabled", "false")
             .config("spark.sql.warehouse.dir", ROOT + "/wh").config("spark.sql.shuffle.partitions", "1")
             .config("spark.driver.extraJavaOptions", f"-Dderby.system.home={ROOT}/derby").getOrCreate())
    spark.sparkContext.setLogLevel("ERROR")

    def mkdf(fr):
        schema = ", ".join(f"{n} {SPARK_TY[t]}" for n, t in fr["cols"])
        return spark.createDataFrame([tuple(r) for r in fr["rows"]], schema)

    def read_obs(df):
        cols = [[f.name, ty_of_spark(f.dataType.simpleString())] for f in df.schema.fields]
        return ["rows", cols, [list(r) for r in df.collect()]]

    n = 0
    with open(OUT, "w") as out:
        for hi, ops in enumerate(histories()):
            for t in spark.catalog.listTables():
                spark.sql(f"DROP TABLE IF EXISTS {t.name}")
            shutil.rmtree(ROOT + "/wh", ignore_errors=True)
            base = f"{ROOT}/h{hi}"
            obs = []
            kept = None
            for o in ops:
                k = o[0]
                try:
                    if k == "save":
                        w = mkdf(o[4]).write
                        if o[3] is not None:
                            w = w.mode(o[3])
                        w.saveAsTable(o[1]) if o[2] is None else w.saveAsTable(o[1], mode=o[2])
                        obs.append(["ok"])
                    elif k == "insert":
                        assert not o[2]
                        mkdf(o[3]).write.insertInto(o[1])
                        obs.append(["ok"])
                    elif k == "wpath":
                        w = mkdf(o[5]).write
                        if o[4] is not None:
                            w = w.mode(o[4])
                        kw = {} if o[3] is None else {"mode": o[3]}
                        if o[2] == "csv":
                            kw["header"] = True
                        getattr(w, o[2])(f"{base}/{o[1]}", **kw)
                        obs.append(["ok"])
                    elif k == "rtable":
                        obs.append(read_obs(spark.table(o[1])))
                    elif k == "rpath":
                        kw = {"header": True, "inferSchema": True} if o[2] == "csv" else {}
                        if len(o) > 3:
                            reader = kept = kept or spark.read
                        else:
                            reader = spark.read
                        obs.append(read_obs(getattr(reader, o[2])(f"{base}/{o[1]}", **kw)))
                    elif k == "drop":
                        spark.sql(f"DROP TABLE {o[1]}")
                        obs.append(["ok"])
                    elif k == "exists":
                        obs.append(["bool", bool(spark.catalog.tableExists(o[1]))])
                    elif k == "list":
                        obs.append(["names", [t.name for t in spark.catalog.listTables()]])
                    elif k == "cols":
                        obs.append(["cols", [[c.name, ty_of_spark(c.dataType)] for c in spark.catalog.listColumns(o[1])]])
                    elif k == "get":
                        spark.catalog.getTable(o[1])
                        obs.append(["ok"])
                except Exception as ex:  # noqa: BLE001
                    cls = classify(ex)
                    if k in ("rtable", "rpath", "get", "drop"):
                        cls = "EMissing"
                    if k == "cols":
                        obs.append(["cols", []])      # PySpark raises for an absent table; sqlframe answers [] (not judged)
                    else:
                        obs.append(["err", cls])
            # json loses column order in PySpark (sorted alphabetically on read): compare by name
            out.write(json.dumps({"ops": ops, "obs": obs}) + "\n")
            n += 1
    spark.stop()
    shutil.rmtree(ROOT, ignore_errors=True)
    print(f"recorded {n} histories into {OUT}")


if __name__ == "__main__":
    main()
