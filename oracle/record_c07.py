"""Record PySpark 3.5.9's answers for C07 set-operation cases (run manually; needs a JVM):
   PYSPARK_PYTHON=/venv/bin/python PYTHONPATH=/verif /venv/bin/python oracle/record_c07.py [N_RANDOM]
The registered check only reads oracle/c07_pyspark.jsonl and compares the Coq Spark spec with it on every run."""
import json, os, random, sys
os.environ.setdefault("PYSPARK_PYTHON", "/venv/bin/python")
sys.path.insert(0, "/verif")
from checks import c07
from pyspark.sql import SparkSession
import pyspark.sql.functions as F
from pyspark.sql.types import StructType, StructField, LongType, StringType

spark = (SparkSession.builder.master("local[1]").config("spark.ui.enabled", "false")
         .config("spark.sql.shuffle.partitions", "1").getOrCreate())
spark.sparkContext.setLogLevel("ERROR")


class Tier:
    tier = "quick"


rnd = random.Random(707)
cases = c07.make_cases(Tier, rnd)
n_random = int(sys.argv[1]) if len(sys.argv) > 1 else 120
# keep every corpus / nest2 case, a stride of the exhaustive families, and the random trees
picked, fam = [], {}
for c in cases:
    k = fam.get(c.origin, 0)
    fam[c.origin] = k + 1
    if c.origin in ("corpus", "nest2", "byname-missing", "spelling", "left-ref", "ordered-operand", "literal-case") or (c.origin == "random" and k < n_random) or (c.origin != "random" and k % 3 == 0):
        picked.append(c)
# programs PySpark must refuse (the spec answers None): width mismatch, unionByName with other names
tabs = c07.FIXED
for t in [("set", "union", ("in", 1), ("in", 8)), ("set", "intersectAll", ("in", 7), ("in", 1)),
          ("set", "unionByName", ("in", 1), ("in", 6)), ("set", "unionByName", ("in", 1), ("in", 4)),
          ("set", "exceptAll", ("in", 1), ("in", 8))]:
    picked.append(c07.Case(tabs, t, origin="refused"))

out = open("/verif/oracle/c07_pyspark.jsonl", "w")
n = n_err = 0
for c in picked:
    rec = c.to_json()
    rec["origin"] = c.origin
    try:
        dfs = [spark.createDataFrame(rows, StructType([StructField(x, StringType() if x in c07.STR_COLS else LongType(), True) for x in cols]))
               for cols, rows in c.tables]
        d = c07.build(c.tree, dfs, F, {} if c.share else None)
        if c.post == "groupcount":
            d = d.groupBy(*d.columns).count()
        cols = list(d.columns)
        rows = [list(r) for r in d.collect()]
        rec["result"] = {"columns": cols, "rows": rows}
    except Exception as ex:
        rec["error"] = f"{type(ex).__name__}: {str(ex)[:200]}"
        n_err += 1
        print("error", c.text(), rec["error"][:120])
    out.write(json.dumps(rec) + "\n")
    n += 1
    if n % 50 == 0:
        print(n, "/", len(picked), flush=True)
out.close()
print("recorded", n, "errors", n_err)
spark.stop()
