"""C13 worker: runs histories of register / table / sql / transform steps on the real DuckDBSession and,
independently, on a plain DuckDB connection where every DataFrame value is materialised as a temp table
(the property's oracle: "returns what the engine returns for q").

stdin : JSON {"base": {...}, "histories": [[step, ...], ...]}
stdout: JSON [[obs, ...], ...]   one observation per step

Every history runs in a fresh session (singleton reset + new in-memory connection), so registries
(temp views, schema cache, known ids) do not leak between histories.

step            | implementation                                   | oracle (DuckDB, value semantics)
["reg", n, h]   | heap[h].createOrReplaceTempView(n)                | CREATE OR REPLACE TEMP TABLE <lower n> AS SELECT * FROM h<h>
["table", n]    | push session.table(n)                             | h<new> := SELECT * FROM <n>
["sql", text]   | push session.sql(text)                            | h<new> := <text>
["where", h, t] | push heap[h].where(t)                             | h<new> := SELECT * FROM h<h> WHERE t
["joinb", h1, h2, k] | push heap[h1].join(heap[h2] with non-key columns suffixed _r, on=k) | same with USING
["obs", h]      | heap[h] collected again                           | SELECT * FROM h<h>
An observation is {"impl": R, "oracle": R, "icols": [...]} with R = {"cols": [...], "rows": [[...]]} or {"err": cls}.
Steps that create a DataFrame push a heap entry even when they fail (entry None); later uses give err "NoFrame".
"""
from __future__ import annotations

import json
import sys


class NoFrame(Exception):
    pass


def errname(ex):
    return "NoFrame" if isinstance(ex, NoFrame) else type(ex).__name__


def canon_rows(rows):
    return sorted(([v for v in r] for r in rows), key=lambda r: [(v is None, str(type(v).__name__), v if v is not None else 0) for v in r])


def fresh_session():
    import duckdb
    from sqlframe.base.session import _BaseSession
    from sqlframe.duckdb import DuckDBSession
    _BaseSession._instance = None
    return DuckDBSession(conn=duckdb.connect())


def collect(df):
    rows = df.collect()
    cols = list(rows[0].__fields__) if rows else list(df.columns)
    return {"cols": cols, "rows": canon_rows([tuple(r) for r in rows])}


def oracle_read(kon, sql):
    cur = kon.execute(sql)
    cols = [d[0] for d in cur.description]
    return {"cols": cols, "rows": canon_rows(cur.fetchall())}


def values_sql(cols, types, rows):
    if not rows:
        return "SELECT " + ", ".join(f"CAST(NULL AS {t}) AS {c}" for c, t in zip(cols, types)) + " WHERE FALSE"
    def lit(v, t):
        if v is None:
            return f"CAST(NULL AS {t})"
        if isinstance(v, str):
            return "'" + v.replace("'", "''") + "'"
        return f"CAST({v} AS {t})"
    body = ", ".join("(" + ", ".join(lit(v, t) for v, t in zip(r, types)) + ")" for r in rows)
    return f"SELECT * FROM (VALUES {body}) AS t({', '.join(cols)})"


DTYPE = {"int": "BIGINT", "str": "VARCHAR"}
STYPE = {"int": "bigint", "str": "string"}


def run_history(base, steps):
    import duckdb
    import sqlframe.duckdb.functions as F
    s = fresh_session()
    kon = duckdb.connect()
    heap = []
    n_or = 0
    # base DataFrames and real tables
    for i, fr in enumerate(base["frames"]):
        schema = ", ".join(f"{c} {STYPE[t]}" for c, t in zip(fr["cols"], fr["types"]))
        heap.append(s.createDataFrame([tuple(r) for r in fr["rows"]], schema))
        kon.execute(f"CREATE TEMP TABLE h{i} AS " + values_sql(fr["cols"], [DTYPE[t] for t in fr["types"]], fr["rows"]))
    for name, fr in base.get("tables", {}).items():
        ddl = f"CREATE TABLE {name} AS " + values_sql(fr["cols"], [DTYPE[t] for t in fr["types"]], fr["rows"])
        s._conn.execute(ddl)
        kon.execute(ddl)
    out = []

    def impl(fn, push):
        """creation and collection are separate: a frame that was created but whose collect() raises stays on the heap"""
        try:
            df = fn()
            if df is None:
                raise NoFrame()
        except Exception as ex:
            if push:
                heap.append(None)
            return {"err": errname(ex), "msg": str(ex)[:160], "at": "create"}
        if push:
            heap.append(df)
        try:
            r = collect(df)
            try:
                r["static_cols"] = list(df.columns)
            except Exception as ex:  # noqa
                r["static_cols"] = ["<" + type(ex).__name__ + ">"]
            return r
        except Exception as ex:
            return {"err": errname(ex), "msg": str(ex)[:160], "at": "collect"}

    ok_or = []   # oracle: which heap tables exist

    def oracle(sql, push):
        idx = len(ok_or)
        try:
            if push:
                kon.execute(f"CREATE OR REPLACE TEMP TABLE h{idx} AS {sql}")
                ok_or.append(True)
                return oracle_read(kon, f"SELECT * FROM h{idx}")
            return oracle_read(kon, sql)
        except Exception as ex:
            if push:
                ok_or.append(False)
            return {"err": type(ex).__name__, "msg": str(ex)[:160]}

    ok_or.extend([True] * len(heap))

    def hcheck(h):
        return h < len(ok_or) and ok_or[h]

    for st in steps:
        k = st[0]
        if k == "reg":
            _, name, h = st
            try:
                if heap[h] is None:
                    raise NoFrame()
                heap[h].createOrReplaceTempView(name)
                ri = {"cols": [], "rows": []}
            except Exception as ex:
                ri = {"err": errname(ex), "msg": str(ex)[:160]}
            try:
                if not hcheck(h):
                    raise NoFrame()
                kon.execute(f"CREATE OR REPLACE TEMP TABLE {name.lower()} AS SELECT * FROM h{h}")
                ro = {"cols": [], "rows": []}
            except Exception as ex:
                ro = {"err": errname(ex), "msg": str(ex)[:160]}
            out.append({"impl": ri, "oracle": ro})
        elif k == "table":
            name = st[1]
            out.append({"impl": impl(lambda: s.table(name), True), "oracle": oracle(f"SELECT * FROM {name}", True)})
        elif k == "sql":
            text = st[1]
            out.append({"impl": impl(lambda: s.sql(text), True), "oracle": oracle(text, True)})
        elif k == "where":
            _, h, text = st
            out.append({"impl": impl(lambda: heap[h].where(text) if heap[h] is not None else None, True),
                        "oracle": oracle(f"SELECT * FROM h{h} WHERE {text}", True) if hcheck(h) else _push_fail(ok_or)})
        elif k == "joinb":
            _, h1, h2, key, rcols = st

            def j():
                if heap[h1] is None or heap[h2] is None:
                    return None
                right = heap[h2].select(F.col(key), *[F.col(c).alias(c + "_r") for c in rcols])
                return heap[h1].join(right, on=key, how="inner")
            if hcheck(h1) and hcheck(h2):
                # PySpark's join(on=key): the key first, then the left frame's other columns, then the right's
                lcols = [d[0] for d in kon.execute(f"SELECT * FROM h{h1} LIMIT 0").description]
                rsel = ", ".join([key] + [f"{c} AS {c}_r" for c in rcols])
                osel = ", ".join([f"l.{key}"] + [f"l.{c}" for c in lcols if c != key] + [f"r.{c}_r" for c in rcols])
                ro = oracle(f"SELECT {osel} FROM h{h1} AS l JOIN (SELECT {rsel} FROM h{h2}) AS r ON l.{key} = r.{key}", True)
            else:
                ro = _push_fail(ok_or)
            out.append({"impl": impl(j, True), "oracle": ro})
        elif k == "obs":
            h = st[1]
            out.append({"impl": impl(lambda: heap[h], False),
                        "oracle": oracle(f"SELECT * FROM h{h}", False) if hcheck(h) else {"err": "NoFrame"}})
        else:
            raise ValueError(st)
    return out


def _push_fail(ok_or):
    ok_or.append(False)
    return {"err": "NoFrame"}


def main():
    job = json.load(sys.stdin)
    res = []
    for steps in job["histories"]:
        try:
            res.append(run_history(job["base"], steps))
        except Exception as ex:  # harness failure: reported, never hidden
            res.append({"crash": f"{type(ex).__name__}: {ex}"})
    json.dump(res, sys.stdout)


if __name__ == "__main__":
    main()
