"""C12 / T3 implementation side: the REAL sqlframe session class of one engine, one process per engine.

usage:  python -m checks.c12_worker <engine>   < request.json   > answers.json

The engine's own session class is constructed through its real __init__ with stub driver modules in sys.modules
(google.cloud.bigquery, snowflake.connector, psycopg2, databricks.sql; a fake PySpark session object for Spark) and a
RECORDING DB-API connection.  The recording cursor is also a *dialect reader*: every statement it receives is
 1. parsed by sqlglot in the engine's dialect (must succeed),
 2. re-rendered in that dialect (must be a fixed point),
 3. transpiled to DuckDB -- with identifiers made case-SENSITIVE by an injective encoding when the dialect resolves
    quoted identifiers case-sensitively (Snowflake, Postgres), because DuckDB itself never does --,
 4. executed on a private DuckDB connection; rows and column names are handed back to sqlframe as the engine's answer,
so that collect() on the engine session returns real Rows through the real result-name re-normalisation.
"""
from __future__ import annotations

import importlib
import json
import logging
import re
import sys
import types
import warnings

SESSION_CLASS = {"spark": "SparkSession", "duckdb": "DuckDBSession", "bigquery": "BigQuerySession",
                 "postgres": "PostgresSession", "redshift": "RedshiftSession", "snowflake": "SnowflakeSession",
                 "databricks": "DatabricksSession"}
SCHEMA = "a bigint, b bigint, s string"


# ------------------------------------------------------------------------------------------------
# the dialect reader
# ------------------------------------------------------------------------------------------------

def enc_ident(n: str) -> str:
    low = n.lower()
    if low == n:
        return n
    mask = 0
    for i, ch in enumerate(n):
        if ch != ch.lower():
            mask |= 1 << i
    return f"{low}__U{mask:x}"


_DEC = re.compile(r"^(.*)__U([0-9a-f]+)$")


def dec_ident(n: str) -> str:
    m = _DEC.match(n)
    if not m:
        return n
    base, mask = m.group(1), int(m.group(2), 16)
    return "".join(ch.upper() if mask >> i & 1 else ch for i, ch in enumerate(base))


class Reader:
    def __init__(self, dialect: str):
        import duckdb
        import sqlglot
        from sqlglot import exp
        from sqlglot.dialects.dialect import Dialect, NormalizationStrategy
        from sqlglot.optimizer.normalize_identifiers import normalize_identifiers
        self.sqlglot, self.exp, self.normalize_identifiers = sqlglot, exp, normalize_identifiers
        self.dialect = dialect
        d = Dialect.get_or_raise(dialect)
        self.case_sensitive = d.NORMALIZATION_STRATEGY in (NormalizationStrategy.UPPERCASE, NormalizationStrategy.LOWERCASE)
        self.db = duckdb.connect()
        try:
            self.db.execute("PRAGMA threads=1")
            from sqlframe.base.util import soundex
            from duckdb.typing import VARCHAR
            self.db.create_function("SOUNDEX", lambda x: soundex(x), return_type=VARCHAR)
        except Exception:
            pass

    def read(self, sql: str) -> dict:
        """-> {parse, fixed_point, rerendered, duck_sql, error, columns, rows}"""
        out = {"parse": False, "fixed_point": False, "error": None, "columns": None, "rows": None, "description": None}
        try:
            tree = self.sqlglot.parse_one(sql, read=self.dialect)
        except Exception as ex:
            out["error"] = f"parse:{type(ex).__name__}:{str(ex)[:160]}"
            return out
        if isinstance(tree, self.exp.Command):
            # EXPLAIN <query> is engine-utility syntax sqlglot keeps as an opaque Command: judge the embedded query
            m = re.match(r"^\s*EXPLAIN\b[A-Z ]*?(?=(WITH|SELECT)\b)", sql)
            if not m:
                out["error"] = "parse:fell back to exp.Command"
                return out
            inner = self.read(sql[m.end():])
            inner["explain_prefix"] = sql[:m.end()]
            if inner["error"] is None:
                inner["description"] = [("explain_key", None), ("explain_value", None)]
                inner["columns"] = ["explain_key", "explain_value"]
                inner["rows"] = [("plan", "(not planned: dialect reader)")]
            return inner
        out["parse"] = True
        try:
            again = tree.sql(dialect=self.dialect)
        except Exception as ex:
            out["error"] = f"render:{type(ex).__name__}:{str(ex)[:160]}"
            return out
        out["fixed_point"] = again == sql
        if not out["fixed_point"]:
            out["rerendered"] = again
        try:
            t2 = tree.copy()
            # reader limitation, not a judgement on the statement: Redshift's VARCHAR(MAX) has no DuckDB spelling
            for dt in list(t2.find_all(self.exp.DataType)):
                if any(isinstance(p, self.exp.DataTypeParam) and p.name.upper() == "MAX" for p in dt.expressions):
                    dt.set("expressions", [])
            if self.case_sensitive:
                t2 = self.normalize_identifiers(t2, dialect=self.dialect)
                for ident in list(t2.find_all(self.exp.Identifier)):
                    ident.set("this", enc_ident(ident.this))
                    ident.set("quoted", True)
            duck_sql = t2.sql(dialect="duckdb")
            out["duck_sql"] = duck_sql
            r = self.db.execute(duck_sql)
            desc = r.description
            rows = r.fetchall() if desc else []
        except Exception as ex:
            out["error"] = f"exec:{type(ex).__name__}:{str(ex)[:200]}"
            return out
        if desc:
            names = [dec_ident(c[0]) if self.case_sensitive else c[0] for c in desc]
            out["description"] = [(n,) + tuple(c[1:]) for n, c in zip(names, desc)]
            out["columns"] = names
        out["rows"] = rows
        return out


class EngineError(Exception):
    """what the dialect reader could not parse or execute (stands for the engine rejecting the statement)"""


class RecordingCursor:
    def __init__(self, reader: Reader, log: list):
        self.reader, self.log = reader, log
        self.description = None
        self._rows = []
        self.sfqid = "00000000-0000-0000-0000-000000000000"
        self.lenient = True

    def execute(self, sql, *a, **k):
        res = self.reader.read(sql)
        self.log.append({"sql": sql, "parse": res["parse"], "fixed_point": res["fixed_point"], "error": res["error"],
                         "rerendered": res.get("rerendered"), "duck_sql": res.get("duck_sql")})
        if res["error"]:
            self.description, self._rows = None, []
            if self.lenient:      # session constructors send engine-utility DDL (CREATE EXTENSION ...) the reader does not interpret
                return self
            raise EngineError(res["error"])
        self.description = res["description"]
        self._rows = res["rows"]
        return self

    def fetchall(self):
        return list(self._rows)

    def fetchone(self):
        return self._rows[0] if self._rows else None

    def fetchmany(self, n=1):
        return list(self._rows[:n])

    def close(self):
        pass


class RecordingConn:
    def __init__(self, dialect: str):
        self.log: list = []
        self.reader = Reader(dialect)
        self._cursor = RecordingCursor(self.reader, self.log)
        # attributes the BigQuery / Snowflake session constructors touch
        self._client = types.SimpleNamespace(default_query_job_config=None, project="p")
        self.converter = None
        self._numpy = False
        self._support_negative_year = False

    def cursor(self):
        return self._cursor

    def commit(self):
        pass

    def __bool__(self):
        return True


class DuckProxy:
    """wraps the real DuckDB connection of DuckDBSession: records, checks parse / fixed point, executes for real"""
    def __init__(self):
        import duckdb
        import sqlglot
        self._c = duckdb.connect()
        self._sqlglot = sqlglot
        self.log: list = []
        self.description = None
        try:
            self._c.execute("PRAGMA threads=1")
        except Exception:
            pass

    def execute(self, sql, *a, **k):
        ent = {"sql": sql, "parse": False, "fixed_point": False, "error": None}
        try:
            body = sql
            m = re.match(r"^\s*EXPLAIN\b[A-Z ]*?(?=(WITH|SELECT)\b)", sql)
            if m:
                body = sql[m.end():]
                ent["explain_prefix"] = sql[:m.end()]
            tree = self._sqlglot.parse_one(body, read="duckdb")
            ent["parse"] = not type(tree).__name__ == "Command"
            again = tree.sql(dialect="duckdb")
            ent["fixed_point"] = again == body
            if again != sql:
                ent["rerendered"] = again
        except Exception as ex:
            ent["error"] = f"parse:{type(ex).__name__}:{str(ex)[:160]}"
        self.log.append(ent)
        r = self._c.execute(sql, *a, **k)
        self.description = self._c.description
        return r

    def cursor(self):
        return self          # pandas.read_sql_query(sql, conn) goes through conn.cursor().execute(sql)

    def close(self):
        pass

    def __getattr__(self, name):
        return getattr(self._c, name)

    def __bool__(self):
        return True


class FakeSparkRow(dict):
    def asDict(self):
        return dict(self)


class FakeSparkDF:
    def __init__(self, res):
        self.res = res

    def collect(self):
        cols = self.res["columns"] or []
        return [FakeSparkRow(zip(cols, r)) for r in self.res["rows"] or []]

    def toPandas(self):
        import pandas as pd
        return pd.DataFrame(self.res["rows"] or [], columns=self.res["columns"] or [])


class FakeSparkSession:
    """stands for pyspark's SparkSession: .sql(text) -> DataFrame-like"""
    def __init__(self):
        self.log: list = []
        self.reader = Reader("spark")

    def sql(self, sql):
        res = self.reader.read(sql)
        self.log.append({"sql": sql, "parse": res["parse"], "fixed_point": res["fixed_point"], "error": res["error"],
                         "rerendered": res.get("rerendered"), "duck_sql": res.get("duck_sql")})
        if res["error"]:
            raise EngineError(res["error"])
        return FakeSparkDF(res)

    def __bool__(self):
        return True


def stub(name, **attrs):
    m = types.ModuleType(name)
    m.__path__ = []
    for k, v in attrs.items():
        setattr(m, k, v)
    sys.modules[name] = m
    return m


def make_session(engine: str):
    warnings.simplefilter("ignore")
    logging.disable(logging.CRITICAL)
    if engine == "databricks":
        class ServerOperationError(Exception):
            pass
        s = stub("databricks.sql", ServerOperationError=ServerOperationError, connect=lambda *a, **k: None)
        stub("databricks", sql=s)
    if engine == "bigquery":
        bq = stub("google.cloud.bigquery", QueryJobConfig=lambda **k: types.SimpleNamespace(**k))
        dbapi = stub("google.cloud.bigquery.dbapi", connect=lambda *a, **k: None)
        bq.dbapi = dbapi
        cloud = stub("google.cloud", bigquery=bq)
        stub("google", cloud=cloud)
    if engine == "snowflake":
        curm = stub("snowflake.connector.cursor")
        conv = stub("snowflake.connector.converter", SnowflakeConverter=object)
        c = stub("snowflake.connector", cursor=curm, converter=conv)
        stub("snowflake", connector=c)
    if engine == "postgres":
        class ProgrammingError(Exception):
            pass
        stub("psycopg2", ProgrammingError=ProgrammingError)
    mod = importlib.import_module(f"sqlframe.{engine}.session")
    cls = getattr(mod, SESSION_CLASS[engine])
    if engine == "duckdb":
        conn = DuckProxy()
        return cls(conn=conn), conn
    if engine == "spark":
        conn = FakeSparkSession()
        return cls(conn=conn), conn
    conn = RecordingConn(engine)
    sess = cls(conn=conn)
    conn._cursor.lenient = False
    return sess, conn


def jsonable(v):
    import datetime
    import decimal
    if v is None or isinstance(v, (bool, int, str)):
        return v
    if isinstance(v, float):
        return {"f": float.hex(v) if v == v else "nan", "r": repr(round(v, 9)) if v == v else "nan"}
    if isinstance(v, decimal.Decimal):
        return {"f": None, "r": repr(round(float(v), 9))}
    if isinstance(v, (datetime.date, datetime.datetime)):
        return {"d": v.isoformat()}
    if isinstance(v, (list, tuple)):
        return [jsonable(x) for x in v]
    if isinstance(v, dict):
        return {"m": [[jsonable(k), jsonable(x)] for k, x in v.items()]}
    if isinstance(v, (bytes, bytearray)):
        return {"b": bytes(v).hex()}
    return {"?": type(v).__name__ + ":" + str(v)[:40]}


def _tup(x):
    return tuple(_tup(y) for y in x) if isinstance(x, list) else x


# ------------------------------------------------------------------------------------------------
# the function drive: typed call templates (checks/c17_cases.py, read-only; plus C12's own extras sent by the check)
# ------------------------------------------------------------------------------------------------

def call_columns(call, K) -> list:
    """table columns a call touches (so that each statement carries only the columns it needs)"""
    used = ["id"]
    names = set(K.COLS)
    def scan(a):
        if "c" in a and a["c"] in names and a["c"] not in used:
            used.append(a["c"])
        if "e" in a:
            for m in re.findall(r"'(\w+)'", a["e"]):
                if m in names and m not in used:
                    used.append(m)
    for a in call["args"]:
        scan(a)
    for a in call["kwargs"].values():
        scan(a)
    if call["mode"] == "agg" and len(used) == 1:
        used.append("i")
    return used


def _frame(sess, K, cols):
    types = dict(K.SCHEMA)
    idx = [K.COLS.index(c) for c in cols]
    rows = [tuple(r[k] for k in idx) for r in K.ROWS]
    return sess.createDataFrame(rows, ", ".join(f"{c} {types[c]}" for c in cols))


def _stmts(conn, start):
    return [{k: st.get(k) for k in ("sql", "parse", "fixed_point", "error", "rerendered")} for st in conn.log[start:]]


def expr_text(sess, col):
    """the text the engine-specific branch emits for this call, in the session's execution dialect (no CTE / alias names in it)"""
    try:
        return col.expression.sql(dialect=sess.execution_dialect)
    except Exception as ex:  # noqa
        return "render-error:" + type(ex).__name__


def run_one(sess, conn, F, K, call):
    """one call, one statement (two for an aggregate: the 5 ordinary rows, the all-NULL row)"""
    ent = {"id": call["id"], "fn": call["fn"], "mode": call["mode"]}
    start = len(conn.log)
    try:
        df = _frame(sess, K, call_columns(call, K))
        col = K.build_call(call, F)
        ent["expr"] = expr_text(sess, col)
        if call["mode"] == "row":
            q = df.select("id", col)
            ent["tree"] = q.expression.sql(dialect="spark")
            got = sorted(q.collect(), key=lambda r: r[0])
            ent["values"] = [K.canon(r[1]) for r in got]
            ent["name"] = list(got[0].__fields__)[1] if got else None
        else:
            vals = []
            for cond in (F.col("id") <= 5, F.col("id") == 6):
                q = df.where(cond).agg(col)
                ent["tree"] = q.expression.sql(dialect="spark")
                got = q.collect()
                vals.append(K.canon(got[0][0]))
                ent["name"] = list(got[0].__fields__)[0]
            ent["values"] = vals
        ent["exc"] = None
    except Exception as ex:  # noqa
        ent.update({"values": None, "name": None, "exc": type(ex).__name__ + ":" + str(ex)[:200]})
    ent["statements"] = _stmts(conn, start)
    return ent


def run_batch(sess, conn, F, K, batch):
    """several calls of the same mode in ONE statement; None when anything at all goes wrong (the caller then runs them one by one)"""
    start = len(conn.log)
    try:
        cols = ["id"]
        for call in batch:
            cols += [c for c in call_columns(call, K) if c not in cols]
        df = _frame(sess, K, cols)
        built = [K.build_call(call, F) for call in batch]
        ents = [{"id": c["id"], "fn": c["fn"], "mode": c["mode"], "exc": None, "tree": None, "batched": len(batch),
                 "expr": expr_text(sess, b)} for c, b in zip(batch, built)]
        if batch[0]["mode"] == "row":
            got = sorted(df.select("id", *built).collect(), key=lambda r: r[0])
            if len(got) != len(K.ROWS) or len(got[0]) != len(batch) + 1:
                return None               # a member changed the row count (a generator read back as a join): redo one by one
            names = list(got[0].__fields__)
            for k, e in enumerate(ents):
                e["values"] = [K.canon(r[k + 1]) for r in got]
                e["name"] = names[k + 1]
        else:
            for e in ents:
                e["values"] = []
            for cond in (F.col("id") <= 5, F.col("id") == 6):
                got = df.where(cond).agg(*built).collect()
                if len(got) != 1 or len(got[0]) != len(batch):
                    return None
                names = list(got[0].__fields__)
                for k, e in enumerate(ents):
                    e["values"].append(K.canon(got[0][k]))
                    e["name"] = names[k]
        st = _stmts(conn, start)
        if any(not x["parse"] or not x["fixed_point"] or x["error"] for x in st):
            return None
        for e in ents:
            e["statements"] = st
        return ents
    except Exception:  # noqa
        return None


def run_calls(sess, conn, F, calls, exported, solo_ids=(), batch_size=8):
    """Calls the recorded baseline expects to be clean on this engine are driven several per statement (the statement must parse, be
    a fixed point and execute, else the batch is redone one call per statement); everything else one call per statement."""
    from checks import c17_cases as K
    solo_ids = set(solo_ids)
    todo = [c for c in calls if c["fn"] == "Column.getItem" or c["fn"] in exported]
    out = {}
    batches: list = []
    for call in todo:
        if call["id"] in solo_ids or batch_size <= 1:
            out[call["id"]] = run_one(sess, conn, F, K, call)
            continue
        base = call["id"].split("@")[0].split("#")[0]
        for b in batches:
            # same mode, room left, and no other call of the same function (their automatic aliases would collide)
            if b["mode"] == call["mode"] and len(b["calls"]) < batch_size and base not in b["fns"]:
                b["calls"].append(call)
                b["fns"].add(base)
                break
        else:
            batches.append({"mode": call["mode"], "calls": [call], "fns": {base}})
    for b in batches:
        ents = run_batch(sess, conn, F, K, b["calls"]) if len(b["calls"]) > 1 else None
        if ents is None:
            ents = [run_one(sess, conn, F, K, c) for c in b["calls"]]
        for e in ents:
            out[e["id"]] = e
    return [out[c["id"]] for c in todo]


# ------------------------------------------------------------------------------------------------

def run(engine: str, req: dict) -> dict:
    sess, conn = make_session(engine)
    F = importlib.import_module(f"sqlframe.{engine}.functions")
    from sqlglot import expressions as exp
    from vlib import rel
    from checks import c01
    out = {"engine": engine, "session": {
        "class": type(sess).__name__, "input": type(sess.input_dialect).__name__.lower(),
        "output": type(sess.output_dialect).__name__.lower(), "execution": type(sess.execution_dialect).__name__.lower(),
        "flags": {k: getattr(sess, "_is_" + k) for k in ("bigquery", "snowflake", "postgres", "databricks", "spark", "redshift",
                                                          "duckdb", "standalone")},
        "sanitize": sess._sanitize_column_name("max(a)"),
        "init_statements": list(conn.log)}}
    del conn.log[:]
    tables = {k: [tuple(r) for r in v] for k, v in req["tables"].items()}

    def collect_case(df):
        start = len(conn.log)
        try:
            got = df.collect()
            cols = list(got[0].__fields__) if got else list(df.columns)
            res = {"cols": cols, "rows": [[jsonable(v) for v in r] for r in got], "exc": None}
        except Exception as ex:  # noqa
            res = {"cols": None, "rows": None, "exc": type(ex).__name__ + ":" + str(ex)[:200]}
        res["statements"] = conn.log[start:]
        return res

    # ---- relational-core pipelines
    cases = []
    for pid, steps_json in req["programs"]:
        steps = [_tup(s) for s in steps_json]
        for tname in req["tables_for"].get(str(pid), list(tables)):
            ent = {"pid": pid, "table": tname}
            try:
                df = sess.createDataFrame(tables[tname], SCHEMA)
                for st in steps:
                    df = c01.apply_step(df, st, F)
                try:
                    _, blocks = rel.export_chain(df.expression, exp)
                    ent["exported"] = blocks
                except rel.NotExportable as ne:
                    ent["exported"] = None
                    ent["not_exportable"] = str(ne)[:100]
                ent.update(collect_case(df))
                # df.sql(dialect=X): text only, read back by a reader for X
                for x in req.get("sql_dialects", {}).get(str(pid), []):
                    try:
                        txt = df.sql(dialect=x, optimize=False, pretty=False)
                        r = readers(x).read(txt)
                        ent.setdefault("sql", {})[x] = {
                            "parse": r["parse"], "fixed_point": r["fixed_point"], "error": r["error"],
                            "cols": r["columns"], "rows": None if r["rows"] is None else [[jsonable(v) for v in row] for row in r["rows"]],
                            "text": txt, "rerendered": r.get("rerendered")}
                    except Exception as ex:  # noqa
                        ent.setdefault("sql", {})[x] = {"parse": False, "fixed_point": False, "error": "raise:" + type(ex).__name__ + ":" + str(ex)[:150]}
            except Exception as ex:  # noqa
                ent.update({"cols": None, "rows": None, "exc": "build:" + type(ex).__name__ + ":" + str(ex)[:200], "statements": []})
            cases.append(ent)
    out["cases"] = cases

    # ---- actions: how many statements reach the cursor, and are they valid
    acts = []
    for pid, steps_json in req.get("action_programs", []):
        steps = [_tup(s) for s in steps_json]
        df = sess.createDataFrame(tables["t1"], SCHEMA)
        for st in steps:
            df = c01.apply_step(df, st, F)
        for name, fn in (("collect", lambda d: d.collect()), ("count", lambda d: d.count()), ("head", lambda d: d.head()),
                         ("first", lambda d: d.first()), ("isEmpty", lambda d: d.isEmpty()), ("show", lambda d: d.show(3)),
                         ("toPandas", lambda d: d.toPandas()), ("explain", lambda d: d.explain()),
                         ("createOrReplaceTempView", lambda d: d.createOrReplaceTempView("v_c12")),
                         ("saveAsTable", lambda d: d.write.mode("overwrite").saveAsTable("t_c12_" + str(pid)))):
            start = len(conn.log)
            exc = None
            import contextlib
            import io
            try:
                with contextlib.redirect_stdout(io.StringIO()):
                    fn(df)
            except Exception as ex:  # noqa
                exc = type(ex).__name__ + ":" + str(ex)[:160]
            acts.append({"pid": pid, "action": name, "exc": exc, "statements": conn.log[start:]})
    out["actions"] = acts

    # ---- alias-case probes (display names whose case differs from the normalised identifier)
    probes = []
    for name, build in (
        ("orderBy-new-alias", lambda df: df.select((F.col("a") + 1).alias("c"), "b").orderBy("c", "b")),
        ("orderBy-shadowing-alias", lambda df: df.select((-F.col("a")).alias("a"), "b").orderBy("a", "b")),
        ("orderBy-new-Upper-alias", lambda df: df.select((F.col("a") + 1).alias("C"), "b").orderBy("C", "b")),
        ("orderBy-shadowing-Upper-alias", lambda df: df.select((-F.col("a")).alias("A"), "b").orderBy("A", "b")),
        ("where-after-Upper-alias", lambda df: df.select((F.col("a") + 1).alias("C"), "b").where(F.col("C") > 1)),
        ("distinct-Upper-alias", lambda df: df.select(F.col("s").alias("S")).distinct()),
        ("agg-shortcut-name", lambda df: df.groupBy("s").max("a").orderBy("s")),
        ("agg-shortcut-name-count", lambda df: df.groupBy().count()),
        ("agg-shortcut-names-sum-avg-min-mean", lambda df: df.groupBy("s").sum("a", "b").orderBy("s")),
        ("agg-shortcut-name-avg", lambda df: df.groupBy("s").avg("b").orderBy("s")),
        ("agg-shortcut-name-min", lambda df: df.groupBy("s").min("a").orderBy("s")),
        ("agg-shortcut-name-mean", lambda df: df.groupBy("s").mean("a").orderBy("s")),
        ("agg-dict-names", lambda df: df.groupBy("s").agg({"a": "sum", "b": "max"}).orderBy("s")),
        ("agg-global-dict-names", lambda df: df.agg({"a": "min"})),
    ):
        ent = {"probe": name}
        try:
            df = build(sess.createDataFrame(tables["t1"], SCHEMA))
            ent.update(collect_case(df))
        except Exception as ex:  # noqa
            ent.update({"cols": None, "rows": None, "exc": "build:" + type(ex).__name__ + ":" + str(ex)[:200], "statements": []})
        probes.append(ent)
    out["probes"] = probes

    # ---- every function call template, on this engine
    exported = sorted(n for n in dir(F) if callable(getattr(F, n)) and hasattr(getattr(F, n), "unsupported_engines"))
    out["exported"] = exported
    out["functions"] = run_calls(sess, conn, F, req.get("calls", []), set(exported), solo_ids=req.get("solo_ids", {}).get(engine, []),
                                 batch_size=req.get("batch_size", 8))

    # ---- dispatch
    from sqlframe.base.util import get_func_from_session
    disp = {}
    for name in req.get("dispatch_names", []):
        for fb in (True, False):
            try:
                f = get_func_from_session(name, sess, fallback=fb)
                import sqlframe.base.functions as BF
                disp[f"{name}|{int(fb)}"] = "Found:" + (name if f is getattr(BF, name, None) else "<another object>")
            except AttributeError:
                disp[f"{name}|{int(fb)}"] = "ErrAttribute"
            except NotImplementedError:
                disp[f"{name}|{int(fb)}"] = "ErrNotImplemented"
            except ImportError:
                disp[f"{name}|{int(fb)}"] = "ErrImport"
    out["dispatch"] = disp
    return out


_READERS: dict = {}


def readers(d):
    if d not in _READERS:
        _READERS[d] = Reader(d)
    return _READERS[d]


def main():
    engine = sys.argv[1]
    req = json.load(sys.stdin)
    try:
        res = run(engine, req)
    except Exception as ex:  # noqa
        import traceback
        res = {"engine": engine, "fatal": traceback.format_exc()[-3000:]}
    json.dump(res, sys.stdout)


if __name__ == "__main__":
    main()
