"""C08 -- window specifications and window functions evaluate as in Spark.

T1  translate/c08_facts.py -> Gen/C08Facts.v  (sentinels, get_value_and_side, ordering flags, frame kinds, bare keys)
Prf coq/props/C08.v        -> bounds_agree (all start/end/distances), flags = Spark's, model spec = Spark spec
T3  values of the window column on DuckDB == Coq model (eval_window of the SQL spec) == Coq Spark spec
    + the Spark spec itself is validated against values recorded from PySpark 3.5.9 (oracle/c08_pyspark.jsonl)
"""
from __future__ import annotations

import json
import os
import random

from vlib import core, rel
from vlib.core import strlit, listlit, zlit, boollit
from translate import c08_facts

U_PRE, U_FOL = -(1 << 63), (1 << 63) - 1
T_PRE = -((1 << 63) - 1)

COLS = ["id", "p", "k", "v"]
SCHEMA = "id bigint, p bigint, k bigint, v bigint"
TABLES = {
    "empty": [],
    "w1": [(1, 1, 2, 10), (2, 1, None, 20), (3, 2, 5, None), (4, 1, 2, 30), (5, 2, None, 40), (6, 1, 3, 50), (7, None, 1, 60)],
    "w2": [(1, 1, 1, 1), (2, 1, 1, 2), (3, 1, 2, None), (4, 1, 4, 4), (5, 1, None, 5), (6, 1, None, 6), (7, 1, 7, 7), (8, 2, 0, -1)],
    "w3": [(1, None, None, None), (2, None, 3, 3), (3, 0, 3, 3), (4, 0, -2, 8), (5, 0, -2, 8)],
}
METH = ["bare", "asc", "desc", "asc_nulls_first", "asc_nulls_last", "desc_nulls_first", "desc_nulls_last"]
METH_COQ = {"bare": "MBare", "asc": "MAsc", "desc": "MDesc", "asc_nulls_first": "MAscNF", "asc_nulls_last": "MAscNL",
            "desc_nulls_first": "MDescNF", "desc_nulls_last": "MDescNL"}
ORDER_SENSITIVE = {"row_number", "ntile", "lag", "lead", "first", "last"}
AGGS = {"sum", "avg", "min", "max", "count"}


def header(bare_default):
    return f"""From SF Require Import C08.WindowCheck.
From Gen Require Import C08Facts.
Open Scope string_scope.
Definition check := WindowCheck.check order_flags {bare_default} get_value_and_side.
Definition checkp (t : frame * list sstep * wfun * option (list row)) : string :=
  let '(a, b, c, d) := t in
  WindowCheck.check_plan order_flags {bare_default} get_value_and_side part_replaces order_replaces a b c d.
"""


def fun_coq(f):
    n = f[0]
    if n in ("row_number", "rank", "dense_rank", "percent_rank", "cume_dist"):
        return {"row_number": "WRowNumber", "rank": "WRank", "dense_rank": "WDenseRank",
                "percent_rank": "WPercentRank", "cume_dist": "WCumeDist"}[n]
    if n == "ntile":
        return f"(WNtile {zlit(f[1])})"
    if n in ("lag", "lead"):
        return f"({'WLag' if n == 'lag' else 'WLead'} (ECol {strlit(f[1])}) {zlit(f[2])} {rel.val_coq(f[3])})"
    if n == "count_star":
        return "WCountStar"
    c = {"sum": "WSum", "avg": "WAvg", "min": "WMin", "max": "WMax", "count": "WCount", "first": "WFirst", "last": "WLast"}[n]
    return f"({c} (ECol {strlit(f[1])}))"


def fun_sf(f, F):
    n = f[0]
    if n in ("row_number", "rank", "dense_rank", "percent_rank", "cume_dist"):
        return getattr(F, n)()
    if n == "ntile":
        return F.ntile(f[1])
    if n in ("lag", "lead"):
        return getattr(F, n)(f[1], f[2], f[3]) if f[3] is not None else getattr(F, n)(f[1], f[2])
    if n == "count_star":
        return F.count("*")
    return getattr(F, n)(f[1])


def spec_coq(sp):
    part = listlit([f"(ECol {strlit(c)})" for c in sp["part"]])
    order = listlit([f"(ECol {strlit(c)}, {METH_COQ[m]})" for c, m in sp["order"]])
    fr = "None" if sp["frame"] is None else \
        f"(Some ({boollit(sp['frame'][0] == 'rows')}, {zlit(sp['frame'][1])}, {zlit(sp['frame'][2])}))"
    return f"(mkU {part} {order} {fr})"


def spec_sf(sp, F, Window, decoy=True):
    """Build the spec the way users do: from a shared base spec object from which another (decoy) spec was derived
    first -- partitionBy/orderBy/rowsBetween must leave the object they are called on untouched."""
    w = None
    if sp["part"]:
        w = Window.partitionBy(*sp["part"])
        if decoy:
            w.orderBy(F.col("v").desc()).rowsBetween(-1, 1)
            w.partitionBy("k")
    if sp["order"]:
        keys = []
        for c, m in sp["order"]:
            keys.append(c if m == "bare" else getattr(F.col(c), m)())
        w = w.orderBy(*keys) if w is not None else Window.orderBy(*keys)
        if decoy:
            w.orderBy("id").rangeBetween(Window.unboundedPreceding, Window.currentRow)
    if sp["frame"] is not None:
        kind, s, e = sp["frame"]
        meth = "rowsBetween" if kind == "rows" else "rangeBetween"
        w = getattr(w, meth)(s, e) if w is not None else getattr(Window, meth)(s, e)
    if w is None:
        w = Window.partitionBy()
    return w


def spec_str(sp, f):
    return f"{f} over partitionBy{tuple(sp['part'])} orderBy{[(c + '.' + m) if m != 'bare' else c for c, m in sp['order']]} frame={sp['frame']}"


DECOY = {"part": [["k"], ["v", "p"], []], "order": [[("v", "desc")], [("id", "bare")], [("p", "asc_nulls_last"), ("v", "asc")]],
         "frame": [("rows", -1, 1), ("range", U_PRE, 0), ("rows", 0, U_FOL)]}


def make_plan(rnd, sp):
    """The builder calls a user makes to get spec `sp` under Spark's semantics (the last call of each kind decides): the
    final components in the usual or a shuffled order, with earlier calls of the same kind (with other arguments) thrown in."""
    final = []
    if sp["part"]:
        final.append(("part", list(sp["part"])))
    if sp["order"]:
        final.append(("order", [tuple(x) for x in sp["order"]]))
    if sp["frame"] is not None:
        final.append(("frame", tuple(sp["frame"])))
    if rnd.random() < 0.5:
        rnd.shuffle(final)
    plan = []
    for kind, arg in final:
        if rnd.random() < 0.3:
            plan.insert(rnd.randrange(len(plan) + 1), (kind, rnd.choice([d for d in DECOY[kind] if d != arg])))
        plan.append((kind, arg))
    if not sp["part"] and rnd.random() < 0.15:
        # partitionBy() with no columns resets an earlier partitioning
        i = rnd.randrange(len(plan) + 1)
        plan.insert(i, ("part", []))
        plan.insert(rnd.randrange(i + 1), ("part", ["k"]))
    return plan


def plan_final(plan):
    sp = {"part": [], "order": [], "frame": None}
    for kind, arg in plan:
        sp[kind] = arg
    return sp


def plan_coq(plan):
    out = []
    for kind, arg in plan:
        if kind == "part":
            out.append("(SPart " + listlit([f"(ECol {strlit(c)})" for c in arg]) + ")")
        elif kind == "order":
            out.append("(SOrder " + listlit([f"(ECol {strlit(c)}, {METH_COQ[m]})" for c, m in arg]) + ")")
        else:
            out.append(f"(SFrame ({boollit(arg[0] == 'rows')}, {zlit(arg[1])}, {zlit(arg[2])}))")
    return listlit(out)


def plan_sf(plan, F, Window, decoy=True):
    """Make the builder calls of `plan`, starting at the Window class; after every call a further spec is derived from the
    intermediate object and thrown away (the builder methods must leave the object they are called on untouched)."""
    w = Window
    for kind, arg in plan:
        if kind == "part":
            w = w.partitionBy(*arg)
        elif kind == "order":
            w = w.orderBy(*[c if m == "bare" else getattr(F.col(c), m)() for c, m in arg])
        else:
            w = getattr(w, "rowsBetween" if arg[0] == "rows" else "rangeBetween")(arg[1], arg[2])
        if decoy:
            w.orderBy(F.col("v").desc()).rowsBetween(-1, 1)
            w.partitionBy("k").rangeBetween(Window.unboundedPreceding, Window.currentRow)
    if w is Window:
        w = Window.partitionBy()
    return w


def plan_str(plan, f):
    calls = []
    for kind, arg in plan:
        if kind == "part":
            calls.append(f"partitionBy{tuple(arg)}")
        elif kind == "order":
            calls.append("orderBy(" + ", ".join((c + "." + m + "()") if m != "bare" else repr(c) for c, m in arg) + ")")
        else:
            calls.append(f"{arg[0]}Between({arg[1]}, {arg[2]})")
    return f"{f} over Window." + ".".join(calls or ["partitionBy()"])


PRE_OPS = [None, None, None, "where_v_notnull", "orderby_limit3", "orderby_desc_limit4", "where_then_select", "distinct",
           "withcolumn_then_where"]


def apply_pre(df, pre, F):
    """a frame derived by earlier steps of a chain; its rows (collected separately) are the window's input"""
    if pre is None:
        return df
    if pre == "where_v_notnull":
        return df.where(F.col("v").isNotNull())
    if pre == "orderby_limit3":
        return df.orderBy("id").limit(3)
    if pre == "orderby_desc_limit4":
        return df.orderBy(F.col("id").desc()).limit(4)
    if pre == "where_then_select":
        return df.where(F.col("id") > 1).select("v", "k", "p", "id")
    if pre == "distinct":
        return df.distinct()
    if pre == "withcolumn_then_where":
        return df.withColumn("z", F.col("id") * 2).where(F.col("z") != 4).drop("z")
    raise ValueError(pre)


def gen_cases(rnd, n):
    cases = []
    bounds_lo = [U_PRE, T_PRE, -2, -1, 0, 1]
    bounds_hi = [-1, 0, 1, 2, U_FOL]
    funs = [("row_number",), ("rank",), ("dense_rank",), ("percent_rank",), ("cume_dist",), ("ntile", 2), ("ntile", 3),
            ("lag", "v", 1, None), ("lag", "k", 2, -9), ("lead", "v", 1, None), ("lead", "v", 1, 0),
            ("sum", "v"), ("avg", "v"), ("min", "v"), ("max", "k"), ("count", "v"), ("count_star",),
            ("first", "v"), ("last", "v")]
    for _ in range(n):
        f = rnd.choice(funs)
        part = rnd.choice([[], ["p"], ["p"], ["p"]])
        kind = rnd.random()
        sp = {"part": part, "order": [], "frame": None}
        ranking = f[0] in ("row_number", "rank", "dense_rank", "percent_rank", "cume_dist", "ntile", "lag", "lead")
        if ranking or kind < 0.85:
            m = rnd.choice(METH)
            keycol = rnd.choice(["k", "k", "k", "v"])
            sp["order"] = [(keycol, m)]
            if rnd.random() < 0.25:
                sp["order"].append((rnd.choice(["v", "k"]), rnd.choice(METH)))
        frame_kind = None
        if not ranking and sp["order"] and rnd.random() < 0.7:
            frame_kind = rnd.choice(["rows", "rows", "range"])
        elif not ranking and not sp["order"] and rnd.random() < 0.3:
            frame_kind = "rows_unordered"
        if frame_kind == "rows":
            lo = rnd.choice(bounds_lo)
            hi = rnd.choice([h for h in bounds_hi if h >= lo] or [U_FOL])
            sp["frame"] = ("rows", lo, hi)
        elif frame_kind == "range":
            sp["order"] = sp["order"][:1]
            lo = rnd.choice(bounds_lo)
            hi = rnd.choice([h for h in bounds_hi if h >= lo] or [U_FOL])
            if len(sp["order"]) != 1 or sp["order"][0][0] not in ("k", "v"):
                lo, hi = rnd.choice([U_PRE, 0]), rnd.choice([0, U_FOL])
            sp["frame"] = ("range", lo, hi)
        elif frame_kind == "rows_unordered":
            sp["frame"] = ("rows", U_PRE, U_FOL)
        # determinism: order-sensitive functions and ROWS frames need a total order inside the partition
        needs_total = f[0] in ORDER_SENSITIVE or (sp["frame"] and sp["frame"][0] == "rows" and sp["order"])
        if f[0] in ("first", "last") and (sp["frame"] is None or sp["frame"][0] == "range"):
            needs_total = True   # value of a peer group's first row is only determined under a total order
            if sp["frame"] and sp["frame"][0] == "range":
                sp["frame"] = ("rows", sp["frame"][1], sp["frame"][2])
        if needs_total and sp["order"]:
            sp["order"].append(("id", rnd.choice(["asc", "desc"])))
        if f[0] in ORDER_SENSITIVE and not sp["order"]:
            sp["order"] = [("id", "asc")]
        cases.append((sp, f))
    return cases


def run(ctx: core.Ctx):
    try:
        text, facts = c08_facts.generate(core.REPO)
        ctx.gen("C08Facts", text, facts)
        t1_ok = True
    except Exception as ex:
        ctx.broken("T1:c08_facts", f"{type(ex).__name__}: {ex}")
        t1_ok = False
        ctx.gen("C08Facts", open(core.VERIF + "/translate/c08_facts_pinned.v").read())
    proved = ctx.prove([ctx.build + "/gen/C08Facts.v"] + ([core.COQ + "/props/C08.v"] if t1_ok else []),
                       dep_theories=["Base/Val.v", "Base/Expr.v", "Base/Sort.v", "C08/Window.v", "C08/WindowCheck.v"])
    bare_spark = "window_bare_key_is_spark_default"
    hdr = header(f"(if {bare_spark} then (false, true) else (false, false))")

    from sqlframe.duckdb import DuckDBSession, Window
    import sqlframe.duckdb.functions as F
    session = DuckDBSession()
    try:
        session._conn.execute("PRAGMA threads=1")
    except Exception:
        pass
    rnd = random.Random(ctx.seed)
    n = 260 if ctx.tier == "quick" else 2500
    cases = gen_cases(rnd, n)
    # corpus first: shapes that matter (bare key with NULL order keys, threshold bounds)
    corpus = [
        ({"part": ["p"], "order": [("k", "bare")], "frame": None}, ("rank",)),
        ({"part": ["p"], "order": [("k", "bare"), ("id", "asc")], "frame": None}, ("row_number",)),
        ({"part": ["p"], "order": [("k", "asc"), ("id", "asc")], "frame": ("rows", T_PRE, 0)}, ("sum", "v")),
        ({"part": ["p"], "order": [("k", "desc"), ("id", "asc")], "frame": ("rows", -1, U_FOL)}, ("sum", "v")),
        ({"part": [], "order": [("k", "asc_nulls_last")], "frame": ("range", -1, 1)}, ("count", "v")),
        ({"part": ["p"], "order": [("k", "desc_nulls_first")], "frame": ("range", U_PRE, 0)}, ("max", "k")),
    ]
    items, metas, seen = [], [], set()
    hist_fun, hist_frame, hist_meth, hist_pre, hist_plan, n_raise = {}, {}, {}, {}, {}, 0
    rnd2 = random.Random(ctx.seed * 7919 + 17)
    post_bad = []
    for ci, (sp, f) in enumerate(corpus + cases):
        plan = make_plan(rnd2, sp) if ci >= len(corpus) else make_plan(random.Random(0), sp)
        fin = plan_final(plan)
        assert (fin["part"], [tuple(x) for x in fin["order"]], fin["frame"]) == \
            (list(sp["part"]), [tuple(x) for x in sp["order"]], sp["frame"] if sp["frame"] is None else tuple(sp["frame"])), (plan, sp)
        pre = rnd2.choice(PRE_OPS)
        use_withcolumn = rnd2.random() < 0.4
        post = rnd2.random() < 0.25
        for tname, rows in TABLES.items():
            key = (json.dumps(plan, sort_keys=True), f, tname, pre)
            if key in seen:
                continue
            seen.add(key)
            impl, impl2, exc = "None", "None", None
            in_rows = rows
            try:
                df0 = session.createDataFrame(rows, SCHEMA)
                df = apply_pre(df0, pre, F)
                if pre is not None:
                    in_rows = [(r["id"], r["p"], r["k"], r["v"]) for r in df.collect()]
                w = plan_sf(plan, F, Window)
                # the same spec object is used for a second window column (count(*)), before or after the one under test
                if use_withcolumn:
                    d = df.withColumn("w", fun_sf(f, F).over(w)).withColumn("w2", F.count("*").over(w))
                elif len(items) % 2:
                    d = df.select("id", "p", "k", "v", F.count("*").over(w).alias("w2"), fun_sf(f, F).over(w).alias("w"))
                else:
                    d = df.select("id", "p", "k", "v", fun_sf(f, F).over(w).alias("w"), F.count("*").over(w).alias("w2"))
                got = d.collect()
                impl = "(Some " + listlit([rel.row_coq((r["id"], r["p"], r["k"], r["v"], r["w"])) for r in got]) + ")"
                impl2 = "(Some " + listlit([rel.row_coq((r["id"], r["p"], r["k"], r["v"], r["w2"])) for r in got]) + ")"
                if post and got:
                    # a later step of the chain must see the window column as computed, and must not disturb it
                    later = d.where(F.col("id") >= 3).withColumn("y", F.col("id") + 1).collect()
                    want = sorted((repr((r["id"], r["p"], r["k"], r["v"], r["w"], r["w2"], r["id"] + 1)) for r in got if r["id"] >= 3))
                    have = sorted(repr((r["id"], r["p"], r["k"], r["v"], r["w"], r["w2"], r["y"])) for r in later)
                    if want != have:
                        post_bad.append({"call": plan_str(plan, f), "plan": plan, "fun": list(f), "table": tname, "rows": rows, "pre": pre,
                                         "then": "where(id >= 3).withColumn('y', id + 1)", "expected": want, "actual": have})
            except Exception as ex:
                exc = f"{type(ex).__name__}: {str(ex)[:200]}"
                n_raise += 1
            items.append(f"({rel.frame_coq(COLS, in_rows)}, {plan_coq(plan)}, {fun_coq(f)}, {impl})")
            metas.append({"spec": sp, "plan": plan, "pre": pre, "in_rows": in_rows, "fun": f, "table": tname, "exc": exc,
                          "withColumn": use_withcolumn})
            if exc is None and tname != "empty":
                items.append(f"({rel.frame_coq(COLS, in_rows)}, {plan_coq(plan)}, WCountStar, {impl2})")
                metas.append({"spec": sp, "plan": plan, "pre": pre, "in_rows": in_rows, "fun": ("count_star",), "table": tname,
                              "exc": None, "second_column": True, "withColumn": use_withcolumn})
            hist_fun[f[0]] = hist_fun.get(f[0], 0) + 1
            fk = "default" if sp["frame"] is None else sp["frame"][0]
            hist_frame[fk] = hist_frame.get(fk, 0) + 1
            hist_pre[str(pre)] = hist_pre.get(str(pre), 0) + 1
            pk = "/".join(k for k, _ in plan) or "-"
            hist_plan[pk] = hist_plan.get(pk, 0) + 1
            for _, m in sp["order"]:
                hist_meth[m] = hist_meth.get(m, 0) + 1
    for pb in post_bad[:3]:
        ctx.deviation("C08/window-column-disturbed-by-later-step", "a where/withColumn after the window column changes its values or rows", pb)
    ctx.log(f"{len(items)} cases, {n_raise} raised")
    res = ctx.cases("c08", hdr, items, per_file=150, result_ty="str", fn="checkp")
    model_fail = []
    nontriv = 0
    for it, m, r in zip(items, metas, res):
        if r is None or len(r) != 5:
            continue
        im, isp, ms, expl, raised = (ch == "1" for ch in r)
        desc = {"call": plan_str(m["plan"], m["fun"]), "plan": m["plan"], "derived_by": m["pre"], "window_input_rows": m["in_rows"],
                "withColumn": m["withColumn"], "spec": m["spec"], "fun": list(m["fun"]), "table": m["table"],
                "rows": TABLES[m["table"]], "verdict(impl=model,impl=spark,model=spark,explicit,raised)": r,
                "exception": m["exc"], "coq_case": it}
        has_bare = any(mm == "bare" for _, mm in m["spec"]["order"])
        if raised:
            ctx.deviation("C08/raises:" + (m["exc"] or "?").split(":")[0], f"window call raises {m['exc']}", desc)
        elif not isp:
            sig = "C08/bare-window-order-key-null-placement" if has_bare else \
                "C08/value-differs:" + m["fun"][0] + ":" + ("default" if m["spec"]["frame"] is None else m["spec"]["frame"][0])
            ctx.deviation(sig, "window column differs from Spark's value", desc)
        elif not im:
            model_fail.append(desc)
        if proved and expl and not ms and not any(b["name"] == "theorem-vs-evaluation" for b in ctx.brokens):
            ctx.broken("theorem-vs-evaluation", "explicit-key case where model and Spark spec evaluate differently", data=[desc])
        if TABLES[m["table"]] and (m["spec"]["order"] or m["spec"]["part"]):
            nontriv += 1
        if len(ctx.samples) < 4 and m["table"] == "w1" and m["spec"]["frame"]:
            ctx.sample({"call": desc["call"], "table": m["table"], "verdict": r})
    if model_fail:
        ctx.broken("T3:impl-vs-model", f"{len(model_fail)} cases where the engine's values equal Spark's but not the model's; "
                   f"first: {model_fail[0]['call']} on {model_fail[0]['table']}", data=model_fail[:5])
    # ---- spec conformance: the Coq Spark spec against values recorded from PySpark 3.5.9
    rec_path = os.path.join(core.VERIF, "oracle", "c08_pyspark.jsonl")
    n_rec = n_rec_bad = 0
    if os.path.exists(rec_path):
        ritems, rmeta = [], []
        for line in open(rec_path):
            rc = json.loads(line)
            sp, f = rc["spec"], tuple(rc["fun"])
            sp["order"] = [tuple(x) for x in sp["order"]]
            sp["frame"] = tuple(sp["frame"]) if sp["frame"] else None
            rows = [tuple(x) for x in rc["rows"]]
            got = [tuple(x) for x in rc["result"]]
            impl = "(Some " + listlit([rel.row_coq(r) for r in got]) + ")"
            ritems.append(f"(mkWCase {rel.frame_coq(COLS, rows)} {spec_coq(sp)} {fun_coq(f)} {impl})")
            rmeta.append(rc)
        rres = ctx.cases("c08rec", hdr, ritems, per_file=150, result_ty="str", fn="check")
        bad = []
        for rc, r in zip(rmeta, rres):
            if r is None:
                continue
            n_rec += 1
            if r[1] != "1":
                n_rec_bad += 1
                bad.append(rc)
        if bad:
            ctx.broken("spec-conformance", f"{len(bad)} recorded PySpark results differ from the Coq Spark spec; first: "
                       f"{bad[0]['spec']} {bad[0]['fun']}", data=bad[:5])
    prec_path = os.path.join(core.VERIF, "oracle", "c08_pyspark_plans.jsonl")
    n_prec = 0
    if os.path.exists(prec_path):
        pitems, pmeta = [], []
        for line in open(prec_path):
            rc = json.loads(line)
            plan = [(k, ([tuple(x) for x in a] if k == "order" else (tuple(a) if k == "frame" else a))) for k, a in rc["plan"]]
            got = [tuple(x) for x in rc["result"]]
            pitems.append(f"({rel.frame_coq(COLS, [tuple(x) for x in rc['in_rows']])}, {plan_coq(plan)}, {fun_coq(tuple(rc['fun']))}, "
                          f"(Some {listlit([rel.row_coq(r) for r in got])}))")
            pmeta.append(rc)
        pres = ctx.cases("c08prec", hdr, pitems, per_file=150, result_ty="str", fn="checkp")
        bad = [rc for rc, r in zip(pmeta, pres) if r is not None and r[1] != "1"]
        n_prec = sum(1 for r in pres if r is not None)
        n_rec_bad += len(bad)
        if bad:
            ctx.broken("spec-conformance-plans", f"{len(bad)} recorded PySpark results for specs built by call sequences / over derived "
                       f"frames differ from the Coq Spark spec (spark_build + eval_window); first: {bad[0]['plan']} {bad[0]['fun']}", data=bad[:5])
    ctx.coverage.update({
        "pyspark_plan_recordings_checked": n_prec,
        "evaluations": len(items), "distinct_nontrivial": nontriv,
        "rule": "case = (window spec, function, table); specs from a generator over partition x order keys x 7 ordering "
                "methods x frame kind x bounds from sentinels/thresholds/-2..2; 19 function shapes; tables with ties and NULL "
                "order keys; a unique tie-breaker key is appended where Spark itself leaves the value unspecified; "
                "non-trivial = non-empty table and a partition or order; distinct by (spec, function, table)",
        "histogram_function": hist_fun, "histogram_frame": hist_frame, "histogram_ordering_method": hist_meth,
        "histogram_frame_derived_by": hist_pre, "histogram_builder_call_sequence": hist_plan,
        "impl_raised": n_raise, "pyspark_recordings_checked": n_rec, "pyspark_recordings_disagree": n_rec_bad,
    })
    ctx.assumptions += [
        "C08.Window.eval_window is my definition of SQL/Spark window evaluation (validated against DuckDB by T3 and against "
        "PySpark 3.5.9 recordings in oracle/c08_pyspark.jsonl)",
        "DuckDB's default placement for a bare ORDER BY key inside OVER() is ASC NULLS LAST",
        "Spark's JVM-side mapping of rowsBetween/rangeBetween arguments (0 -> CURRENT ROW, Long.MinValue/MaxValue -> UNBOUNDED, "
        "int literals otherwise) as read from Spark 3.5 sources",
    ]


def replay(ctx, rp):
    r = rp.get("replay") or (rp.get("no_longer_checks") or [{}])[0].get("data", [{}])[0]
    from sqlframe.duckdb import DuckDBSession, Window
    import sqlframe.duckdb.functions as F
    sp = r["spec"]
    sp["order"] = [tuple(x) for x in sp["order"]]
    sp["frame"] = tuple(sp["frame"]) if sp["frame"] else None
    f = tuple(r["fun"])
    df = DuckDBSession().createDataFrame([tuple(x) for x in r["rows"]], SCHEMA)
    if r.get("plan") is not None:
        plan = [(k, ([tuple(x) for x in a] if k == "order" else (tuple(a) if k == "frame" else a))) for k, a in r["plan"]]
        w = plan_sf(plan, F, Window)
        print(plan_str(plan, f), "| frame derived by:", r.get("derived_by"))
        df = apply_pre(df, r.get("derived_by"), F)
    else:
        w = spec_sf(sp, F, Window)
    d = df.select("id", "p", "k", "v", fun_sf(f, F).over(w).alias("w"))
    print(d.sql(optimize=False, dialect="duckdb"))
    for row in d.collect():
        print(row)
    return 0
