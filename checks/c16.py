"""C16 -- a column NAME is accepted wherever PySpark accepts one, with the same meaning, on every engine.

T1  translate/c16_fexp.py   -> Gen/C16Table.v    every body of functions.py / function_alternatives.py as fexp,
                                                  primitive facts from column.py, engine facts, module exports
    oracle/c16_pyspark_positions.json (recorded from live PySpark 3.5.9 by oracle/record_c16.py; re-derived from the
    installed PySpark source and compared on every run) -> Gen/C16Entries.v   (function, engine, position, vector)
Prf coq/props/C16.v         -> reflection over the generated finite table: every decided entry outside the listed
                               defects builds the same expression for 'c' and col('c')  (+ refutations)
T3  checks/c16_runner.py    -> for EVERY entry the real call in both forms under that engine's session class;
                               verdict (same SQL / different SQL / raises) compared with the model's verdict in Coq
"""
from __future__ import annotations

import json
import os
import random
import subprocess
from concurrent.futures import ThreadPoolExecutor

from vlib import core
from vlib.core import strlit, listlit, natlit
from translate import c16_fexp, c16_positions

NAMES = c16_positions.probe_names()
RECONF_NAMES = ["MyCol"]        # second pass of the runner: same session, input dialect re-configured
ORACLE = os.path.join(core.VERIF, "oracle", "c16_pyspark_positions.json")
PINNED_TABLE = os.path.join(core.VERIF, "translate", "c16_table_pinned.v")

HEADER = """From SF Require Import C16.Fexp C16.Known.
From Gen Require Import C16Table.
From Coq Require Import String List ZArith Bool. Import ListNotations. Open Scope string_scope. Open Scope bool_scope.
Definition agree (m r : string) : string := if String.eqb m "U" then "?" else if String.eqb m r then "1" else "0".
Definition fpflag (v : val) (fp : option (list (string * nat * nat))) : string :=
  match fp with
  | None => "-"
  | Some l => if val_unk v || is_err v then "?" else if fp_ok v l then "1" else "0"
  end.
(* case = (entry, real verdicts for the probe names in order, data-flow fingerprints of the two real trees for "c");
   answer = model verdicts, model=implementation flags, fingerprint flags (name form, col form) *)
Definition check (k : entry * list string * option (list (string * nat * nat)) * option (list (string * nat * nat))) : string :=
  let '(e, rs, f1, f2) := k in
  let ms := map (fun c => verdict gen_prims gen_table c e) probe_names in
  String.concat "" ms ++ String.concat "" (map (fun mr : string * string => agree (fst mr) (snd mr)) (combine ms rs))
     ++ fpflag (res_str gen_prims gen_table "c" e) f1 ++ fpflag (res_col gen_prims gen_table "c" e) f2.
"""


def load_positions(ctx):
    """vendored recording of PySpark 3.5.9; cross-checked against the installed PySpark source when present"""
    with open(ORACLE) as f:
        rec = json.load(f)
    path = c16_positions.pyspark_functions_path()
    if path and os.path.exists(path):
        sigs = c16_positions.read_pyspark_signatures(path)
        stale = []
        for name, sig in sigs.items():
            want = [(v["pos"], v["variant"], v["args"]) for v in c16_positions.call_vectors(name, sig)]
            got = [(v["pos"], v["variant"], v["args"]) for v in rec["functions"].get(name, {}).get("cases", [])]
            if want != got:
                stale.append(name)
        if stale or set(sigs) != set(rec["functions"]):
            ctx.broken("oracle:positions-stale",
                       f"oracle/c16_pyspark_positions.json does not match the installed PySpark signatures / vector "
                       f"generator for {stale[:8]} (re-run oracle/record_c16.py)")
        ctx.log(f"PySpark positions: recording of {rec['pyspark_version']} matches installed source "
                f"({len(sigs)} functions)" if not stale else "PySpark positions: STALE recording")
    else:
        ctx.log("PySpark not importable: using the vendored recording only")
    return rec


def revalidate_oracle_live(ctx, rec):
    """thorough tier: run the recorder against live PySpark again and compare with the vendored recording"""
    out = os.path.join(ctx.build, "live_positions.json")
    env = dict(os.environ)
    env["PYSPARK_PYTHON"] = core.PY
    try:
        p = subprocess.run([core.PY, os.path.join(core.VERIF, "oracle", "record_c16.py"), "--out", out],
                           stdout=subprocess.PIPE, stderr=subprocess.PIPE, text=True, env=env, timeout=900)
    except subprocess.TimeoutExpired:
        ctx.log("live PySpark re-validation timed out (vendored recording used)")
        return
    if p.returncode != 0 or not os.path.exists(out):
        ctx.log("live PySpark did not start here (vendored recording used): " + p.stderr[-200:].replace("\n", " "))
        ctx.coverage["oracle_live_revalidation"] = "not available"
        return
    with open(out) as f:
        live = json.load(f)
    diff = []
    for name, info in rec["functions"].items():
        a = [(c["pos"], c["variant"], c["live"].split(":")[0]) for c in info["cases"]]
        b = [(c["pos"], c["variant"], c["live"].split(":")[0]) for c in live["functions"].get(name, {}).get("cases", [])]
        if a != b:
            diff.append(name)
    ctx.coverage["oracle_live_revalidation"] = {"pyspark": live.get("pyspark_version"), "functions": len(live["functions"]),
                                                 "differing_functions": diff}
    if diff:
        ctx.broken("oracle:live-pyspark-differs", f"live PySpark answers differ from the vendored recording for {diff[:8]}")
    else:
        ctx.log(f"live PySpark {live.get('pyspark_version')} re-validated the vendored recording ({len(live['functions'])} functions)")


def build_entries(gen, rec, engines):
    """[(fname, engine, pos, variant, args)] for every function exported by the engine's functions module and every
    vector on which live PySpark treats the string as a column name"""
    entries, excluded = [], []
    for f, info in sorted(rec["functions"].items()):
        for c in info["cases"]:
            if c["live"] != "same":
                excluded.append({"function": f, "pos": c["pos"], "variant": c["variant"], "pyspark": c["live"][:100]})
    for e in engines:
        members = set(gen["members"][e])
        for f in sorted(members):
            if f not in rec["functions"]:
                continue
            for c in rec["functions"][f]["cases"]:
                if c["live"] == "same":
                    entries.append((f, e, c["pos"], c["variant"], c["args"]))
    return entries, excluded


def entry_coq(ent) -> str:
    f, e, pos, variant, args = ent
    return (f"(mkEntry {strlit(f)} {strlit(e)} {natlit(pos)} "
            f"{listlit([c16_positions.coq_arg(a, '', False) if a['t'] != 'test' else 'STest' for a in args])})")


def entries_file(entries) -> str:
    """grouped by call vector: (function, position, vector) x the engines whose functions module exports the function"""
    groups = {}
    for f, e, pos, variant, args in entries:
        key = (f, pos, listlit([c16_positions.coq_arg(a, '', False) if a['t'] != 'test' else 'STest' for a in args]))
        groups.setdefault(key, []).append(e)
    lines = ["(* generated by checks/c16.py from oracle/c16_pyspark_positions.json x engine module exports *)",
             "From SF Require Import C16.Fexp.",
             "From Coq Require Import String List ZArith. Import ListNotations. Open Scope string_scope.",
             "Definition gen_groups : list (string * nat * list sarg * list string) := ["]
    lines.append(";\n".join(f"  ({strlit(f)}, {natlit(pos)}, {args}, {listlit([strlit(e) for e in engs])})"
                            for (f, pos, args), engs in groups.items()))
    lines.append("].")
    lines.append("Definition gen_entries : list entry :=")
    lines.append("  flat_map (fun g : string * nat * list sarg * list string =>")
    lines.append("              let '(f, p, a, es) := g in map (fun e => mkEntry f e p a) es) gen_groups.")
    return "\n".join(lines) + "\n"


def run_engine(engine, vectors):
    env = dict(os.environ)
    env["PYTHONPATH"] = core.VERIF + ":" + core.REPO
    env["PYTHONHASHSEED"] = "0"
    p = subprocess.run([core.PY, "-m", "checks.c16_runner", engine],
                       input=json.dumps({"names": NAMES, "reconf_names": RECONF_NAMES, "vectors": vectors}),
                       stdout=subprocess.PIPE, stderr=subprocess.PIPE, text=True, env=env, cwd=core.VERIF, timeout=600)
    if p.returncode != 0:
        return None, p.stderr[-2000:]
    return json.loads(p.stdout), ""


def signature(f, e, pos):
    return f"C16/{f}/{e}/arg{pos}"


def call_text(f, args, cname, as_col):
    parts = []
    for a in args:
        t = a["t"]
        if t == "test":
            parts.append(f"col({cname!r})" if as_col else repr(cname))
        elif t == "col":
            parts.append(f"col({a['name']!r})")
        elif t == "name":
            parts.append(repr(a["name"]))
        elif t == "lambda":
            parts.append("lambda " + ", ".join("xyz"[: a["n"]]) + ": x")
        elif t == "float":
            parts.append(str(a["v"]))
        else:
            parts.append(repr(a["v"]))
    return f"F.{f}({', '.join(parts)})"


def run(ctx: core.Ctx):
    rnd = random.Random(ctx.seed)
    # ---- T1: function bodies, primitive facts, engine exports
    gen = None
    try:
        gen = c16_fexp.generate(core.REPO)
        ctx.gen("C16Table", gen["text"], gen["facts"])
        t1_ok = True
    except Exception as ex:  # fail-closed translator = broken proof obligation
        ctx.broken("T1:c16_fexp", f"{type(ex).__name__}: {ex}")
        t1_ok = False
    rec = load_positions(ctx)
    if not t1_ok:
        # the search below still needs a table and the module exports: fall back to the pinned translation
        ctx.gen("C16Table", open(PINNED_TABLE).read())
        with open(PINNED_TABLE.replace(".v", ".members.json")) as f:
            gen = {"members": json.load(f), "funcs": {}}
    entries, excluded = build_entries(gen, rec, c16_fexp.ENGINES)
    ctx.gen("C16Entries", entries_file(entries),
            [{"name": "entries", "source": "oracle/c16_pyspark_positions.json x sqlframe/<engine>/functions.py",
              "value": len(entries)}])
    ctx.log(f"{len(entries)} entries (function x engine x position x vector); "
            f"{len(excluded)} PySpark vectors excluded (PySpark itself does not read the string as a column name there)")
    # ---- proofs
    proved = False
    if t1_ok:
        # per-name instantiation obligations (compiled in parallel; props/C16.v combines them with Fexp.all_ok_cons)
        ok_files = []
        for k, cname in enumerate(NAMES):
            ctx.gen(f"C16Ok{k}", "From SF Require Import C16.Fexp C16.Known.\nFrom Gen Require Import C16Table C16Entries.\n"
                    "From Coq Require Import String List. Import ListNotations. Open Scope string_scope.\n"
                    f"(* probe name {k} of Known.probe_names *)\n"
                    f"Lemma gen_ok_{k} : all_ok gen_prims gen_table [{strlit(cname)}] C16_known gen_entries = true.\n"
                    "Proof. vm_compute. reflexivity. Qed.\n")
            ok_files.append(f"{ctx.build}/gen/C16Ok{k}.v")
        for th in ("C16/Fexp.v", "C16/Known.v"):
            ok = ctx.prove([], dep_theories=[th])
        stages = [[ctx.build + "/gen/C16Table.v", ctx.build + "/gen/C16Entries.v"], ok_files,
                  [core.COQ + "/props/C16.v", core.COQ + "/props/C16_refuted.v"]]
        proved = not any(b["name"].startswith("theory:") for b in ctx.brokens)
        for stage in stages:
            with ThreadPoolExecutor(max_workers=8) as ex:
                results = list(ex.map(lambda pth: (pth, core.grep_gate([pth]), ctx.coqc(pth, timeout=600)), stage))
            for pth, gate, (rc, out, err, dt, cmd) in results:
                base = os.path.basename(pth)
                n = core.count_obligations(pth)
                ctx.obligations += n
                ctx.checker_cmds.append(cmd)
                if gate:
                    proved = False
                    ctx.broken("axiom-gate:" + base, "; ".join(gate[:5]))
                elif rc == 0:
                    ctx.discharged += n
                    for blk in core.parse_assumptions(out):
                        ctx.assumptions_printed.append(f"{base}: {blk}")
                elif base == "C16_refuted.v":
                    # refutations of the listed defects live in their own file: a defect that gets REPAIRED in /repo makes
                    # its refutation fail, and that must not raise an alarm (the entry simply stops being reported)
                    ctx.log("C16_refuted.v does not compile any more: a listed defect is no longer a counterexample of the "
                            "model (repaired in the source?) -- not an alarm; " + (err or out)[-300:].replace("\n", " "))
                    ctx.coverage["refutations_no_longer_hold"] = (err or out)[-600:]
                else:
                    proved = False
                    ctx.broken("proof:" + base, (err or out)[-2500:])
                    ctx.log(f"coqc FAILED {pth} ({dt:.1f}s)")
            if not proved:
                break
    else:
        ctx.coqc(ctx.build + "/gen/C16Table.v")
    # ---- T3: the real calls.  quick = standalone + duckdb + one rotating engine; thorough = all engines
    rest = [e for e in c16_fexp.ENGINES if e not in ("standalone", "duckdb")]
    engines = c16_fexp.ENGINES if ctx.tier == "thorough" else ["standalone", "duckdb", rest[ctx.seed % len(rest)]]
    if not proved and ctx.tier != "thorough":
        ctx.log("proof or T1 did not check: searching for a failing input on ALL engines")
        engines = c16_fexp.ENGINES
    # corpus: the keys of findings that were repaired (findings/C16-*.json) are called on THEIR engine in every tier,
    # and first, whatever the rotation selected
    corpus_keys = set()
    for k in ctx.known:
        rp = os.path.join(core.VERIF, k.get("replay", ""))
        if os.path.isfile(rp):
            with open(rp) as fh:
                r = json.load(fh).get("replay", {})
            corpus_keys.add((r.get("function"), r.get("engine"), r.get("position")))
    by_engine = {e: [] for e in engines}
    n_corpus = 0
    for i, ent in enumerate(entries):
        if (ent[0], ent[1], ent[2]) in corpus_keys:
            by_engine.setdefault(ent[1], []).insert(0, {"id": i, "fname": ent[0], "args": ent[4]})
            n_corpus += 1
        elif ent[1] in engines:
            by_engine[ent[1]].append({"id": i, "fname": ent[0], "args": ent[4]})
    ctx.log(f"corpus: {n_corpus} vectors of {len(corpus_keys)} formerly failing keys run first, on their own engines")
    engines = [e for e in c16_fexp.ENGINES if e in by_engine]
    real = {}
    with ThreadPoolExecutor(max_workers=8) as ex:
        futs = {e: ex.submit(run_engine, e, by_engine[e]) for e in engines}
    for e in engines:
        ans, err = futs[e].result()
        if ans is None:
            ctx.broken("T3:runner:" + e, "the implementation runner failed: " + err)
            continue
        ctx.log(f"engine {e}: session class {ans['session_class']}, {len(ans['answers'])} vectors called in both forms")
        for a in ans["answers"]:
            real[a["id"]] = a
    pys = {(f, c["pos"], c["variant"]): (c.get("pyspark_str"), c.get("pyspark_col"))
           for f, info in rec["functions"].items() for c in info["cases"]}
    items, metas = [], []
    for i, ent in enumerate(entries):
        a = real.get(i)
        if a is None or "per_name" not in a:
            continue
        vs = [pn["verdict"] for pn in a["per_name"]]
        def fp(x):
            if x is None:
                return "None"
            return "(Some " + listlit([f"({strlit(n)}, {natlit(a_)}, {natlit(b_)})" for n, a_, b_ in x]) + ")"
        pn0 = a["per_name"][0]
        items.append(f"({entry_coq(ent)}, {listlit([strlit(v) for v in vs])}, {fp(pn0.get('fp_str'))}, {fp(pn0.get('fp_col'))})")
        metas.append((i, ent, a))
    res = ctx.cases("c16", HEADER, items, per_file=400, result_ty="str", fn="check")
    hist_real, hist_model, hist_engine, hist_variant = {}, {}, {}, {}
    hard, soft, undecided, fp_bad, n_fp, n_reconf = [], [], [], [], {}, {}
    n_nontriv = 0
    for (i, ent, a), r in zip(metas, res):
        N = len(NAMES)
        if r is None or len(r) != 2 * N + 2:
            continue
        f, e, pos, variant, args = ent
        hist_engine[e] = hist_engine.get(e, 0) + 1
        hist_variant[variant] = hist_variant.get(variant, 0) + 1
        for k, cname in enumerate(NAMES):
            pn = a["per_name"][k]
            rv, mv, ag = pn["verdict"], r[k], r[N + k]
            hist_real[rv] = hist_real.get(rv, 0) + 1
            hist_model[mv] = hist_model.get(mv, 0) + 1
            desc = {"function": f, "engine": e, "position": pos, "variant": variant, "args": args, "name": cname,
                    "call_with_name": call_text(f, args, cname, False), "call_with_col": call_text(f, args, cname, True),
                    "sqlframe_with_name": pn["str_form"], "sqlframe_with_col": pn["col_form"],
                    "model_verdict": mv, "implementation_verdict": rv,
                    "pyspark": "live PySpark 3.5.9 builds the same Catalyst expression for both forms "
                               "(oracle/c16_pyspark_positions.json)",
                    "pyspark_with_name": pys.get((f, pos, variant), (None, None))[0],
                    "pyspark_with_col": pys.get((f, pos, variant), (None, None))[1]}
            if rv in ("D", "R"):
                ctx.deviation(signature(f, e, pos),
                              f"{call_text(f, args, cname, False)} on {e}: "
                              + ("the string becomes something else than the column: " if rv == "D" else "raises: ")
                              + str(pn["str_form"])[:160] + "   vs col(): " + str(pn["col_form"])[:120], desc)
            if mv == "U":
                if k == 0:
                    undecided.append({"function": f, "engine": e, "position": pos, "variant": variant, "implementation": rv})
            elif ag != "1":
                # the col() form raising for a reason the model does not carry (value validation, missing driver
                # features) leaves the property vacuous on both sides: soft.  Everything else is a broken tie.
                if rv == "B" and mv in ("E", "D", "R"):
                    soft.append(desc)
                else:
                    hard.append(desc)
        for form, flag in (("name", r[2 * N]), ("col", r[2 * N + 1])):
            if flag == "0":
                fp_bad.append({"function": f, "engine": e, "position": pos, "variant": variant, "form": form,
                               "call": call_text(f, args, "c", form == "col"),
                               "implementation_tree_counts(name,#col,#lit)": a["per_name"][0].get("fp_str" if form == "name" else "fp_col"),
                               "sqlframe": a["per_name"][0]["str_form" if form == "name" else "col_form"]})
            n_fp[flag] = n_fp.get(flag, 0) + 1
        for pn in a.get("reconfigured", []):
            n_reconf[pn["verdict"]] = n_reconf.get(pn["verdict"], 0) + 1
            if pn["verdict"] in ("D", "R"):
                ctx.deviation(signature(f, e, pos) + "/after-reconfiguration",
                              f"{call_text(f, args, pn['name'], False)} on {e} after the session's input dialect was "
                              f"re-configured (case-sensitive identifiers): " + str(pn["str_form"])[:160]
                              + "   vs col(): " + str(pn["col_form"])[:120],
                              {"function": f, "engine": e, "position": pos, "variant": variant, "args": args,
                               "name": pn["name"], "after_reconfiguration": True,
                               "call_with_name": call_text(f, args, pn["name"], False),
                               "call_with_col": call_text(f, args, pn["name"], True),
                               "sqlframe_with_name": pn["str_form"], "sqlframe_with_col": pn["col_form"],
                               "implementation_verdict": pn["verdict"],
                               "history": "all vectors were first called under the default input dialect, then "
                                          "session.input_dialect = Dialect.get_or_raise('<dialect>, normalization_strategy="
                                          "case_sensitive') and the vector was called again"})
        if len(args) >= 2:
            n_nontriv += 1
        if len(ctx.samples) < 4 and rnd.random() < 0.002:
            ctx.sample({"entry": [f, e, pos, variant], "call": call_text(f, args, "c", False), "coq_answer": r,
                        "implementation": [pn["verdict"] for pn in a["per_name"]]})
    if hard:
        ctx.broken("T3:impl-vs-model", f"{len(hard)} (entry, name) pairs where the model's verdict differs from the real "
                   f"call; first: {hard[0]['call_with_name']} on {hard[0]['engine']}: model {hard[0]['model_verdict']}, "
                   f"implementation {hard[0]['implementation_verdict']}", data=hard[:10])
    if fp_bad:
        ctx.broken("T3:data-flow", f"{len(fp_bad)} real trees in which an argument occurs as column / string literal a "
                   f"different number of times than in the model's result; first: {fp_bad[0]['call']} on "
                   f"{fp_bad[0]['engine']}: {fp_bad[0]['sqlframe']}", data=fp_bad[:10])
    with open(os.path.join(ctx.build, "t3_detail.json"), "w") as fh:      # for the developer; not part of the evidence
        json.dump({"hard": hard, "soft": soft, "undecided": undecided, "fp_bad": fp_bad,
                   "deviations": ctx.deviations}, fh, indent=1)
    und_funcs = sorted({u["function"] for u in undecided})
    opaque_funcs = {k: v["opaque"] for k, v in gen.get("funcs", {}).items() if v.get("opaque")}
    ctx.coverage.update({
        "evaluations": 2 * len(NAMES) * len(items),
        "distinct_nontrivial": n_nontriv,
        "rule": "case = (function, engine, tested position, call vector); every case is called for real in both forms "
                "(name / col(name)) for the probe names of Known.v; non-trivial = the vector has at least one other argument; distinct "
                "by construction (the table is enumerated, not sampled)",
        "corpus_keys": len(corpus_keys), "corpus_vectors": n_corpus,
        "entries_in_theorem": len(entries), "entries_called": len(items), "engines_called": engines,
        "histogram_engine": hist_engine, "histogram_variant": hist_variant,
        "histogram_implementation_verdict": hist_real, "histogram_model_verdict": hist_model,
        "verdict_legend": "E same expression, D different expression, R only the name form raises, B the col() form "
                          "raises (property vacuous), U undecided by the model (Opaque construct reached)",
        "reconfigured_session_pass": {"names": RECONF_NAMES, "verdicts": n_reconf,
                                       "what": "same session, input dialect switched to case-sensitive normalisation after "
                                               "the first pass; implementation judged against the property directly"},
        "data_flow_fingerprints": n_fp,
        "data_flow_legend": "per real tree: 1 = every argument occurs as column reference / string literal exactly as often "
                            "as in the model's symbolic result, 0 = not, ? = model result unknown/raises, - = real call raised",
        "model_undecided_entries": len(undecided), "model_undecided_functions": und_funcs,
        "opaque_functions": opaque_funcs,
        "soft_mismatches_col_form_raises": [{"call": s["call_with_col"], "engine": s["engine"], "raises": s["sqlframe_with_col"],
                                             "model": s["model_verdict"]} for s in soft[:40]],
        "pyspark_vectors_excluded": excluded,
    })
    if ctx.tier == "thorough":
        revalidate_oracle_live(ctx, rec)
    ctx.assumptions += [
        "Column(str) (sqlglot.maybe_parse) and col(str) (exp.to_column) denote the same column reference exactly for plain, "
        "possibly qualified identifiers; other texts ('event time', 'end-ts') parse as SQL expressions (probe names in Known.v)",
        "every sqlglot constructor/helper, Column method and session helper other than the coercions listed in Fexp.v is a "
        "deterministic injective symbol of its arguments (validated entry by entry by T3: model verdict = real verdict)",
        "the func_metadata wrapper (automatic alias) is a deterministic function of the wrapped result that keeps the expression",
        "PySpark's behaviour = oracle/c16_pyspark_positions.json recorded from live PySpark 3.5.9 (Catalyst expression text of "
        "both call forms); positions where PySpark itself reads the string as a literal (schema_of_json, from_utc_timestamp tz, "
        "...) are excluded",
    ]
    ctx.trusted += ["translate/c16_fexp.py (fail-closed; validated per entry by T3)",
                    "checks/c16_runner.py session construction (engine session class, __init__ replaced only for driver-less engines)"]


def replay(ctx: core.Ctx, rp: dict) -> int:
    """re-run the two call forms of a replay file on the current tree"""
    r = rp.get("replay") or (rp.get("no_longer_checks") or [{}])[0].get("data", [{}])[0]
    ans, err = run_engine(r["engine"], [{"id": 0, "fname": r["function"], "args": r["args"]}])
    if ans is None:
        print("runner failed:", err)
        return 2
    a = ans["answers"][0]
    print("engine:", r["engine"], "session class:", ans["session_class"])
    for pn in a.get("per_name", []):
        print(f"name {pn['name']!r}: verdict {pn['verdict']}")
        print("   ", call_text(r["function"], r["args"], pn["name"], False), "->", pn["str_form"])
        print("   ", call_text(r["function"], r["args"], pn["name"], True), "->", pn["col_form"])
    print("PySpark 3.5.9 builds the same Column for both forms at this position (oracle/c16_pyspark_positions.json);")
    print("recorded verdict:", r.get("implementation_verdict"), " model:", r.get("model_verdict"))
    for pn in a.get("reconfigured", []):
        print(f"after re-configuring the session's input dialect to {ans.get('reconfigured_input_dialect')!r}: "
              f"name {pn['name']!r}: verdict {pn['verdict']}")
        print("   ", call_text(r["function"], r["args"], pn["name"], False), "->", pn["str_form"])
        print("   ", call_text(r["function"], r["args"], pn["name"], True), "->", pn["col_form"])
    bad = any(pn["verdict"] in ("D", "R") for pn in a.get("per_name", []) + a.get("reconfigured", []))
    return 1 if bad else 0
