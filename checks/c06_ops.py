"""C06's own copy of the core single-input operations of C01 (typed step/expression generator, renderers to Coq
`uop` terms of Model/ChainCheck.v, and the sqlframe/PySpark calls).  Copied from the committed checks/c01.py so that C06
does not move when C01's generator grows new operation kinds."""
from __future__ import annotations

from vlib import rel
from vlib.core import strlit, listlit, natlit, boollit

TABLES = {
    "empty": [],
    "t1": [(1, 2, "x"), (2, 1, "y"), (None, 3, "x"), (1, 1, None), (1, 2, "x"), (3, None, "z")],
    "t2": [(0, 0, ""), (-1, 5, "a"), (-1, 5, "a"), (None, None, None), (2, -3, "b"), (4, 4, "a"), (2, 7, "c"), (None, 1, "b")],
}
SCHEMA = "a bigint, b bigint, s string"
COLS0 = ["a", "b", "s"]
INT_COLS0 = {"a", "b"}


class Gen:
    """Typed step/expression generator.  `cols` maps current column name -> 'int' | 'str' | 'bool'."""

    def __init__(self, rnd):
        self.r = rnd

    def int_e(self, cols, depth=2):
        ints = [c for c, t in cols.items() if t == "int"]
        r = self.r
        if depth == 0 or r.random() < 0.3 or not ints:
            if ints and r.random() < 0.75:
                return ("col", r.choice(ints))
            return ("lit", r.choice([0, 1, 2, -1, 3]))
        k = r.random()
        if k < 0.6:
            return ("bin", r.choice(["Add", "Sub", "Mul"]), self.int_e(cols, depth - 1), self.int_e(cols, depth - 1))
        if k < 0.7:
            return ("neg", self.int_e(cols, depth - 1))
        if k < 0.85:
            return ("if", self.bool_e(cols, depth - 1), self.int_e(cols, depth - 1), self.int_e(cols, depth - 1))
        return ("coalesce", self.int_e(cols, depth - 1), ("lit", r.choice([0, 9])))

    def bool_e(self, cols, depth=2):
        r = self.r
        ints = [c for c, t in cols.items() if t == "int"]
        strs = [c for c, t in cols.items() if t == "str"]
        bools = [c for c, t in cols.items() if t == "bool"]
        k = r.random()
        if depth > 0 and k < 0.25:
            return ("bin", r.choice(["And", "Or"]), self.bool_e(cols, depth - 1), self.bool_e(cols, depth - 1))
        if depth > 0 and k < 0.35:
            return ("not", self.bool_e(cols, depth - 1))
        if k < 0.5 and (ints or strs):
            return ("isnull", ("col", r.choice(ints + strs)))
        if k < 0.6 and strs:
            return ("bin", r.choice(["Eq", "Neq", "Lt", "Ge"]), ("col", r.choice(strs)), ("lit", r.choice(["x", "a", "b", ""])))
        if k < 0.65 and bools:
            return ("col", r.choice(bools))
        op = r.choice(["Eq", "Neq", "Lt", "Le", "Gt", "Ge", "NullSafeEq"])
        return ("bin", op, self.int_e(cols, 1), self.int_e(cols, 1))

    def step(self, cols):
        r = self.r
        names = list(cols)
        k = r.random()
        if k < 0.2:
            n = r.randint(1, min(3, len(names)))
            keep = r.sample(names, n)
            items = [(("col", c), c) for c in keep]
            if r.random() < 0.6:
                tgt = r.choice(["a", "b", "c", "d"])
                items = [it for it in items if it[1] != tgt]
                if r.random() < 0.3:
                    items.append((self.bool_e(cols, 1), tgt))
                else:
                    items.append((self.int_e(cols), tgt))
            r.shuffle(items)
            return ("select", items)
        if k < 0.4:
            return ("where", self.bool_e(cols))
        if k < 0.55:
            return self.order_step(cols, total=r.random() < 0.7)
        if k < 0.65:
            return ("limit", r.choice([0, 1, 2, 3, 5, 100]))
        if k < 0.73:
            return ("distinct",)
        if k < 0.85:
            tgt = r.choice(names + ["c", "d"])
            e = self.bool_e(cols, 1) if r.random() < 0.2 else self.int_e(cols)
            return ("withColumn", tgt, e)
        if k < 0.93:
            return ("rename", r.choice(names), r.choice(["c", "d", "e"] + names))
        return ("drop", r.sample(names, 1) + (["zz"] if r.random() < 0.2 else []))

    def order_step(self, cols, total):
        r = self.r
        names = list(cols)
        r.shuffle(names)
        if not total:
            names = names[: r.randint(1, max(1, len(names) - 1))]
        keys = []
        for c in names:
            desc = r.random() < 0.4
            nf = r.choice([None, None, True, False])
            keys.append((("col", c), desc, nf))
        if not total and r.random() < 0.3 and any(t == "int" for t in cols.values()):
            ke = self.int_e(cols, 1)
            if rel.e_cols(ke):   # ORDER BY <constant> is positional in SQL; not generated
                keys = [(ke, r.random() < 0.5, None)] + keys[:1]
        return ("orderBy", keys)


def type_of(e, cols):
    k = e[0]
    if k == "col":
        return cols[e[1]]
    if k == "lit":
        return "bool" if isinstance(e[1], bool) else "int" if isinstance(e[1], int) else "str"
    if k == "bin":
        return "int" if e[1] in ("Add", "Sub", "Mul") else "bool"
    if k in ("not", "isnull"):
        return "bool"
    if k == "neg":
        return "int"
    if k == "if":
        return type_of(e[2], cols)
    if k == "coalesce":
        return type_of(e[1], cols)
    raise ValueError(e)


def cols_after(step, cols):
    """columns (ordered dict name->type) after the step, or None if the step is ill-formed here"""
    k = step[0]
    if k == "select":
        names = [n for _, n in step[1]]
        if len(set(names)) != len(names):
            return None
        return {n: type_of(e, cols) for e, n in step[1]}
    if k == "withColumn":
        new = dict(cols)
        new[step[1]] = type_of(step[2], cols)
        return new
    if k == "rename":
        a, b = step[1], step[2]
        if a not in cols or (b in cols and b != a):
            return None
        return {(b if c == a else c): t for c, t in cols.items()}
    if k == "drop":
        new = {c: t for c, t in cols.items() if c not in step[1]}
        return new or None
    return dict(cols)


def nulls_first(desc, nf):
    return (not desc) if nf is None else nf


def step_coq(step) -> str:
    k = step[0]
    if k == "select":
        return "(UOp (OSelect " + listlit([f"({rel.e_coq(e)}, {strlit(n)})" for e, n in step[1]]) + "))"
    if k == "where":
        return f"(UOp (OWhere {rel.e_coq(step[1])}))"
    if k == "orderBy":
        return "(UOp (OOrderBy " + listlit(
            [f"(mkKey {rel.e_coq(e)} {boollit(d)} {boollit(nulls_first(d, nf))})" for e, d, nf in step[1]]) + "))"
    if k == "limit":
        return f"(UOp (OLimit {natlit(step[1])}))"
    if k == "distinct":
        return "(UOp ODistinct)"
    if k == "withColumn":
        return f"(UWithColumn {strlit(step[1])} {rel.e_coq(step[2])})"
    if k == "rename":
        return f"(URename {strlit(step[1])} {strlit(step[2])})"
    if k == "drop":
        return "(UDrop " + listlit([strlit(c) for c in step[1]]) + ")"
    raise ValueError(step)


def step_str(step) -> str:
    k = step[0]
    if k == "select":
        return "select(" + ", ".join(f"{rel.e_str(e)} as {n}" for e, n in step[1]) + ")"
    if k == "where":
        return f"where({rel.e_str(step[1])})"
    if k == "orderBy":
        return "orderBy(" + ", ".join(
            f"{rel.e_str(e)} {'desc' if d else 'asc'}{'' if nf is None else (' nulls first' if nf else ' nulls last')}"
            for e, d, nf in step[1]) + ")"
    if k == "withColumn":
        return f"withColumn({step[1]}, {rel.e_str(step[2])})"
    return f"{k}({', '.join(map(str, step[1:]))})"


def apply_step(df, step, F):
    k = step[0]
    if k == "select":
        args = []
        for e, n in step[1]:
            if e == ("col", n):
                args.append(n if hash(n) % 2 else F.col(n))
            else:
                args.append(rel.e_sf(e, F).alias(n))
        return df.select(*args)
    if k == "where":
        return df.where(rel.e_sf(step[1], F))
    if k == "orderBy":
        ks = []
        for e, d, nf in step[1]:
            c = rel.e_sf(e, F)
            if nf is None:
                c = c.desc() if d else c.asc()
            elif d:
                c = c.desc_nulls_first() if nf else c.desc_nulls_last()
            else:
                c = c.asc_nulls_first() if nf else c.asc_nulls_last()
            ks.append(c)
        return df.orderBy(*ks)
    if k == "limit":
        return df.limit(step[1])
    if k == "distinct":
        return df.distinct()
    if k == "withColumn":
        return df.withColumn(step[1], rel.e_sf(step[2], F))
    if k == "rename":
        return df.withColumnRenamed(step[1], step[2])
    if k == "drop":
        return df.drop(*step[1])
    raise ValueError(step)


