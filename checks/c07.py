"""C07 -- set operations implement PySpark's multiset algebra and column matching.

T1  translate/c07_facts.py (+ c01_facts.py) -> Gen/C07Facts.v, Gen/C01Facts.v
      (sqlglot class + distinct flag per method, decorator Operation, operand order of the operator node)
Prf coq/props/C07.v -> facts_ok instantiation; multiset laws for all multiplicities; compile_correct:
      for every tree of set operations / ordinary steps and all inputs, the SQL sqlframe builds (WITH list with
      merged + renamed CTEs) evaluates to Spark's bag with the left operand's column names
T2  exported df.expression (CTEs, Union/Intersect/Except nodes, distinct arg)  ==  model's WITH list up to the
      positional renaming of CTE names
T3  collect() multiset + df.columns on DuckDB == Coq model (eval_query) == Coq Spark spec;
      the Coq Spark spec == PySpark 3.5.9 recording (oracle/c07_pyspark.jsonl)
"""
from __future__ import annotations

import json
import os
import random
import re

from vlib import core, rel
from vlib.core import strlit, listlit, natlit, boollit
from translate import c01_facts, c07_facts

HEADER = """From SF Require Import C07.SetCheck.
From Gen Require Import C01Facts C07Facts.
Open Scope string_scope.
Definition check := SetCheck.check gen_cfg gen_facts.
"""

CALLS = ["union", "unionAll", "unionByName", "unionByNameAllow", "intersect", "intersectAll", "exceptAll"]
CALL_COQ = {"union": "CUnion", "unionAll": "CUnionAll", "unionByName": "(CUnionByName false)",
            "unionByNameAllow": "(CUnionByName true)", "intersect": "CIntersect", "intersectAll": "CIntersectAll",
            "exceptAll": "CExceptAll"}
POSITIONAL = ["union", "unionAll", "intersect", "intersectAll", "exceptAll"]

# operand tables: multiplicities 0..3, NULL rows (NULL = NULL in set operations), empty sides
FIXED = [
    (["a", "b"], []),
    (["a", "b"], [(1, 2), (1, 2), (None, 3), (None, 3), (None, None)]),
    (["a", "b"], [(1, 2), (None, 3), (None, 3), (None, 3), (4, 4)]),
    (["a", "b"], [(1, 2)] * 3 + [(None, None)] * 2 + [(2, 1)]),
    (["x", "y"], [(None, None), (None, None), (None, None), (1, None), (None, 1), (1, 2)]),
    (["b", "a"], [(2, 1), (2, 1), (3, None), (None, None), (1, 2)]),
    (["a", "c"], [(1, 2), (None, 3), (None, None), (None, None)]),
    (["c", "b", "a"], [(7, 2, 1), (7, 2, 1), (None, 3, None), (None, None, None)]),
    (["a", "b", "c"], [(1, 2, 7), (None, None, None), (None, None, None), (None, 3, None)]),
    # unionByName(allowMissingColumns): several columns missing on either side, right order not alphabetical
    (["k", "v"], [(1, 10), (1, 10), (None, None)]),
    (["v", "z", "k", "c"], [(100, 7, 2, 9), (None, None, None, None), (100, 7, 2, 9)]),
    (["z", "a", "y", "b"], [(7, 1, 8, 2), (7, 1, 8, 2), (None, None, None, 3), (None, None, None, None)]),
    # spelling: the result carries the LEFT operand's names exactly as the left spells them
    (["Id", "Amount"], [(1, 10), (1, 10), (2, 20), (None, None), (None, None)]),
    (["id", "AMOUNT"], [(1, 10), (1, 10), (3, 30), (None, None)]),
    (["Amount", "Id"], [(10, 1), (None, None), (30, 3)]),
    (["AMOUNT", "id"], [(10, 1), (10, 1), (None, None), (30, 3)]),
    # a string column whose values differ in letter case / trailing blank only (CTE names must tell such texts apart)
    (["a", "s"], [(1, "x"), (2, "X"), (3, "x"), (None, None), (1, "x"), (4, "X"), (5, "x "), (5, "x ")]),
    (["a", "s"], [(1, "X"), (3, "x"), (6, "a"), (6, "A"), (None, "x")]),
]
T_KV, T_VZKC, T_ZAYB, T_ID, T_IDR, T_AMT, T_AMTR, T_S1, T_S2 = 9, 10, 11, 12, 13, 14, 15, 16, 17
STR_COLS = {"s", "t"}          # string-typed column names; every other column is bigint


def _tup(x):
    return tuple(_tup(y) for y in x) if isinstance(x, (list, tuple)) else x


def random_tables(rnd, n):
    dom = [None, 1, 2]
    out = []
    for _ in range(n):
        names = rnd.choice([["a", "b"], ["a", "b"], ["b", "a"], ["x", "y"], ["a", "c"]])
        rows = []
        for u in dom:
            for v in dom:
                m = rnd.choice([0, 0, 1, 1, 2, 3])
                rows += [(u, v)] * m
        rnd.shuffle(rows)
        out.append((names, rows))
    return out


# ---- tree descriptors -----------------------------------------------------------------------------
# ("in", i) | ("ops", (step, ...), t) | ("set", call, l, r)          step: ("where", e) | ("select", ((e, name), ...)) | ("distinct",)

def names_of(t, tables):
    k = t[0]
    if k == "in":
        return list(tables[t[1]][0])
    if k == "ops":
        ns = names_of(t[2], tables)
        for st in t[1]:
            if st[0] == "select":
                ns = [n for _, n in st[1]]
        return ns
    ln, rn = names_of(t[2], tables), names_of(t[3], tables)
    if t[1] == "unionByNameAllow":
        return ln + [c for c in rn if c not in ln]
    return ln


def valid(t, tables):
    """union-compatible in PySpark's sense (the property's domain)"""
    k = t[0]
    if k == "in":
        return True
    if k == "ops":
        if not valid(t[2], tables):
            return False
        ns = names_of(t[2], tables)
        for st in t[1]:
            if st[0] == "select":
                out = [n for _, n in st[1]]
                if len(set(o.lower() for o in out)) != len(out) or any(not rel.e_cols(e_plain(e)) <= set(ns) for e, _ in st[1]):
                    return False
                ns = out
            elif st[0] == "where" and not rel.e_cols(e_plain(st[1])) <= set(ns):
                return False
        return True
    if not (valid(t[2], tables) and valid(t[3], tables)):
        return False
    ln, rn = names_of(t[2], tables), names_of(t[3], tables)
    if t[1] in ("unionByName", "unionByNameAllow") and any(a.lower() == b.lower() and a != b for a in ln for b in rn):
        return False      # names differing only in letter case: curated cases only (Case.spec_tables)
    if t[1] == "unionByNameAllow":
        return True
    if t[1] == "unionByName":
        return sorted(ln) == sorted(rn)
    return len(ln) == len(rn)


def depth(t):
    return 0 if t[0] == "in" else depth(t[2]) if t[0] == "ops" else 1 + max(depth(t[2]), depth(t[3]))


def inputs_used(t):
    return {t[1]} if t[0] == "in" else inputs_used(t[2]) if t[0] == "ops" else inputs_used(t[2]) | inputs_used(t[3])


def remap(t, m):
    if t[0] == "in":
        return ("in", m[t[1]])
    if t[0] == "ops":
        return ("ops", t[1], remap(t[2], m))
    return ("set", t[1], remap(t[2], m), remap(t[3], m))


def root_call(t):
    return t[1] if t[0] == "set" else root_call(t[2]) if t[0] == "ops" else "input"


def calls_in(t):
    return [] if t[0] == "in" else calls_in(t[2]) if t[0] == "ops" else [t[1]] + calls_in(t[2]) + calls_in(t[3])


def setop_subtrees(t):
    if t[0] == "in":
        return set()
    if t[0] == "ops":
        return setop_subtrees(t[2])
    return {t} | setop_subtrees(t[2]) | setop_subtrees(t[3])


def shares_setop(t):
    """some set operation whose two operands both contain (derive from) one and the same set-operation result"""
    if t[0] == "in":
        return False
    if t[0] == "ops":
        return shares_setop(t[2])
    return bool(setop_subtrees(t[2]) & setop_subtrees(t[3])) or shares_setop(t[2]) or shares_setop(t[3])


def e_plain(e):
    """('lcol', n) = column n addressed as left_df[n] (left_df = the left operand object of the set operation the step
    follows); it means the same column, so the Coq side sees ('col', n)"""
    if not isinstance(e, tuple):
        return e
    if e[0] == "lcol":
        return ("col", e[1])
    return tuple(e_plain(x) for x in e)


def e_marked(e):
    if not isinstance(e, tuple):
        return e
    if e[0] == "lcol":
        return ("col", "@L:" + e[1])
    return tuple(e_marked(x) for x in e)


def has_lcol(e):
    return isinstance(e, tuple) and (e[0] == "lcol" or any(has_lcol(x) for x in e))


class FLeft:
    """functions module whose col() resolves marked names through the left operand's DataFrame object"""

    def __init__(self, F, left):
        self._F, self._left = F, left

    def col(self, name):
        return self._left[name[3:]] if name.startswith("@L:") else self._F.col(name)

    def __getattr__(self, k):
        return getattr(self._F, k)


def step_coq(st):
    st = e_plain(st)
    if st[0] == "where":
        return f"(OWhere {rel.e_coq(st[1])})"
    if st[0] == "select":
        return "(OSelect " + listlit([f"({rel.e_coq(e)}, {strlit(n)})" for e, n in st[1]]) + ")"
    if st[0] == "distinct":
        return "ODistinct"
    if st[0] == "orderBy":     # explicit NULL placement: ascending nulls first / descending nulls last (Spark's defaults)
        return "(OOrderBy " + listlit([f"(mkKey (ECol {strlit(c)}) {boollit(d)} {boollit(not d)})" for c, d in st[1]]) + ")"
    if st[0] == "limit":
        return f"(OLimit {natlit(st[1])})"
    raise ValueError(st)


def tree_coq(t):
    if t[0] == "in":
        return f"(TIn {natlit(t[1])})"
    if t[0] == "ops":
        return f"(TOps {listlit([step_coq(s) for s in t[1]])} {tree_coq(t[2])})"
    return f"(TSet {CALL_COQ[t[1]]} {tree_coq(t[2])} {tree_coq(t[3])})"


def e_str_l(e):
    return rel.e_str(e_marked(e)).replace("@L:", "LEFT.")


def step_str(st):
    if has_lcol(st):
        if st[0] == "where":
            return f"where({e_str_l(st[1])})"
        return "select(" + ", ".join(f"{e_str_l(e)} as {n}" for e, n in st[1]) + ")"
    if st[0] == "where":
        return f"where({rel.e_str(st[1])})"
    if st[0] == "select":
        return "select(" + ", ".join(n if e == ("col", n) else f"{rel.e_str(e)} as {n}" for e, n in st[1]) + ")"
    if st[0] == "orderBy":
        return "orderBy(" + ", ".join(f"{c}.{'desc_nulls_last' if d else 'asc_nulls_first'}()" for c, d in st[1]) + ")"
    if st[0] == "limit":
        return f"limit({st[1]})"
    return "distinct()"


def tree_str(t):
    if t[0] == "in":
        return f"df{t[1]}"
    if t[0] == "ops":
        return tree_str(t[2]) + "".join("." + step_str(s) for s in t[1])
    if t[1] == "unionByNameAllow":
        return f"{tree_str(t[2])}.unionByName({tree_str(t[3])}, allowMissingColumns=True)"
    return f"{tree_str(t[2])}.{t[1]}({tree_str(t[3])})"


def apply_step(df, st, F, left=None):
    if has_lcol(st):
        FL = FLeft(F, left)
        if st[0] == "where":
            return df.where(rel.e_sf(e_marked(st[1]), FL))
        return df.select(*[left[e[1]] if e == ("lcol", n) else rel.e_sf(e_marked(e), FL).alias(n) for e, n in st[1]])
    if st[0] == "where":
        return df.where(rel.e_sf(st[1], F))
    if st[0] == "select":
        return df.select(*[F.col(n) if e == ("col", n) else rel.e_sf(e, F).alias(n) for e, n in st[1]])
    if st[0] == "distinct":
        return df.distinct()
    if st[0] == "orderBy":
        return df.orderBy(*[F.col(c).desc_nulls_last() if d else F.col(c).asc_nulls_first() for c, d in st[1]])
    if st[0] == "limit":
        return df.limit(st[1])
    raise ValueError(st)


def build(t, dfs, F, memo=None):
    """the DataFrame program of a tree.  memo=None: every occurrence of a subtree is built by its own calls;
    memo={}: equal subtrees are one Python object (df = ...; df.op(df))."""
    return build2(t, dfs, F, memo)[0]


def build2(t, dfs, F, memo=None):
    """-> (DataFrame, the DataFrame object steps may address columns through: the left operand of a set operation)"""
    if memo is not None and t in memo:
        return memo[t]
    if t[0] == "in":
        d = left = dfs[t[1]]
    elif t[0] == "ops":
        d, left = build2(t[2], dfs, F, memo)
        for st in t[1]:
            d = apply_step(d, st, F, left)
    else:
        (l, _), (r, _) = build2(t[2], dfs, F, memo), build2(t[3], dfs, F, memo)
        if t[1] == "unionByName":
            d = l.unionByName(r)
        elif t[1] == "unionByNameAllow":
            d = l.unionByName(r, allowMissingColumns=True)
        else:
            d = getattr(l, t[1])(r)
        left = l
    if memo is not None:
        memo[t] = (d, left)
    return d, left


def schema_of(names):
    return ", ".join(f"{n} {'string' if n in STR_COLS else 'bigint'}" for n in names)


# ---- T2: export the WITH list the implementation built (fail-closed) -------------------------------------------

UUID_RE = re.compile(r"^([0-9a-f]{32}|a[0-9]+)$")      # replaced in run() by the pattern T1 regenerates from the source


def _split_where(sel, exp):
    """(conjuncts without uuid filters, has uuid filter)"""
    w = sel.args.get("where")
    if w is None:
        return [], False
    keep, uuid = [], False
    for c in rel.flatten_and(w.this, exp):
        if isinstance(c, exp.EQ) and isinstance(c.this, exp.Literal) and isinstance(c.expression, exp.Literal) \
                and c.this.is_string and c.expression.is_string and c.this.this == c.expression.this \
                and UUID_RE.match(c.this.this):
            uuid = True
        else:
            keep.append(c)
    return keep, uuid


def _values_sig(values):
    v = values.copy()
    v.set("alias", None)
    cols = [c.name for c in (values.args["alias"].columns if values.args.get("alias") else [])]
    return repr(cols) + v.sql()


def x_block_from(sel, exp, cte_names, values_alias):
    """a SELECT over one CTE or over VALUES -> (Coq block, uuid flag, Coq xref)"""
    if not isinstance(sel, exp.Select):
        raise rel.NotExportable(f"operand is {type(sel).__name__}, not a SELECT")
    allowed = {"expressions", "from", "where", "distinct", "order", "limit", "with", "kind", "hint"}
    for k, v in sel.args.items():
        if v and k not in allowed:
            raise rel.NotExportable(f"select arg {k}")
    if sel.args.get("hint") or sel.args.get("with"):
        raise rel.NotExportable("hint / nested WITH")
    frm = sel.args.get("from")
    if frm is None:
        raise rel.NotExportable("no FROM")
    conj, uuid = _split_where(sel, exp)
    if isinstance(frm.this, exp.Values):
        alias = frm.this.alias
        if alias not in values_alias:
            # a de-duplicated copy of a createDataFrame CTE carries a fresh alias for its VALUES (4720ddd): it is the
            # input whose VALUES it repeats; accepted only under the uuid filter and when exactly one input has that text
            sig = _values_sig(frm.this)
            same = [i for a, i in values_alias.items() if a == "sig:" + sig or a.startswith("sig:" + sig + "#dup")]
            if not uuid or len(same) != 1:
                raise rel.NotExportable(f"VALUES {alias} is not one of the case's inputs")
            values_alias = dict(values_alias)
            values_alias[alias] = same[0]
        plain = sel.copy()
        rest = [c for c in conj if not (isinstance(c, exp.Boolean) and c.this is False)]
        if rest:
            raise rel.NotExportable("createDataFrame block has a WHERE")
        plain.set("where", None)
        names = rel.x_values_block(plain, exp)
        blk = "(pass_block " + listlit([strlit(n) for n in names]) + ")"
        return blk, uuid, f"(XIn {natlit(values_alias[alias])})"
    if not isinstance(frm.this, exp.Table) or frm.this.name not in cte_names or frm.this.args.get("db"):
        raise rel.NotExportable("FROM is not a CTE of this query")
    ws = [rel.x_expr(c, exp, cte_names) for c in conj]
    items = [rel.x_item(i, exp, cte_names) for i in sel.expressions]
    dist = sel.args.get("distinct")
    if dist is not None and dist.args.get("on"):
        raise rel.NotExportable("distinct on")
    ks = []
    if sel.args.get("order"):
        for o in sel.args["order"].expressions:
            if not isinstance(o, exp.Ordered) or o.args.get("nulls_first") is None:
                raise rel.NotExportable("order key without explicit direction / null placement")
            ks.append(f"(mkKey {rel.x_expr(o.this, exp, cte_names)} {boollit(bool(o.args.get('desc')))} "
                      f"{boollit(bool(o.args.get('nulls_first')))})")
    lim_t = "None"
    if sel.args.get("limit") is not None:
        le = sel.args["limit"].expression
        if not isinstance(le, exp.Literal) or le.is_string:
            raise rel.NotExportable("limit is not a literal")
        lim_t = f"(Some {natlit(int(le.this))})"
    blk = f"(mkBlock {listlit(ws)} {listlit(items)} {boollit(dist is not None)} {listlit(ks)} {lim_t})"
    return blk, uuid, f"(XName {strlit(frm.this.name)})"


def x_body(node, exp, cte_names, values_alias, uuid=False):
    klass = {"Union": "KUnion", "Intersect": "KIntersect", "Except": "KExcept"}
    t = type(node).__name__
    frm = node.args.get("from") if isinstance(node, exp.Select) else None
    if frm is not None and isinstance(frm.this, exp.Subquery):
        # a de-duplicated set-operation CTE: SELECT <its columns> FROM (<set operation>) AS _dedup WHERE 'uuid' = 'uuid'
        inner = frm.this.this
        if type(inner).__name__ not in klass or not frm.this.alias:
            raise rel.NotExportable("subquery that is not a de-duplicated set operation")
        for k, v in node.args.items():
            if v and k not in ("expressions", "from", "where"):
                raise rel.NotExportable(f"de-duplicating select arg {k}")
        conj, has_uuid = _split_where(node, exp)
        if conj or not has_uuid:
            raise rel.NotExportable("de-duplicating select without exactly the uuid filter")
        if not all(isinstance(e, exp.Column) and not e.table for e in node.expressions) \
                or [e.name for e in node.expressions] != list(inner.named_selects):
            raise rel.NotExportable("de-duplicating select does not select the set operation's columns in order")
        return x_body(inner, exp, cte_names, values_alias, uuid=True)
    if t in klass:
        for k, v in node.args.items():
            if v and k not in ("this", "expression", "distinct", "with"):
                raise rel.NotExportable(f"set operation arg {k}")
        d = node.args.get("distinct")
        if not isinstance(d, bool):
            raise rel.NotExportable(f"set operation distinct={d!r}")
        bl, ul, fl = x_block_from(node.this, exp, cte_names, values_alias)
        br, ur, fr = x_block_from(node.expression, exp, cte_names, values_alias)
        if ul or ur:
            raise rel.NotExportable("uuid filter inside a set operation operand")
        return f"(XSet {klass[t]} {boollit(d)} {boollit(uuid)} {bl} {fl} {br} {fr})"
    blk, uuid, ref = x_block_from(node, exp, cte_names, values_alias)
    return f"(XSel {blk} {boollit(uuid)} {ref})"


def export_query(expression, exp, values_alias):
    ctes = list(expression.ctes)
    cte_names = [c.alias for c in ctes]
    items = [f"({strlit(c.alias)}, {x_body(c.this, exp, cte_names, values_alias)})" for c in ctes]
    main = expression.copy()
    main.set("with", None)
    return f"(mkXQuery {listlit(items)} {x_body(main, exp, cte_names, values_alias)})"


# ---- cases ------------------------------------------------------------------------------------------------------

def _lower_names(tables, tree):
    if any(c != c.lower() for cols, _ in tables for c in cols):
        return False

    def ok(t):
        if t[0] == "in":
            return True
        if t[0] == "ops":
            return ok(t[2]) and all(n == n.lower() for st in t[1] if st[0] == "select" for _, n in st[1])
        return ok(t[2]) and ok(t[3])
    return ok(tree)


class Case:
    def __init__(self, tables, tree, post="none", share=False, origin="", respell=None):
        used = sorted(inputs_used(tree))
        m = {old: new for new, old in enumerate(used)}
        self.tables = [(list(tables[i][0]), [tuple(r) for r in tables[i][1]]) for i in used]
        self.tree = remap(tree, m)
        self.post = post
        self.share = share
        self.origin = origin
        # respell = {input index: names}: what the Spark spec is evaluated on when an operand spells a column with
        # another letter case than the left operand (Spark matches case-insensitively and keeps the left spelling)
        self.spec_cols = {m[i]: list(ns) for i, ns in (respell or {}).items() if i in m}
        # SQL identifiers are lower-cased by sqlframe; T2 compares names exactly, so it is applied to lower-case cases
        # ... and to cases whose inputs can be told apart by their VALUES text (a de-duplicated copy is recognised by it)
        self.t2 = _lower_names(self.tables, self.tree) and len({repr(t) for t in self.tables}) == len(self.tables)

    def spec_tables(self):
        return [(self.spec_cols.get(i, cols), rows) for i, (cols, rows) in enumerate(self.tables)]

    def key(self):
        return repr((self.tables, self.tree, self.post, self.share))

    def text(self):
        return tree_str(self.tree) + (".groupBy(*cols).count()" if self.post == "groupcount" else "")

    def to_json(self):
        return {"program": self.text(), "tables": [{"cols": c, "rows": [list(r) for r in rs]} for c, rs in self.tables],
                "tree": self.tree, "post": self.post, "share": self.share,
                "spec_cols": {str(i): ns for i, ns in self.spec_cols.items()}}

    @staticmethod
    def from_json(j):
        tabs = [(t["cols"], [tuple(r) for r in t["rows"]]) for t in j["tables"]]
        c = Case(tabs, _tup(j["tree"]), j.get("post", "none"), j.get("share", False),
                 respell={int(i): ns for i, ns in (j.get("spec_cols") or {}).items()})
        return c


def coq_case(case: Case, exported, impl):
    ins = listlit([rel.frame_coq(c, rs) for c, rs in case.spec_tables()])
    post = "PGroupCount" if case.post == "groupcount" else "PNone"
    return f"(mkSCase {ins} {tree_coq(case.tree)} {post} {exported} {impl})"


def result_coq(cols, rows):
    return f"(Some ({listlit([strlit(c) for c in cols])}, {listlit([rel.row_coq(tuple(r)) for r in rows])}))"


def run_impl(case: Case, session, F, exp):
    """-> (exported Coq term or 'None', impl Coq term or 'None', info dict).
    CTE names are 8-digit prefixes of a crc32; the model assumes they do not collide inside one query.  A chance
    collision involving a uuid-filtered CTE (fresh uuid = fresh hash on every construction) shows as DuckDB's
    'Duplicate CTE name': such a run is repeated (counted in the evidence); a collision that persists is reported."""
    for attempt in range(3):
        exported, impl, info = _run_impl_once(case, session, F, exp)
        info["hash_collision_retries"] = attempt
        if not (info["exc"] and "Duplicate CTE name" in info["exc"]):
            break
    return exported, impl, info


def _run_impl_once(case: Case, session, F, exp):
    info = {"exc": None, "export_note": None, "sql": None}
    exported, impl = "None", "None"
    try:
        dfs, aliases = [], {}
        for i, (cols, rows) in enumerate(case.tables):
            d = session.createDataFrame(rows, schema_of(cols))
            dfs.append(d)
            aliases[d.expression.args["from"].this.alias] = i
            sig = "sig:" + _values_sig(d.expression.args["from"].this)
            aliases[sig + ("" if sig not in aliases else f"#dup{i}")] = i
        d = build(case.tree, dfs, F, {} if case.share else None)
        if not case.share and case.t2:
            try:
                exported = "(Some " + export_query(d.expression, exp, aliases) + ")"
            except rel.NotExportable as ne:
                info["export_note"] = str(ne)
        if case.post == "groupcount":
            d = d.groupBy(*d.columns).count()
        cols = list(d.columns)
        rows = d.collect()
        if rows and list(rows[0].__fields__) != cols:
            info["columns_vs_row_fields"] = [cols, list(rows[0].__fields__)]
        impl = result_coq(cols, rows)
        info["got"] = {"columns": cols, "rows": [list(r) for r in rows]}
    except rel.NotExportable:
        raise
    except Exception as ex:
        info["exc"] = f"{type(ex).__name__}: {str(ex)[:160]}"
    return exported, impl, info


VERDICT = "verdict(t2,impl=model,impl=spec,model=spec,in_domain,impl_raised,model_raises,spec_defined)"


def evaluate(ctx, tag, cases, session, F, exp):
    import time
    items, infos = [], []
    t0 = time.time()
    for c in cases:
        exported, impl, info = run_impl(c, session, F, exp)
        items.append(coq_case(c, exported, impl))
        info["exported"] = exported != "None"
        infos.append(info)
    t1 = time.time()
    res = ctx.cases(tag, HEADER, items, per_file=60, result_ty="str", fn="check")
    ctx.log(f"{tag}: {len(cases)} cases, implementation {t1 - t0:.1f}s, Coq evaluation {time.time() - t1:.1f}s")
    # rows right, only the letter case of the column names differs?
    cand = [(k, respelled_item(c, infos[k])) for k, c in enumerate(cases)
            if res[k] is not None and len(res[k]) == 8 and res[k][7] == "1" and res[k][5] == "0" and res[k][2] == "0"]
    cand = [(k, it) for k, it in cand if it is not None]
    if cand:
        r2 = ctx.cases(tag + "sp", HEADER, [it for _, it in cand], per_file=60, result_ty="str", fn="check")
        for (k, _), v2 in zip(cand, r2):
            infos[k]["spelling_only"] = bool(v2 is not None and len(v2) == 8 and v2[2] == "1")
    return items, infos, res


def expected_columns(case: Case):
    ns = names_of(case.tree, case.spec_tables())
    return ns + ["count"] if case.post == "groupcount" else ns


def respelled_item(case: Case, info):
    """if collect()'s columns differ from Spark's only in letter case: the same case with the columns re-spelled
    (to let Coq decide whether the spelling is the ONLY difference)"""
    got = info.get("got")
    if not got:
        return None
    exp_cols = expected_columns(case)
    if got["columns"] != exp_cols and [c.lower() for c in got["columns"]] == [c.lower() for c in exp_cols]:
        return coq_case(case, "None", result_coq(exp_cols, [tuple(r) for r in got["rows"]]))
    return None


def signature(case: Case, v, info):
    t2, im, isp, ms, dom, raised, mraise, specdef = (ch == "1" for ch in v)
    if info.get("spelling_only"):
        return "C07/columns-lose-left-spelling:" + ("unionByName-allowMissingColumns" if "unionByNameAllow" in calls_in(case.tree)
                                                    else "+".join(sorted(set(calls_in(case.tree)))))
    if raised:
        exc = (info["exc"] or "?").split(":")[0]
        if exc == "AttributeError" and "'where'" in (info["exc"] or "") and shares_setop(case.tree):
            return "C07/raises:AttributeError:operands-share-a-set-operation-ancestor"
        return f"C07/raises:{exc}:{root_call(case.tree)}"
    got = info.get("got") or {}
    return f"C07/result-differs:{'+'.join(sorted(set(calls_in(case.tree)))) or 'none'}" + \
        (":groupcount" if case.post == "groupcount" else "")


# ---- generators -------------------------------------------------------------------------------------------------

def gen_steps(rnd, names, n):
    g = []
    ns = list(names)
    for _ in range(n):
        k = rnd.random()
        if k < 0.4:
            c = rnd.choice(ns)
            e = rnd.choice([("isnull", ("col", c)), ("not", ("isnull", ("col", c))),
                            ("bin", "Gt", ("col", c), ("lit", 1)), ("bin", "Le", ("col", c), ("lit", 1)),
                            ("bin", "Eq", ("col", c), ("col", rnd.choice(ns))),
                            ("bin", "NullSafeEq", ("col", c), ("col", rnd.choice(ns)))])
            g.append(("where", e))
        elif k < 0.75:
            kind = rnd.random()
            if kind < 0.35:
                perm = ns[:]
                rnd.shuffle(perm)
                g.append(("select", tuple((("col", c), c) for c in perm)))
                ns = perm
            elif kind < 0.6:
                fresh = [x for x in ["a", "b", "c", "x", "y", "z"] if x not in ns]
                c = rnd.choice(ns)
                new = rnd.choice(fresh)
                items = tuple((("col", x), new if x == c else x) for x in ns)
                g.append(("select", items))
                ns = [n for _, n in items]
            elif kind < 0.8 and len(ns) > 1:
                keep = ns[:]
                keep.remove(rnd.choice(ns))
                g.append(("select", tuple((("col", c), c) for c in keep)))
                ns = keep
            else:
                c = rnd.choice(ns)
                e = rnd.choice([("bin", "Add", ("col", c), ("lit", 1)), ("coalesce", ("col", c), ("lit", 0)),
                                ("if", ("isnull", ("col", c)), ("lit", 1), ("lit", None))])
                items = tuple((e if x == c else ("col", x), x) for x in ns)
                g.append(("select", items))
        else:
            g.append(("distinct",))
    return tuple(g), ns


def fit(rnd, t, names, target_names, by_name):
    """append a select so that `t` (with `names`) becomes union-compatible with target_names"""
    if by_name:
        if sorted(names) == sorted(target_names):
            return t
        perm = list(target_names)
        rnd.shuffle(perm)
        src = list(names)
        items = []
        for i, n in enumerate(perm):
            items.append((("col", src[i]) if i < len(src) else ("lit", None), n))
        return ("ops", (("select", tuple(items)),), t)
    if len(names) == len(target_names):
        return t
    items = []
    fresh = [x for x in ["p", "q", "r", "s", "u", "v"]]
    for i in range(len(target_names)):
        if i < len(names):
            items.append((("col", names[i]), names[i]))
        else:
            items.append((("lit", None), f"p{i}"))
    return ("ops", (("select", tuple(items)),), t)


def gen_tree(rnd, tables, d, shared=None):
    """random tree of set-operation depth <= d; `shared` = subtrees already built (common ancestors)"""
    shared = shared if shared is not None else []
    if d == 0 or rnd.random() < 0.15:
        if shared and rnd.random() < 0.45:
            t = rnd.choice(shared)
        else:
            t = ("in", rnd.choice([i for i in range(len(tables)) if not set(tables[i][0]) & STR_COLS]))
        if rnd.random() < 0.35:
            st, _ = gen_steps(rnd, names_of(t, tables), rnd.randint(1, 2))
            t = ("ops", st, t)
        return t
    l = gen_tree(rnd, tables, d - 1, shared)
    if l[0] != "set" or rnd.random() < 0.5:
        shared = shared + [l if l[0] != "ops" else l[2]]
    r = gen_tree(rnd, tables, rnd.randint(0, d - 1), shared)
    call = rnd.choice(CALLS)
    ln, rn_ = names_of(l, tables), names_of(r, tables)
    if call == "unionByName":
        r = fit(rnd, r, rn_, ln, True)
    elif call != "unionByNameAllow":
        r = fit(rnd, r, rn_, ln, False)
    t = ("set", call, l, r)
    if rnd.random() < 0.3:
        st, _ = gen_steps(rnd, names_of(t, tables), rnd.randint(1, 2))
        t = ("ops", st, t)
    return t


def make_cases(ctx, rnd):
    quick = ctx.tier == "quick"
    cases = []
    tabs = FIXED + random_tables(rnd, 5 if quick else 12)
    ab = [i for i, (n, _) in enumerate(tabs) if n == ["a", "b"]]
    two = [i for i, (n, _) in enumerate(tabs) if len(n) == 2]
    # corpus: shapes that matter / failed before
    cor = [
        ("set", "union", ("in", 1), ("in", 1)),
        ("set", "intersectAll", ("ops", (("where", ("isnull", ("col", "a"))),), ("in", 1)), ("in", 1)),
        ("set", "exceptAll", ("in", 1), ("ops", (("where", ("isnull", ("col", "a"))),), ("in", 1))),
        ("set", "intersectAll", ("in", 3), ("in", 3)),
        ("set", "exceptAll", ("set", "union", ("in", 1), ("in", 1)), ("in", 1)),
        ("set", "union", ("set", "union", ("in", 1), ("in", 2)), ("set", "union", ("in", 1), ("in", 2))),
        ("set", "intersect", ("ops", (("where", ("isnull", ("col", "a"))),), ("set", "unionAll", ("in", 1), ("in", 2))),
         ("set", "unionAll", ("in", 1), ("in", 2))),
        ("set", "unionByName", ("in", 1), ("in", 5)),
        ("set", "unionByNameAllow", ("in", 1), ("in", 6)),
        ("set", "unionByNameAllow", ("in", 7), ("in", 1)),
        ("set", "exceptAll", ("set", "intersectAll", ("in", 3), ("in", 1)), ("set", "intersect", ("in", 2), ("in", 4))),
    ]
    for t in cor:
        cases.append(Case(tabs, t, origin="corpus"))
    cases.append(Case(tabs, ("set", "unionByNameAllow", ("in", T_ID), ("in", 6)), origin="corpus"))
    cases.append(Case(tabs, ("set", "intersectAll", ("ops", (("where", ("isnull", ("col", "a"))),), ("set", "union", ("in", 1), ("in", 2))),
                             ("set", "union", ("in", 1), ("in", 2))), share=True, origin="corpus"))
    cases.append(Case(tabs, cor[5], share=True, origin="corpus"))
    cases.append(Case(tabs, cor[4], share=True, origin="corpus"))
    # bounded-exhaustive: every method x ordered pairs of operand tables (same table twice = common ancestor)
    pool = ab[:3] + [4] if quick else ab[:4] + [4, 5] + ab[4:]
    for call in CALLS:
        for i in pool:
            for j in pool:
                l, r = ("in", i), ("in", j)
                if call == "unionByName" and sorted(tabs[i][0]) != sorted(tabs[j][0]):
                    continue
                cases.append(Case(tabs, ("set", call, l, r), origin="pairs"))
    # every method x (derived from the same DataFrame by a step) and followed by further steps / groupBy().count()
    p_null = ("isnull", ("col", "a"))
    k_follow = 0
    for call in CALLS:
        for i in (ab[1:3] if quick else ab[1:6]):
            base = ("in", i)
            flt = ("ops", (("where", p_null),), base)
            sel = ("ops", (("select", ((("col", "b"), "a"), (("col", "a"), "b"))),), base)
            for l, r in ((flt, base), (base, flt), (flt, flt), (base, sel), (sel, base)):
                t = ("set", call, l, r)
                if not valid(t, tabs):
                    continue
                cases.append(Case(tabs, t, origin="common-ancestor"))
                n0 = names_of(t, tabs)
                follow = [Case(tabs, t, post="groupcount", origin="common-ancestor"),
                          Case(tabs, ("ops", (("where", ("not", p_null)), ("distinct",)), t), origin="common-ancestor"),
                          Case(tabs, ("ops", (("select", tuple((("col", c), c) for c in reversed(n0))), ("distinct",)), t),
                               origin="common-ancestor")]
                if quick:
                    k_follow = (k_follow + 1) % 3
                    cases.append(follow[k_follow])
                else:
                    cases.extend(follow)
        for i in (two[:2] if quick else two[:4]):
            for j in (two[2:4] if quick else two[:5]):
                t = ("set", call, ("in", i), ("in", j))
                if valid(t, tabs):
                    cases.append(Case(tabs, t, post="groupcount", origin="pairs"))
    # an operand that ends in ORDER BY (total) + LIMIT: the receiver must be frozen before the operator node is built
    for call in CALLS:
        for i, j in ((1, 2), (3, 1)):
            top2 = ("ops", (("orderBy", (("a", False), ("b", True))), ("limit", 2)), ("in", i))
            cases.append(Case(tabs, ("set", call, top2, ("in", j)), origin="ordered-operand"))
            if not quick or call in ("exceptAll", "intersectAll"):
                cases.append(Case(tabs, ("set", call, ("in", j), top2), origin="ordered-operand"))
                cases.append(Case(tabs, ("set", call, ("ops", (("orderBy", (("b", True), ("a", False))),), ("in", i)), ("in", j)),
                                  origin="ordered-operand"))
    # unionByName(allowMissingColumns=True): several columns missing on the left (right order not alphabetical) / on the right
    for i, j in ((T_KV, T_VZKC), (T_VZKC, T_KV), (1, T_ZAYB), (T_ZAYB, 2), (6, T_VZKC), (T_ZAYB, T_VZKC), (8, T_ZAYB)):
        t = ("set", "unionByNameAllow", ("in", i), ("in", j))
        n0 = names_of(t, tabs)
        cases.append(Case(tabs, t, origin="byname-missing"))
        cases.append(Case(tabs, t, post="groupcount", origin="byname-missing"))
        cases.append(Case(tabs, ("ops", (("select", tuple((("col", c), c) for c in n0[-2:])), ("distinct",)), t), origin="byname-missing"))
        if len(n0) == 4:      # the result is used positionally by the next operation
            cases.append(Case(tabs, ("set", "exceptAll", t, ("in", T_VZKC)), origin="byname-missing"))
            cases.append(Case(tabs, ("ops", (("where", ("not", ("isnull", ("col", "y")))),),
                                     ("set", "union", ("in", T_ZAYB), t)), origin="byname-missing"))
    # spelling: names come from the LEFT operand exactly as the left spells them (df.columns compared exactly)
    for call in POSITIONAL:
        for l, r in ((T_ID, T_IDR), (T_IDR, T_ID), (T_ID, 1)):
            t = ("set", call, ("in", l), ("in", r))
            n0 = names_of(t, tabs)
            cases.append(Case(tabs, t, origin="spelling"))
            if call in ("union", "exceptAll") or not quick:
                cases.append(Case(tabs, t, post="groupcount", origin="spelling"))
                cases.append(Case(tabs, ("ops", (("where", ("bin", "Ge", ("col", n0[0]), ("lit", 2))),), t), origin="spelling"))
    for call in ("unionByName", "unionByNameAllow"):
        cases.append(Case(tabs, ("set", call, ("in", T_ID), ("in", T_AMT)), origin="spelling"))
        cases.append(Case(tabs, ("set", call, ("in", T_ID), ("in", T_AMTR)), origin="spelling", respell={T_AMTR: ["Amount", "Id"]}))
        cases.append(Case(tabs, ("set", call, ("in", T_IDR), ("in", T_AMT)), origin="spelling", respell={T_AMT: ["AMOUNT", "id"]}))
    cases.append(Case(tabs, ("set", "unionByNameAllow", ("in", T_ID), ("in", 1)), origin="spelling"))
    cases.append(Case(tabs, ("set", "unionByNameAllow", ("in", 1), ("in", T_ID)), origin="spelling"))
    # operands derived from ONE DataFrame by the same steps, textually identical up to the letter case (or a trailing
    # blank) of a string literal: their CTEs must get different names -- "same name => same content" is what the
    # de-duplication of _add_ctes_to_expression (and the model) rely on
    def lit_eq(v):
        return ("bin", "Eq", ("col", "s"), ("lit", v))
    twins = []
    for v1, v2 in (("x", "X"), ("X", "x"), ("x", "x "), ("a", "A")):
        twins.append(((("where", lit_eq(v1)),), (("where", lit_eq(v2)),)))
        twins.append(((("select", ((("col", "a"), "a"), (("lit", v1), "s"))),), (("select", ((("col", "a"), "a"), (("lit", v2), "s"))),)))
        twins.append(((("where", ("not", ("isnull", ("col", "a")))), ("select", ((("col", "a"), "a"), (("if", lit_eq(v1), ("lit", "y"), ("col", "s")), "s")))),
                      (("where", ("not", ("isnull", ("col", "a")))), ("select", ((("col", "a"), "a"), (("if", lit_eq(v2), ("lit", "y"), ("col", "s")), "s"))))))
        twins.append(((("where", lit_eq(v1)), ("distinct",), ("where", ("bin", "Gt", ("col", "a"), ("lit", 0)))),
                      (("where", lit_eq(v2)), ("distinct",), ("where", ("bin", "Gt", ("col", "a"), ("lit", 0))))))
    k_tw = 0
    for sl, sr in twins:
        for call in POSITIONAL + ["unionByName"]:
            k_tw += 1
            if quick and k_tw % 3 and call not in ("union", "exceptAll"):
                continue
            base = ("in", T_S1)
            l, r = ("ops", sl, base), ("ops", sr, base)
            t = ("set", call, l, r)
            cases.append(Case(tabs, t, origin="literal-case"))
            if k_tw % 2:      # at depth: another operand in between / the twin inside the right operand
                cases.append(Case(tabs, ("set", call, ("set", "union", l, ("in", T_S2)), r), origin="literal-case"))
            else:
                cases.append(Case(tabs, ("set", "unionAll", ("in", T_S2), ("set", call, l, r)), post="groupcount", origin="literal-case"))
    # follow-up steps that address a column through the left operand's DataFrame object (left_df["col"]) and by name
    for call in CALLS:
        byn = call.startswith("unionByName")
        for l, r in ((("in", 1), ("in", 5 if byn else 2)),
                     (("ops", (("where", ("not", ("isnull", ("col", "b")))),), ("in", 3)), ("in", 5 if byn else 1)),
                     (("in", T_ID), ("in", T_AMT if byn else T_IDR))):
            t = ("set", call, l, r)
            a, b = names_of(l, tabs)[:2]
            cases.append(Case(tabs, ("ops", (("where", ("bin", "Ge", ("lcol", a), ("lit", 1))),), t), origin="left-ref"))
            if call in ("union", "intersectAll", "unionByName") or not quick:
                cases.append(Case(tabs, ("ops", (("where", ("bin", "Or", ("isnull", ("lcol", a)), ("bin", "Gt", ("col", b), ("lit", 2)))),
                                                 ("distinct",)), t), origin="left-ref"))
                cases.append(Case(tabs, ("ops", (("select", ((("lcol", b), b), (("bin", "Add", ("lcol", a), ("col", b)), "s"))),), t),
                                  origin="left-ref"))
    # every ordered pair of methods nested left / right (depth 2) on fixed operands
    k_nest = 0
    for c1 in POSITIONAL:
        for c2 in POSITIONAL:
            k_nest += 1
            if not quick or k_nest % 2:
                cases.append(Case(tabs, ("set", c2, ("set", c1, ("in", 1), ("in", 2)), ("in", 3)), origin="nest2"))
            if not quick or not k_nest % 2:
                cases.append(Case(tabs, ("set", c2, ("in", 3), ("set", c1, ("in", 2), ("in", 1))), origin="nest2"))
    # random trees, depth <= 3, independent and common-ancestor operands, steps in between
    n_rand = 110 if quick else 2000
    tries = 0
    while n_rand > 0 and tries < 50000:
        tries += 1
        d = rnd.choice([1, 2, 2, 3, 3])
        t = gen_tree(rnd, tabs, d)
        if t[0] == "in" or not valid(t, tabs) or depth(t) > 3 or not calls_in(t):
            continue
        post = "groupcount" if rnd.random() < 0.2 else "none"
        cases.append(Case(tabs, t, post=post, share=rnd.random() < 0.15, origin="random"))
        n_rand -= 1
    seen, out = set(), []
    for c in cases:
        if c.key() not in seen:
            seen.add(c.key())
            out.append(c)
    return out


# ---- shrinking --------------------------------------------------------------------------------------------------

def shrink_candidates(case: Case):
    """smaller variants of a case: a subtree instead of the tree, a step dropped, the post dropped, one row dropped"""
    tabs = case.tables
    out = []

    def subtrees(t):
        if t[0] == "ops":
            yield t[2]
            for i in range(len(t[1])):
                yield ("ops", t[1][:i] + t[1][i + 1:], t[2]) if len(t[1]) > 1 else t[2]
            for s in subtrees(t[2]):
                yield ("ops", t[1], s)
        elif t[0] == "set":
            yield t[2]
            yield t[3]
            for s in subtrees(t[2]):
                yield ("set", t[1], s, t[3])
            for s in subtrees(t[3]):
                yield ("set", t[1], t[2], s)

    for s in subtrees(case.tree):
        if s[0] != "in" and calls_in(s) and (valid(s, tabs) or case.spec_cols):
            out.append(Case(tabs, s, case.post, case.share, respell=case.spec_cols))
    if case.post != "none":
        out.append(Case(tabs, case.tree, "none", case.share, respell=case.spec_cols))
    if case.share:
        out.append(Case(tabs, case.tree, case.post, False, respell=case.spec_cols))
    for ti, (cols, rows) in enumerate(tabs):
        for ri in range(len(rows)):
            nt = [(c, list(r)) for c, r in tabs]
            nt[ti] = (cols, rows[:ri] + rows[ri + 1:])
            c2 = Case.__new__(Case)
            c2.tables, c2.tree, c2.post, c2.share, c2.origin = nt, case.tree, case.post, case.share, "shrunk"
            c2.spec_cols, c2.t2 = case.spec_cols, case.t2
            out.append(c2)
    return out


def dev_kind(v, info):
    """coarse kind of a deviation: which exception, or a differing result"""
    if v[5] == "1":
        return "raise:" + (info.get("exc") or "?").split(":")[0]
    return "spelling" if info.get("spelling_only") else "differs"


def shrink(ctx, case, kind, tag, session, F, exp, rounds=8):
    """greedy: smallest variant that is still a deviation of the same kind (the signature is recomputed afterwards)"""
    cur = case
    for k in range(rounds):
        cands = shrink_candidates(cur)[:60]
        if not cands:
            break
        _, infos, res = evaluate(ctx, f"c07shrink{tag}_{k}", cands, session, F, exp)
        nxt = None
        for c, info, v in zip(cands, infos, res):
            if v is None or len(v) != 8:
                continue
            bad = v[7] == "1" and (v[5] == "1" or v[2] != "1")
            if bad and dev_kind(v, info) == kind:
                nxt = c
                break
        if nxt is None:
            break
        cur = nxt
    return cur


# ---- the check --------------------------------------------------------------------------------------------------

def describe(case, v, info, item):
    d = case.to_json()
    d[VERDICT] = v
    d["exception"] = info.get("exc")
    d["got"] = info.get("got")
    d["export_note"] = info.get("export_note")
    d["coq_case"] = item
    return d


def run(ctx: core.Ctx):
    # ---- T1
    t1_ok = True
    try:
        text1, facts1 = c01_facts.generate(core.REPO)
        ctx.gen("C01Facts", text1, [dict(fa, name="C01." + fa["name"]) for fa in facts1])
    except Exception as ex:
        ctx.broken("T1:c01_facts", f"{type(ex).__name__}: {ex}")
        t1_ok = False
        ctx.gen("C01Facts", open(core.VERIF + "/translate/c01_facts_pinned.v").read())
    try:
        text7, facts7 = c07_facts.generate(core.REPO)
        ctx.gen("C07Facts", text7, facts7)
        global UUID_RE
        UUID_RE = re.compile([fa["literal_pattern"] for fa in facts7 if "literal_pattern" in fa][0])
        t7_ok = True
    except Exception as ex:
        ctx.broken("T1:c07_facts", f"{type(ex).__name__}: {ex}")
        t7_ok = False
        ctx.gen("C07Facts", open(core.VERIF + "/translate/c07_facts_pinned.v").read())
    # ---- proofs
    deps = ["Base/Val.v", "Base/Expr.v", "Base/Sort.v", "Sql/Block.v", "Sql/Norm.v", "Model/Chain.v", "Model/ChainProof.v",
            "C07/Bag.v", "C07/SetModel.v", "C07/SetProof.v", "C07/SetCheck.v"]
    gen_files = [ctx.build + "/gen/C01Facts.v", ctx.build + "/gen/C07Facts.v"]
    proved = ctx.prove(gen_files + ([core.COQ + "/props/C07.v"] if (t1_ok and t7_ok) else []), dep_theories=deps)
    proved = proved and t1_ok and t7_ok

    # ---- T2 / T3
    from sqlframe.duckdb import DuckDBSession
    import sqlframe.duckdb.functions as F
    from sqlglot import expressions as exp
    session = DuckDBSession()
    try:
        session._conn.execute("PRAGMA threads=1")
    except Exception:
        pass
    rnd = random.Random(ctx.seed)
    cases = make_cases(ctx, rnd)
    items, infos, res = evaluate(ctx, "c07", cases, session, F, exp)
    hist_call, hist_depth, hist_origin, hist_mult = {}, {}, {}, {}
    n_raise = n_t2 = n_exportable = n_dom = n_nontriv = n_invalid = n_common = n_null = 0
    n_retries = sum(i.get("hash_collision_retries", 0) for i in infos)
    model_fail, t2_fail, devs = [], [], {}
    for c, it, info, v in zip(cases, items, infos, res):
        for cl in calls_in(c.tree):
            hist_call[cl] = hist_call.get(cl, 0) + 1
        hist_depth[depth(c.tree)] = hist_depth.get(depth(c.tree), 0) + 1
        hist_origin[c.origin] = hist_origin.get(c.origin, 0) + 1
        for _, rows in c.tables:
            cnt = {}
            for r in rows:
                cnt[r] = cnt.get(r, 0) + 1
            for m in cnt.values():
                hist_mult[min(m, 4)] = hist_mult.get(min(m, 4), 0) + 1
            if not rows:
                hist_mult[0] = hist_mult.get(0, 0) + 1
        if v is None or len(v) != 8:
            continue
        t2, im, isp, ms, dom, raised, mraise, specdef = (ch == "1" for ch in v)
        n_raise += raised
        n_t2 += t2
        n_exportable += info["exported"]
        n_dom += dom
        has_null = any(any(x is None for x in r) for _, rows in c.tables for r in rows)
        has_dup = any(len(set(rows)) < len(rows) for _, rows in c.tables)
        n_null += has_null
        common = len(c.tables) < len(_leaves(c.tree))
        n_common += common
        if (has_null or has_dup) and info.get("got") and info["got"]["rows"]:
            n_nontriv += 1
        d = describe(c, v, info, it)
        if not specdef:
            n_invalid += 1
            continue
        if raised or not isp:
            devs.setdefault(signature(c, v, info), []).append((c, v, info, it))
        elif not im:
            model_fail.append(d)
        elif not t2 and info["exported"]:
            t2_fail.append(d)
        elif not info["exported"] and not c.share and c.t2 and info.get("export_note"):
            t2_fail.append(d)
        if proved and dom and not mraise and not ms and not any(b["name"] == "theorem-vs-evaluation" for b in ctx.brokens):
            ctx.broken("theorem-vs-evaluation", "in-domain case where the model's SQL and the Spark spec evaluate differently", data=[d])
        if len(ctx.samples) < 5 and depth(c.tree) >= 2 and c.origin == "random" and not raised:
            ctx.sample({"program": c.text(), "tables": c.tables, "verdict": v})
    ctx.log(f"{len(cases)} cases, {n_raise} raised, {n_invalid} outside Spark's domain, deviations: "
            + ", ".join(f"{s} x{len(l)}" for s, l in devs.items()))
    known = {k["signature"] for k in ctx.known if k.get("status", "known") == "known"}
    groups = []
    for sig, lst in devs.items():
        lst.sort(key=lambda x: (len(x[0].text()), sum(len(r) for _, r in x[0].tables)))
        groups.append((sig, lst))
    groups.sort(key=lambda g: (g[0] in known, len(g[1][0][0].text())))
    reported, n_shrunk = set(), 0
    for sig, lst in groups:
        c, v, info, it = lst[0]
        if sig not in known and n_shrunk < 3:
            n_shrunk += 1
            small = shrink(ctx, c, dev_kind(v, info), n_shrunk, session, F, exp)
            if small is not c:
                its, infs, rs = evaluate(ctx, f"c07min{n_shrunk}", [small], session, F, exp)
                if rs[0] is not None and len(rs[0]) == 8:
                    c, v, info, it = small, rs[0], infs[0], its[0]
                    sig = signature(c, v, info)
        if sig in reported:
            continue
        reported.add(sig)
        d = describe(c, v, info, it)
        d["occurrences_in_this_run"] = len(lst)
        d["spark_spec_answer"] = ctx.coq_eval(
            HEADER, f"let k := {it} in option_map (observe (sc_post k)) (spark_eval (sc_inputs k) (sc_tree k))")[-1500:]
        what = (f"{c.text()} raises {info['exc']}" if v[5] == "1"
                else f"{c.text()}: collect()/columns differ from PySpark's result")
        ctx.deviation(sig, what, d)
    if model_fail:
        ctx.broken("T3:impl-vs-model", f"{len(model_fail)} cases where collect() equals the Spark spec but not the model's SQL; "
                   f"first: {model_fail[0]['program']}", data=model_fail[:5])
    if t2_fail:
        first = t2_fail[0]
        first["model_query"] = ctx.coq_eval(
            HEADER, f"let k := {first['coq_case']} in option_map (fun p => query_of (fst p)) "
                    "(compile gen_cfg gen_facts (map cols (sc_inputs k)) (sc_tree k) 0)")[-3000:]
        ctx.broken("T2:tree-vs-model", f"{len(t2_fail)} programs whose exported WITH list differs from the model's; "
                   f"first: {first['program']} ({first.get('export_note')})", data=t2_fail[:5])

    # ---- spec conformance: the Coq Spark spec against results recorded from PySpark 3.5.9
    rec_path = os.path.join(core.VERIF, "oracle", "c07_pyspark.jsonl")
    n_rec = n_rec_bad = n_rec_err = 0
    if os.path.exists(rec_path):
        ritems, rmeta = [], []
        for line in open(rec_path):
            rc = json.loads(line)
            c = Case.from_json(rc)
            if rc.get("error"):
                impl = "None"
            else:
                impl = result_coq(rc["result"]["columns"], [tuple(r) for r in rc["result"]["rows"]])
            ritems.append(coq_case(c, "None", impl))
            rmeta.append(rc)
        rres = ctx.cases("c07rec", HEADER, ritems, per_file=80, result_ty="str", fn="check")
        bad = []
        for rc, r in zip(rmeta, rres):
            if r is None or len(r) != 8:
                continue
            n_rec += 1
            if rc.get("error"):
                n_rec_err += 1
                if r[7] == "1":           # PySpark refuses, the spec gives a result
                    bad.append(rc)
            elif r[2] != "1":
                bad.append(rc)
        n_rec_bad = len(bad)
        if bad:
            ctx.broken("spec-conformance", f"{len(bad)} recorded PySpark results differ from the Coq Spark spec; first: "
                       f"{bad[0]['program']}", data=bad[:5])
    else:
        ctx.broken("spec-conformance", "oracle/c07_pyspark.jsonl is missing")
    ctx.coverage.update({
        "evaluations": len(cases), "distinct_nontrivial": n_nontriv,
        "rule": "case = (tree of set operations and steps, operand tables, final observation); pairs: all 7 call forms x "
                "ordered pairs of operand tables (same table twice = common ancestor); common-ancestor: operands derived "
                "from one DataFrame by where/select, followed by where/select/distinct/groupBy().count(); nest2: every ordered "
                "pair of positional methods nested left and right; random: trees of set-operation depth <= 3 with shared "
                "subtrees and steps in between; tables over {NULL,1,2}^2 with multiplicities 0..3 plus fixed tables and the "
                "empty table; non-trivial = some operand has a NULL or a duplicate row and the result is non-empty; distinct "
                "by (tables, tree, observation, object sharing)",
        "t2_structurally_equal": n_t2, "t2_exportable": n_exportable, "in_theorem_domain": n_dom,
        "cases_with_common_ancestor": n_common, "cases_with_null": n_null, "outside_spark_domain": n_invalid,
        "histogram_call": hist_call, "histogram_setop_depth": hist_depth, "histogram_origin": hist_origin,
        "histogram_row_multiplicity(4=4+)": hist_mult, "impl_raised": n_raise,
        "runs_repeated_after_a_chance_crc32_name_collision": n_retries,
        "pyspark_recordings_checked": n_rec, "pyspark_recordings_disagree": n_rec_bad, "pyspark_recorded_errors": n_rec_err,
    })
    ctx.assumptions += [
        "C07.SetModel.eval_query / setop_frames are my definition of DuckDB's WITH-list and UNION/INTERSECT/EXCEPT [ALL] "
        "evaluation (positional matching, names of the first operand, NULL = NULL); validated by T3 only",
        "C07.SetModel.spark_eval is my definition of PySpark's union/unionByName/intersect/intersectAll/exceptAll, "
        "validated against PySpark 3.5.9 recordings (oracle/c07_pyspark.jsonl)",
        "CTE names: crc32-of-text names are modelled as the text itself (collision-free inside one query; T2 compares the "
        "collision pattern of every exported query with the model's); uuid4 values are fresh",
        "Sql.Block.eval_block is the C01 definition of a SELECT block (validated by C01/T3 and here)",
    ]


def _leaves(t):
    return [t[1]] if t[0] == "in" else _leaves(t[2]) if t[0] == "ops" else _leaves(t[2]) + _leaves(t[3])


def replay(ctx: core.Ctx, rp: dict) -> int:
    r = rp.get("replay") or (rp.get("no_longer_checks") or [{}])[0].get("data", [{}])[0]
    case = Case.from_json(r)
    from sqlframe.duckdb import DuckDBSession
    import sqlframe.duckdb.functions as F
    session = DuckDBSession()
    dfs = [session.createDataFrame(rows, schema_of(cols)) for cols, rows in case.tables]
    print("program:", case.text())
    for i, (cols, rows) in enumerate(case.tables):
        print(f"df{i} = createDataFrame({rows}, {schema_of(cols)!r})")
    if r.get("pyspark"):
        print("PySpark 3.5.9:", r["pyspark"])
    try:
        d = build(case.tree, dfs, F, {} if case.share else None)
        if case.post == "groupcount":
            d = d.groupBy(*d.columns).count()
        print("sql:", d.sql(optimize=False))
        print("columns:", d.columns)
        print("collect():", d.collect())
    except Exception as ex:
        print("raises:", type(ex).__name__, ex)
    print("verdict recorded:", r.get(VERDICT))
    return 0
