"""C18 worker: executes ONE trace of construction steps / actions in ONE fresh process and ONE DuckDBSession.

stdin : JSON {"trace": [step, ...], "dump": bool}
stdout: one JSON line {"steps": [observation per step], "final": {...}}

Runs with PYTHONPATH=<repo under test> (never /verif), so it must not import vlib.
A step is a dict; "o" is the owner ("P" or "H"); handles are strings (by convention p0.. for P, h0.. for H).
  create  dst tbl                  session.createDataFrame(TABLES[tbl])
  select  dst src cols             cols: [colref]        colref = {"q": null | ["name", x] | ["frame", handle], "c": col}
  where   dst src col k            src.where(colref > k)
  alias   dst src name
  join    dst l r on how           on = ["expr", colref, colref] | ["names", [c, ...]]
  union   dst l r
  view    src name                 createOrReplaceTempView
  sql     dst view cols            session.sql("select <cols|*> from <view>")
  collect|count|show|schema|columns|sqltext src      actions
  bad     src kind                 an action that raises (missing column / missing view / bad join column)
operations outside the Coq model's alphabet (compared between runs only):
  table   dst view                 session.table(view)
  unionbyname dst l r allow        l.unionByName(r, allowMissingColumns=allow)
  reader  dst chain                a kept reader object: r = session.read[.option...]; csv steps may name it with "reader"
  csv     dst file chain kw        session.read[.option(k, v) | .options(**d) | .format(f)]*.csv(path, **kw)  /  .load(path) when kw == "load"
  api     dst src name args        one call of the wider DataFrame API (see API below)
"""
import io
import json
import re
import sys
import contextlib

TABLES = {
    "T1": ("a bigint, b bigint", [(1, 2), (3, 4), (3, 5), (None, 6)]),
    "T2": ("a bigint, c bigint", [(1, 10), (3, 30), (7, 70)]),
    "T3": ("c bigint, d bigint, e bigint", [(5, 6, 7), (1, 1, 1)]),
    "T4": ("b bigint, a bigint", [(2, 1), (9, 3)]),
    "T5": ("b bigint, z bigint, a bigint", [(2, 0, 1), (4, 0, 3)]),
}

FILES = {
    "F1": "k,note\n1,x\n2,z\n",
    "F2": "a;b\n1;NA\n3;4\n",
    "F3": "p,q,r\n1,2,3\n4,5,6\n7,8,9\n",
}

UUID = re.compile(r"'([0-9a-f]{32})'")
DEDUP = re.compile(r"'([^']+)' = '\1'")          # the disambiguating filter of a de-duplicated CTE


def canon_text(sql, dialect):
    """Normalise ONLY the disambiguating uuid literals and the CTE hash names that (transitively) depend on them."""
    uu = []
    for m in UUID.finditer(sql):
        if m.group(1) not in uu:
            uu.append(m.group(1))
    if not uu:
        return sql, 0
    import sqlglot
    from sqlglot import exp
    tree = sqlglot.parse_one(sql, dialect=dialect)
    tainted = []
    for cte in tree.ctes:
        body = cte.this.sql(dialect=dialect)
        if UUID.search(body) or any(re.search(r"\b" + re.escape(t) + r"\b", body) for t in tainted):
            tainted.append(cte.alias_or_name)
    out = sql
    for k, u in enumerate(uu):
        out = out.replace(u, f"UUID{k}")
    # rename tainted names in order of definition
    for k, t in enumerate(tainted):
        out = re.sub(r"\b" + re.escape(t) + r"\b", f"TAINTED{k}", out)
    return out, len(uu)


def main():
    job = json.load(sys.stdin)
    from sqlframe.duckdb import DuckDBSession
    import sqlframe.duckdb.functions as F
    from sqlglot import exp

    s = DuckDBSession()
    env = {}
    import atexit
    import shutil
    import tempfile
    fdir = []

    def fpath(name):
        if not fdir:
            import os
            d = os.environ.get("C18_FILES")      # one directory per check run, so that the path is the same in every process
            if d and os.path.isdir(d):
                fdir.append(d)
            else:
                d = tempfile.mkdtemp(prefix="c18_files_", dir="/var/tmp")
                fdir.append(d)
                atexit.register(shutil.rmtree, d, True)
                for k, v in FILES.items():
                    with open(d + "/" + k + ".csv", "w") as f:
                        f.write(v)
        return fdir[0] + "/" + name + ".csv"

    def nodir(x):
        return x.replace(fdir[0], "<DIR>") if fdir and isinstance(x, str) else x

    def api(df, name, a):
        if name == "withColumn":
            return df.withColumn(a["new"], F.col(a["c"]) + 1)
        if name == "withColumnRenamed":
            return df.withColumnRenamed(a["c"], a["new"])
        if name == "drop":
            return df.drop(*a["cols"])
        if name == "distinct":
            return df.distinct()
        if name == "orderBy":
            return df.orderBy(*a["cols"])
        if name == "limit":
            return df.limit(a["n"])
        if name == "selectstar":
            return df.select("*")
        if name == "groupby_agg_dict":
            return df.groupBy(a["by"]).agg({c: f for c, f in a["aggs"]})
        if name == "groupby_count":
            return df.groupBy(*a["by"]).count()
        if name == "agg_funcs":
            return df.groupBy(*a["by"]).agg(*[getattr(F, f)(c).alias(f + "_" + c) for c, f in a["aggs"]])
        if name == "fillna_dict":
            return df.fillna({c: v for c, v in a["values"]})
        if name == "dropna":
            return df.dropna(subset=a["cols"])
        if name == "dropDuplicates":
            return df.dropDuplicates(a["cols"])
        if name == "replace_dict":
            return df.replace({k: v for k, v in a["map"]}, subset=a["cols"])
        if name == "toDF":
            return df.toDF(*a["names"])
        if name == "select_exprs":
            return df.select(*[(F.col(c) * 2).alias(n) for c, n in a["pairs"]])
        raise ValueError("unknown api recipe " + name)

    def colref(r):
        q = r["q"]
        if q is None:
            return F.col(r["c"])
        if q[0] == "name":
            return F.col(q[1] + "." + r["c"])
        if q[0] == "frame":
            return env[q[1]][r["c"]]
        raise ValueError(q)

    def regs():
        views = []
        try:
            views = sorted(x[0] for x in s._conn.execute(
                "select view_name from duckdb_views() where not internal").fetchall())
        except Exception:
            pass
        return {
            "known": len(s.known_ids), "kbranch": len(s.known_branch_ids), "kseq": len(s.known_sequence_ids),
            "amap": {k: len(v) for k, v in s.name_to_sequence_id_mapping.items()},
            "counter": s.incrementing_id,
            "views": list(s.temp_views.keys()),
            "scache": {k: list(v.keys()) for k, v in s.catalog._schema.mapping.items()},
            "engine_views": len(views),
        }

    def dump(df):
        """structure of a frame: ctes as (name, branch class, sequence class, cols), select qualifiers as cte index"""
        e = df.expression
        ids = {}

        def cls(x):
            return ids.setdefault(x, len(ids))
        names = [c.alias_or_name for c in e.ctes]
        ctes = [[cls(c.args["branch_id"]), cls(c.args["sequence_id"]), ["^" if n in names else n for n in c.this.named_selects]]
                for c in e.ctes]

        def idx(t):
            if not t:
                return None
            return names.index(t) if t in names else "?" + ("id" if re.fullmatch(r"r[0-9a-f]{32}", t) else t)
        sel = []
        for x in e.expressions:
            cols = list(x.find_all(exp.Column))
            sel.append([idx(cols[0].table) if cols else None, "^" if x.alias_or_name in names else x.alias_or_name])
        frm = e.args.get("from")
        ftab = frm.this.alias_or_name if frm is not None else None
        joins = []
        for j in e.args.get("joins") or []:
            on = j.args.get("on")
            joins.append([idx(j.this.alias_or_name), [idx(c.table) for c in on.find_all(exp.Column)] if on else []])
        wh = e.args.get("where")
        whq = [idx(c.table) for c in wh.find_all(exp.Column)] if wh else []
        nuu = len(set(DEDUP.findall(e.sql(dialect="spark"))))
        return {"ctes": ctes, "from": idx(ftab) if ftab in names else "values", "joins": joins, "where": whq, "sel": sel,
                "branch": cls(df.branch_id), "seq": cls(df.sequence_id), "last_op": int(df.last_op), "uuids": nuu,
                "distinct_names": len(set(names)) == len(names)}

    def rows_of(df):
        return sorted([[v for v in r] for r in df.collect()], key=lambda r: json.dumps(r, default=str))

    out = []
    for st in job["trace"]:
        op = st["op"]
        ob = {"ok": True}
        try:
            if op == "create":
                sch, rows = TABLES[st["tbl"]]
                env[st["dst"]] = s.createDataFrame(rows, sch)
            elif op == "select":
                env[st["dst"]] = env[st["src"]].select(*[colref(c) for c in st["cols"]])
            elif op == "where":
                env[st["dst"]] = env[st["src"]].where(colref(st["col"]) > st["k"])
            elif op == "alias":
                env[st["dst"]] = env[st["src"]].alias(st["name"])
            elif op == "join":
                on = st["on"]
                cond = (colref(on[1]) == colref(on[2])) if on[0] == "expr" else list(on[1])
                env[st["dst"]] = env[st["l"]].join(env[st["r"]], on=cond, how=st.get("how", "inner"))
            elif op == "union":
                env[st["dst"]] = env[st["l"]].union(env[st["r"]])
            elif op == "unionbyname":
                env[st["dst"]] = env[st["l"]].unionByName(env[st["r"]], allowMissingColumns=bool(st.get("allow")))
            elif op == "table":
                env[st["dst"]] = s.table(st["view"])
            elif op == "mktable":
                s._conn.execute(f"CREATE OR REPLACE TABLE {st['name']} AS SELECT * FROM (VALUES (1, 10), (2, 20), (3, 30)) t(k, v)")
            elif op == "newsession":
                # other work constructs / configures "a session" with ANOTHER connection (the session is a process-wide singleton)
                import duckdb
                other = duckdb.connect()
                other.execute(f"CREATE TABLE {st.get('name', 'tt')} AS SELECT * FROM (VALUES (7, 70)) t(k, v)")
                env.setdefault("__conns__", []).append(other)
                if st["how"] == "ctor":
                    s2 = DuckDBSession(conn=other)
                elif st["how"] == "builder":
                    s2 = DuckDBSession.builder.config("sqlframe.conn", other).getOrCreate()
                else:
                    s2 = DuckDBSession()
                ob["rows"] = s2 is s
            elif op == "api":
                env[st["dst"]] = api(env[st["src"]], st["name"], st.get("args") or {})
            elif op == "reader":
                rd = s.read
                for c in st.get("chain") or []:
                    rd = rd.option(c[1], c[2]) if c[0] == "option" else rd.options(**c[1]) if c[0] == "options" else rd.format(c[1])
                env[st["dst"]] = rd          # a reader OBJECT that is kept and used for several reads
            elif op == "csv":
                rd = env[st["reader"]] if st.get("reader") else s.read
                for c in st.get("chain") or []:
                    if c[0] == "option":
                        rd = rd.option(c[1], c[2])
                    elif c[0] == "options":
                        rd = rd.options(**c[1])
                    elif c[0] == "format":
                        rd = rd.format(c[1])
                if st.get("kw") == "load":
                    env[st["dst"]] = rd.load(fpath(st["file"]))
                else:
                    env[st["dst"]] = rd.csv(fpath(st["file"]), **(st.get("kw") or {}))
            elif op == "view":
                env[st["src"]].createOrReplaceTempView(st["name"])
            elif op == "sql":
                cols = "*" if st["cols"] is None else ", ".join(st["cols"])
                env[st["dst"]] = s.sql(f"select {cols} from {st['view']}")
            elif op == "collect":
                ob["rows"] = rows_of(env[st["src"]])
                ob["names"] = list(env[st["src"]].columns)
            elif op == "count":
                ob["rows"] = env[st["src"]].count()
            elif op == "show":
                buf = io.StringIO()
                with contextlib.redirect_stdout(buf):
                    env[st["src"]].show()
                ob["rows"] = buf.getvalue()
            elif op == "topandas":
                pdf = env[st["src"]].toPandas()
                ob["rows"] = sorted([[None if v != v else (v.item() if hasattr(v, "item") else v) for v in r] for r in pdf.values.tolist()],
                                    key=lambda r: json.dumps(r, default=str))
                ob["names"] = list(pdf.columns)
            elif op == "toarrow":
                tb = env[st["src"]].toArrow()
                ob["rows"] = sorted([list(r.values()) for r in tb.to_pylist()], key=lambda r: json.dumps(r, default=str))
                ob["names"] = list(tb.column_names)
            elif op == "schema":
                ob["rows"] = env[st["src"]].schema.simpleString()
            elif op == "columns":
                ob["rows"] = list(env[st["src"]].columns)
            elif op == "sqltext":
                df = env[st["src"]]
                raw = nodir(df.sql(optimize=False, pretty=False))
                ob["raw"] = raw
                ob["text"], ob["nuuid"] = canon_text(raw, "spark")
                try:
                    o = nodir(df.sql(pretty=False))
                    ob["opt"], _ = canon_text(o, "spark")
                except Exception as ex:
                    ob["opt"] = "RAISES:" + type(ex).__name__
            elif op == "bad":
                k = st["kind"]
                if k == "missing_col":
                    env[st["src"]].select("zz_missing").collect()
                elif k == "missing_view":
                    s.sql("select * from zz_missing_view").collect()
                elif k == "bad_join":
                    env[st["src"]].join(env[st["src"]], on="zz_missing")
                elif k == "alias_then_missing":
                    env[st["src"]].alias(st.get("name", "zz")).select("zz_missing").collect()
                elif k == "div_zero_cast":
                    env[st["src"]].select(F.lit("x").cast("bigint").alias("q")).collect()
                else:
                    raise ValueError(k)
            elif op == "tables":
                # what the catalog API reports: listTables(), listTables(pattern='*'), per-database listing of every database
                cat = s.catalog
                rep = {"default": sorted(t.name for t in cat.listTables()),
                       "star": sorted(t.name for t in cat.listTables(pattern="*"))}
                alln = set()
                for db in cat.listDatabases():
                    try:
                        for t in cat.listTables(f"{db.catalog}.{db.name}"):
                            alln.add(t.name)
                    except Exception:
                        pass
                rep["all_dbs"] = sorted(alln)
                ob["rows"] = rep
            else:
                raise ValueError("unknown op " + op)
        except Exception as ex:  # noqa
            ob = {"ok": False, "err": type(ex).__name__, "msg": nodir(str(ex))[:160]}
        if job.get("dump"):
            ob["regs"] = regs()
            d = st.get("dst")
            if d and d in env and ob["ok"]:
                try:
                    ob["frame"] = dump(env[d])
                except Exception as ex:  # noqa
                    ob["frame"] = {"dump_error": type(ex).__name__ + ": " + str(ex)[:100]}
        out.append(ob)
    print(json.dumps({"steps": out, "final": regs()}, default=str))


if __name__ == "__main__":
    main()
