"""C17 -- shared by the recorder (oracle/record_c17.py, PySpark side) and the check (checks/c17.py, DuckDB side):
the typed test table, the per-function argument templates (a small hand table of argument KINDS; how an argument is
passed -- column name, Column, raw Python literal -- follows from the template token), the builder that turns a
template into a real call on either library, and the canonicaliser of returned values.

A template is a list of tokens:
    "x"          the table column x, passed as a column NAME (ColumnOrName position)
    L(v)         the raw Python literal v
    Lit(v)       F.lit(v)
    E("...")     a Python expression over F (the function module of the library under test), e.g. E("F.col('j') + 1")
    KW(name, tok) keyword argument
    Tag("kind")  not an argument: the kind of input this template stands for (e.g. "index-expression"), so that a finding
                 is identified by (function, aspect, kind of input) and not by which template numbers happen to fail
"""
from __future__ import annotations

import datetime
import decimal
import math
import struct as _struct

D = datetime.date
T = datetime.datetime

# ---------------------------------------------------------------------------------------------------------------
# the table: 5 ordinary rows (no NULL except column n1, which exists for the coalesce family) + 1 all-NULL row
# ---------------------------------------------------------------------------------------------------------------
SCHEMA = [
    ("id", "bigint"), ("i", "bigint"), ("j", "bigint"), ("ji", "int"), ("k", "bigint"), ("n1", "bigint"),
    ("x", "double"), ("y", "double"), ("p", "double"), ("u", "double"),
    ("s", "string"), ("t", "string"), ("w", "string"), ("kc", "bigint"), ("b64", "string"), ("hx", "string"),
    ("d", "date"), ("e", "date"), ("ts", "timestamp"), ("ds", "string"), ("dsf", "string"), ("tss", "string"),
    ("ep", "bigint"), ("yr", "bigint"), ("mo", "bigint"), ("dy", "bigint"),
    ("a", "array<bigint>"), ("b", "array<bigint>"), ("sa", "array<string>"), ("aa", "array<array<bigint>>"),
    ("bo", "boolean"), ("js", "string"),
]
COLS = [c for c, _ in SCHEMA]
DDL = ", ".join(f"{c} {ty}" for c, ty in SCHEMA)

_R = [
    # id i   j  k   n1    x      y     p       u     s              t      w          kc  b64         hx
    (1, 7, 2, 2, 5, 1, 2.5, 0.5, 0.5, 0.25, "hello world", "lo", "  pad  ", 65, "aGVsbG8=", "4A4B",
     D(2024, 1, 31), D(2024, 3, 15), T(2024, 1, 31, 13, 45, 10, 123456), "2024-01-31", "31/01/2024", "2024-01-31 13:45:10",
     1706708710, 2024, 1, 31, [3, 1, 2], [2, 9], ["b", "a", "c"], [[1, 2], [3]], True, '{"a":1,"b":"x"}'),
    (2, -3, 1, 1, 0, None, -0.75, 3.0, 2.0, -0.5, "Spark SQL", "SQL", "x", 97, "U3Bhcms=", "00FF",
     D(2023, 3, 5), D(2022, 12, 25), T(2023, 3, 5, 0, 0, 0), "2023-03-05", "05/03/2023", "2023-03-05 00:00:00",
     1677974400, 2023, 3, 5, [5, 5, 4, 1], [1, 5], ["x", "y", "z", "w"], [[4]], False, '{"a":2,"b":"y"}'),
    (3, 12, 3, 3, 20, 3, 10.0, -2.0, 100.0, 0.9, "abcabc", "bc", " y", 122, "YWJj", "616263",
     D(2020, 2, 29), D(2021, 2, 28), T(2020, 2, 29, 23, 59, 59, 500000), "2020-02-29", "29/02/2020", "2020-02-29 23:59:59",
     1583020799, 2020, 2, 29, [10], [10, 11], ["q"], [[5], [6, 7]], True, '{"a":3,"b":"z"}'),
    (4, 0, 2, 2, 3, None, 3.5, 1.5, 1e-10, 0.0, "a,b,,c", ",", "zz ", 48, "YSxi", "2C",
     D(2021, 12, 31), D(2022, 1, 1), T(2021, 12, 31, 12, 0, 0, 999), "2021-12-31", "31/12/2021", "2021-12-31 12:00:00",
     1640952000, 2021, 12, 31, [2, 2], [3], ["m", "n"], [[8, 9]], False, '{"a":4,"b":"w"}'),
    (5, 7, 1, 1, 1, 5, -2.5, 4.0, 7.25, 1.0, "Zz", "q", "w w", 33, "Wno=", "5A7A",
     D(2019, 7, 4), D(2019, 7, 4), T(2019, 7, 4, 6, 7, 8), "2019-07-04", "04/07/2019", "2019-07-04 06:07:08",
     1562220428, 2019, 7, 4, [7, 8, 9], [9, 8, 7], ["k", "l", "j"], [[1], [1]], True, '{"a":5,"b":"v"}'),
]
ROWS = [tuple(r) for r in _R] + [tuple([6] + [None] * (len(SCHEMA) - 1))]
NULL_ROW_INDEX = 5
for _r in ROWS:
    assert len(_r) == len(SCHEMA), (len(_r), len(SCHEMA))


class L:      # raw python literal
    def __init__(self, v): self.v = v
class Lit:    # F.lit(v)
    def __init__(self, v): self.v = v
class E:      # python expression over F
    def __init__(self, src): self.src = src
class KW:
    def __init__(self, name, tok): self.name, self.tok = name, tok
class Tag:    # names the KIND of input a template exercises; becomes the last component of a finding's signature
    def __init__(self, name): self.name = name


# ---------------------------------------------------------------------------------------------------------------
# templates.  ROW functions are evaluated per row of the table (6 argument tuples incl. the NULL probe);
# AGG functions over the 5 ordinary rows and over the NULL row alone.
# ---------------------------------------------------------------------------------------------------------------
def _same(names, templates):
    return {n: templates for n in names}


ROW: dict[str, list[list]] = {}
ROW.update(_same(["abs"], [["x"], ["i"]]))
ROW.update(_same(["acos", "asin"], [["u"]]))
ROW.update(_same(["atan", "cbrt", "ceil", "ceiling", "cos", "cot", "degrees", "exp", "floor", "radians", "sign", "signum",
                  "sin", "tan", "toDegrees", "toRadians", "isnan"], [["x"]]))
ROW.update(_same(["expm1"], [["x"], ["p"]]))
ROW.update(_same(["rint"], [["x"], ["y"]]))
ROW.update(_same(["round"], [["x"], ["x", L(1)], ["p", L(2)]]))
ROW.update(_same(["ln", "log10", "log2", "sqrt"], [["p"]]))
ROW["log1p"] = [["p"], [E("F.col('p')")]]
ROW["log"] = [["p"], [L(2.0), "p"]]
ROW["atan2"] = [["x", "y"], ["x", L(2.0)]]
ROW.update(_same(["pow", "power"], [["x", "j"], ["p", L(0.5)]]))
ROW["factorial"] = [["k"]]
ROW["bin"] = [["k"]]
ROW["hex"] = [["k"], ["s"]]
ROW["unhex"] = [["hx"]]
ROW.update(_same(["bitwiseNOT", "bitwise_not"], [["i"]]))
ROW.update(_same(["shiftleft", "shiftLeft"], [["i", L(2)]]))
ROW.update(_same(["shiftright", "shiftRight"], [["i", L(1)]]))
ROW["nanvl"] = [["x", "y"], [E("F.lit(float('nan'))"), "y"], [E("F.lit(None).cast('double')"), "y", Tag("null-first-argument")]]
ROW["e"] = [[]]
ROW.update(_same(["greatest", "least"], [["i", "j", "k"], ["x", "y"]]))
# strings
ROW.update(_same(["ascii", "base64", "bit_length", "char_length", "character_length", "lcase", "length", "lower", "md5",
                  "sha", "sha1", "soundex", "ucase", "upper"], [["s"]]))
ROW["reverse"] = [["s"], ["a", Tag("array")]]
ROW["unbase64"] = [["b64"]]
ROW["btrim"] = [["w"], ["s", "t"]]
ROW.update(_same(["ltrim", "rtrim", "trim"], [["w"]]))
ROW["char"] = [["kc"]]
ROW["concat"] = [["s", "t"], ["a", "b"]]
ROW["concat_ws"] = [[L("-"), "s", "t"]]
ROW.update(_same(["contains", "endswith", "startswith"], [["s", "t"]]))
ROW["decode"] = [[E("F.encode('s', 'UTF-8')"), L("UTF-8")]]
ROW["encode"] = [["s", L("UTF-8")]]
ROW["format_string"] = [[L("%s-%d!"), "s", "i"], [L("<%s>"), "t"]]
ROW["instr"] = [["s", L("b")], ["s", L("l")]]
ROW["levenshtein"] = [["s", "t"], ["s", "t", L(5)]]
ROW["locate"] = [[L("b"), "s"], [L("b"), "s", L(3)], [L("l"), "s", L(5)]]
ROW["lpad"] = [["s", L(12), L("*")], ["s", L(3), L("*")], ["t", L(7), L("ab")]]
ROW["rpad"] = [["s", L(12), L("*")], ["s", L(3), L("*")], ["t", L(7), L("ab")]]
ROW.update(_same(["left", "right"], [["s", "j"], ["s", Lit(4)]]))
ROW["sha2"] = [["s", L(256)], ["s", L(512), Tag("numBits-512")], ["s", L(0)]]
ROW["overlay"] = [["s", "t", L(2)], ["s", "t", L(2), L(3)], ["s", "t", "j"], ["s", "t", "j", "j"]]
ROW["position"] = [["t", "s"], ["t", "s", "j"]]
ROW.update(_same(["regexp", "regexp_like", "rlike"], [["s", Lit("[a-c]+")], ["s", Lit("^[A-Z]")]]))
ROW["regexp_extract"] = [["s", L("([a-z]+)b"), L(1)], ["s", L("[a-z]+"), L(0)]]
ROW["regexp_replace"] = [["s", L("[ab]"), L("#")], ["s", L("l+"), L("L")]]
ROW["repeat"] = [["t", L(3)], ["t", L(0)]]
ROW["replace"] = [["s", "t"], ["s", "t", Lit("_")]]
ROW["split"] = [["s", L(",")], ["s", L(","), L(2), Tag("limit")], ["s", L("[ ,]")]]
ROW["split_part"] = [["s", Lit(","), "j"], ["s", Lit(" "), Lit(1)]]
ROW["substr"] = [["s", "j"], ["s", "j", "j"]]
ROW["substring"] = [["s", L(2), L(3)], ["s", L(1), L(100)], ["s", L(-3), L(2)]]
ROW["translate"] = [["s", L("abc"), L("xyz")], ["s", L("lo"), L("L")]]
ROW["typeof"] = [["x"], ["s"]]
ROW["get_json_object"] = [["js", L("$.a")], ["js", L("$.b")]]
ROW["hash"] = [["s"], ["i"]]
# NULL handling
ROW.update(_same(["coalesce", "ifnull", "nvl"], [["n1", "i"]]))
ROW["nvl2"] = [["n1", "i", "j"]]
ROW["nullif"] = [["i", "k"], ["j", "j"]]
ROW["isnull"] = [["n1"]]
# dates and times
ROW["add_months"] = [["d", L(2)], ["d", L(-3)], ["d", "j"]]
ROW.update(_same(["date_add", "date_sub", "dateadd"], [["d", L(5), Tag("int-days")], ["d", L(-5), Tag("int-days")], ["d", "ji", Tag("column-days")]]))
ROW.update(_same(["date_diff", "datediff"], [["e", "d"]]))
ROW["date_format"] = [["ts", L("yyyy-MM-dd HH:mm:ss")], ["d", L("MM/dd/yyyy")], ["ts", L("yy-M-d H:m:s")], ["ts", L("EEE MMM")]]
ROW["date_trunc"] = [[L("month"), "ts"], [L("hour"), "ts"], [L("year"), "ts"]]
ROW.update(_same(["day", "dayofmonth", "dayofweek", "dayofyear", "month", "quarter", "weekofyear", "year"], [["d"], ["ts"], ["ds"]]))
ROW.update(_same(["hour", "minute", "second"], [["ts"], ["tss", Tag("timestamp-string")]]))
ROW["extract"] = [[Lit("YEAR"), "d"], [Lit("MONTH"), "ts"]]
ROW["from_unixtime"] = [["ep"], ["ep", L("yyyy-MM-dd")]]
ROW["last_day"] = [["d"], ["ds"]]
ROW["make_date"] = [["yr", "mo", "dy"]]
ROW["months_between"] = [["e", "d"], ["e", "d", L(False)], ["ts", "d"]]
ROW["timestamp_seconds"] = [["ep"]]
ROW["to_date"] = [["ds"], ["dsf", L("dd/MM/yyyy")], ["ts"]]
ROW["to_timestamp"] = [["tss"], ["tss", L("yyyy-MM-dd HH:mm:ss")], ["ds"]]
ROW["to_timestamp_ntz"] = [["tss"]]
ROW["to_unix_timestamp"] = [["tss"], ["tss", Lit("yyyy-MM-dd HH:mm:ss")]]
ROW["try_to_timestamp"] = [["tss"], ["tss", Lit("yyyy-MM-dd HH:mm:ss")]]
ROW["trunc"] = [["d", L("month")], ["d", L("year")]]
ROW["unix_date"] = [["d"]]
ROW.update(_same(["unix_micros", "unix_millis", "unix_seconds"], [["ts"]]))
ROW["unix_timestamp"] = [["tss"], ["tss", L("yyyy-MM-dd HH:mm:ss")], ["dsf", L("dd/MM/yyyy")]]
ROW["convert_timezone"] = [[Lit("UTC"), Lit("Asia/Tokyo"), "ts"]]
# arrays and maps
ROW["array"] = [["i", "j"], ["s", "t"]]
ROW["array_append"] = [["a", L(7)]]
ROW["array_contains"] = [["a", L(5)], ["a", E("F.col('j')")]]
ROW.update(_same(["array_distinct", "array_max", "array_min", "array_size", "array_sort", "size"], [["a"], ["sa"]]))
ROW.update(_same(["array_intersect", "array_union", "arrays_overlap"], [["a", "b"]]))
ROW["array_join"] = [["sa", L(",")], ["sa", L(""), L("?")]]
ROW["array_position"] = [["a", L(5)], ["a", L(2)], ["a", L(99)], ["sa", L("a")]]
ROW["array_remove"] = [["a", L(5)], ["a", L(2)], ["sa", L("x")]]
_LI, _CI, _IE, _TI = Tag("literal-index"), Tag("column-index"), Tag("index-expression"), Tag("typed-index")
ROW["element_at"] = [["a", L(1), _LI], ["a", L(2), _LI], ["a", L(-1), _LI], ["a", L(9), _LI], ["a", E("F.col('ji')"), _CI],
                     ["a", E("F.col('ji') + 1"), _IE], ["a", E("F.col('j').cast('int')"), _TI]]
ROW["try_element_at"] = [["a", Lit(1), _LI], ["a", Lit(-1), _LI], ["a", Lit(9), _LI], ["a", "ji", _CI], ["a", E("F.col('ji') + 1"), _IE]]
ROW["flatten"] = [["aa"]]
ROW["sequence"] = [["j", "k", Tag("default-step")], ["j", Lit(20), "j", Tag("explicit-step")], [Lit(5), Lit(1), Tag("default-step")]]
ROW["slice"] = [["a", L(1), L(2), Tag("positive-start")], ["a", L(2), L(2), Tag("positive-start")], ["a", L(2), L(9), Tag("positive-start")],
                ["a", "ji", "ji", Tag("column-arguments")], ["a", L(-2), L(2), Tag("negative-start")]]
ROW["sort_array"] = [["a"], ["a", L(False)], ["sa"]]
ROW["create_map"] = [[Lit("k"), "i"], [Lit("a"), "s", Lit("b"), "t"]]
ROW["map_from_arrays"] = [["sa", "a"]]
ROW["struct"] = [["i", "s"]]
ROW["to_json"] = [[E("F.struct('i', 's')")], [E("F.create_map(F.lit('k'), 'i')")], ["a"]]
# constructors that are functions too
ROW["col"] = [[L("i")]]
ROW["lit"] = [[L(5)], [L("x")], [L(2.5)], [L(True)], [L(None)]]
ROW["expr"] = [[L("i + 1")]]
ROW["when"] = [[E("F.col('i') > 0"), L(1)], [E("F.col('x') < 0"), Lit("neg")]]
ROW["call_function"] = [[L("abs"), "x"]]
ROW["input_file_name"] = [[]]
# Column.getItem (not a function; the index-base shift of element_at rests on it and the task lists it)
ROW["Column.getItem"] = [[E("F.col('a')"), L(0), Tag("literal-key")], [E("F.col('a')"), L(1), Tag("literal-key")],
                         [E("F.col('a')"), E("F.col('ji')"), Tag("column-key")]]

AGG: dict[str, list[list]] = {}
AGG.update(_same(["avg", "mean", "median", "kurtosis", "skewness", "stddev", "stddev_pop", "stddev_samp", "var_pop",
                  "var_samp", "variance"], [["x"], ["i"]]))
AGG.update(_same(["sum", "max", "min"], [["i"], ["x"], ["n1"]]))
AGG["max"] = [["i"], ["x"], ["s"], ["d"]]
AGG["min"] = [["i"], ["x"], ["s"], ["d"]]
AGG.update(_same(["sumDistinct", "sum_distinct", "product"], [["i"], ["j"]]))
AGG.update(_same(["approxCountDistinct", "approx_count_distinct"], [["i"], ["s"]]))
AGG.update(_same(["bool_and", "bool_or"], [["bo"]]))
AGG.update(_same(["collect_list", "collect_set"], [["i"], ["n1"], ["s"]]))
AGG.update(_same(["corr", "covar_pop", "covar_samp"], [["x", "y"]]))
AGG["count"] = [["i"], ["n1"], [L("*")]]
AGG.update(_same(["countDistinct", "count_distinct"], [["i"], ["i", "j"], ["n1"]]))
AGG["count_if"] = [[E("F.col('i') > 0")]]
AGG.update(_same(["first", "last", "any_value"], [["s"]]))
AGG["first"] = [["s"], ["n1", L(True)]]
AGG["last"] = [["s"], ["n1", L(True)]]
AGG.update(_same(["max_by", "min_by"], [["s", "x"]]))
AGG["mode"] = [["i"]]
AGG["percentile"] = [["x", L(0.5)], ["i", L(0.25)]]
AGG["percentile_approx"] = [["x", L(0.5)], ["i", L(0.25)]]

# ---------------------------------------------------------------------------------------------------------------
# boundary templates for optional / integer arguments: 0, 1, a negative value where Spark defines one, argument omitted.
# Appended (never inserted) so that the ids of the earlier templates stay stable.
# ---------------------------------------------------------------------------------------------------------------
def _more(fn, templates, table=None):
    (ROW if table is None else table).setdefault(fn, [])
    (ROW if table is None else table)[fn] = list((ROW if table is None else table)[fn]) + templates


_B = Tag("boundary-argument")
_more("overlay", [["s", "t", L(2), L(0), Tag("len-0")], ["s", "t", L(1), L(1), _B], ["s", "t", L(1), L(0), Tag("len-0")],
                  ["s", "t", L(3), L(100), _B], ["s", "t", L(20), _B]])
_more("substring", [["s", L(1), L(0), _B], ["s", L(0), L(2), Tag("pos-0")], ["s", L(1), L(1), _B], ["s", L(-1), L(5), _B], ["s", L(50), L(2), _B]])
_more("substr", [["s", Lit(0), Lit(2), Tag("pos-0")], ["s", Lit(1), Lit(0), _B], ["s", Lit(-2), _B], ["s", Lit(1), Lit(1), _B]])
for _f in ("lpad", "rpad"):
    _more(_f, [["s", L(0), L("*"), _B], ["s", L(1), L("*"), _B], ["s", L(-1), L("*"), _B], ["s", L(14), L(""), Tag("empty-pad")]])
_more("repeat", [["t", L(1), _B], ["t", L(-1), _B]])
_more("split", [["s", L(","), L(0), Tag("limit")], ["s", L(","), L(1), Tag("limit")], ["s", L(","), L(-1), _B]])
_more("slice", [["a", L(1), L(0), Tag("positive-start")], ["a", L(1), L(1), Tag("positive-start")], ["a", L(3), L(1), Tag("positive-start")],
                ["a", L(-1), L(1), Tag("negative-start")], ["a", L(1), L(100), Tag("positive-start")]])
_more("element_at", [["a", L(-2), _LI], ["a", L(3), _LI], ["sa", L(1), _LI]])
_more("try_element_at", [["a", Lit(2), _LI], ["a", Lit(-2), _LI]])
_more("Column.getItem", [[E("F.col('a')"), L(2), Tag("literal-key")], [E("F.col('a')"), L(9), Tag("literal-key")]])
_more("locate", [[L("b"), "s", L(1), _B], [L("b"), "s", L(0), Tag("pos-0")], [L("b"), "s", L(-1), _B], [L("b"), "s", L(100), _B]])
_more("round", [["x", L(0), _B], ["x", L(-1), _B], ["i", L(-1), _B], ["p", L(0), _B]])
for _f in ("date_add", "date_sub", "dateadd"):
    _more(_f, [["d", L(0), Tag("int-days")], ["d", L(1), Tag("int-days")], ["d", L(-1), Tag("int-days")]])
_more("add_months", [["d", L(0), _B], ["d", L(1), _B], ["d", L(-1), _B], ["d", L(12), _B]])
_more("levenshtein", [["s", "t", L(0), _B], ["s", "t", L(1), _B], ["s", "t", L(100), _B]])
for _f in ("left", "right"):
    _more(_f, [["s", Lit(0), _B], ["s", Lit(1), _B], ["s", Lit(-1), Tag("negative-len")], ["s", Lit(100), _B]])
_more("split_part", [["s", Lit(","), Lit(-1), _B], ["s", Lit(","), Lit(1), _B], ["s", Lit(","), Lit(9), _B]])
for _f in ("shiftleft", "shiftLeft", "shiftright", "shiftRight"):
    _more(_f, [["j", L(0), _B], ["j", L(1), _B]])
_more("regexp_extract", [["s", L("([a-z]+)([A-Z]*)"), L(2), _B]])
_more("sequence", [["j", "j", Tag("default-step")], [Lit(1), Lit(9), Lit(4), Tag("explicit-step")], [Lit(9), Lit(1), Lit(-4), Tag("explicit-step")]])
_more("array_position", [["a", L(10)], ["a", L(3)]])
_more("sort_array", [["a", L(True), _B]])
_more("array_join", [["sa", L("-"), L(""), _B]])
_more("factorial", [["j", _B], [Lit(0), _B], [Lit(20), _B], [Lit(21), Tag("beyond-20")]])
_more("months_between", [["e", "d", L(True)]])
_more("first", [["s", L(False), _B]], AGG)
_more("last", [["s", L(False), _B]], AGG)
_more("percentile", [["x", L(0.0), _B], ["x", L(1.0), _B]], AGG)
_more("percentile_approx", [["x", L(0.0), _B], ["x", L(1.0), _B]], AGG)
_more("count_if", [[E("F.col('i') > 100")]], AGG)

# ---------------------------------------------------------------------------------------------------------------
# boundary FORMAT / pattern arguments: every emulation that takes a pattern apart (in Python: format_string's split on
# %s/%d, sha2's numBits; through sqlglot's tables: the time formats of session.format_time; in the engine: units, regex
# replacement syntax, JSON paths) gets adjacent / leading / trailing / repeated / single-letter / quoted-literal pieces.
# ---------------------------------------------------------------------------------------------------------------
_P = Tag("pattern-shape")
_more("format_string", [[L("%s%s"), "s", "t", Tag("adjacent-placeholders")], [L("%s"), "s", Tag("only-placeholder")],
                        [L("%s and %s"), "s", "t", Tag("leading-placeholder")], [L("x%sy%sz"), "s", "t", _P],
                        [L("%d%d"), "i", "j", Tag("adjacent-placeholders")], [L("%s-%s-%s"), "s", "t", "w", _P],
                        [L("%s%s%s"), "s", "t", "w", Tag("adjacent-placeholders")], [L("a=%d"), "i", Tag("trailing-placeholder")],
                        [L("%s!"), "t", Tag("leading-placeholder")], [L("<%s|%d>%s"), "s", "i", "t", _P]])
_TF = Tag("time-format")
_more("date_format", [["ts", L("yyyyMMdd"), _TF], ["ts", L("HHmmss"), _TF], ["ts", L("yyyy-MM-dd'T'HH:mm:ss"), Tag("quoted-literal")],
                      ["ts", L("d/M/yy"), _TF], ["ts", L("hh:mm a"), Tag("am-pm")], ["ts", L("yyyy-MM-dd HH:mm:ss.SSS"), Tag("fraction")],
                      ["d", L("yyyy"), _TF], ["ts", L("MMMM"), _TF], ["ts", L("EEEE"), _TF], ["d", L("DDD"), Tag("day-of-year")],
                      ["ts", L("yyyy"), _TF], ["ts", L("MM"), _TF]])
_more("from_unixtime", [["ep", L("yyyyMMddHHmmss"), _TF], ["ep", L("HH:mm"), _TF], ["ep", L("dd MMM yyyy"), _TF]])
_more("to_date", [[E("F.lit('20240131')"), L("yyyyMMdd"), _TF], [E("F.lit('31.01.24')"), L("dd.MM.yy"), _TF],
                  [E("F.lit('2024/1/5')"), L("yyyy/M/d"), Tag("single-letter-fields")], [E("F.lit('Jan 31, 2024')"), L("MMM d, yyyy"), _TF]])
_more("to_timestamp", [[E("F.lit('2024-01-31T13:45:10')"), L("yyyy-MM-dd'T'HH:mm:ss"), Tag("quoted-literal")],
                       [E("F.lit('20240131 134510')"), L("yyyyMMdd HHmmss"), _TF],
                       [E("F.lit('31/01/2024 01:45 PM')"), L("dd/MM/yyyy hh:mm a"), Tag("am-pm")],
                       [E("F.lit('2024-01-31 13:45:10.123')"), L("yyyy-MM-dd HH:mm:ss.SSS"), Tag("fraction")]])
_more("unix_timestamp", [[E("F.lit('20240131134510')"), L("yyyyMMddHHmmss"), _TF], [E("F.lit('2024-01-31')"), L("yyyy-MM-dd"), _TF]])
_more("to_unix_timestamp", [[E("F.lit('20240131134510')"), Lit("yyyyMMddHHmmss"), _TF], [E("F.lit('31/01/2024')"), Lit("dd/MM/yyyy"), _TF]])
_more("try_to_timestamp", [[E("F.lit('20240131134510')"), Lit("yyyyMMddHHmmss"), _TF], [E("F.lit('not a date')"), Lit("yyyy-MM-dd"), Tag("unparsable")]])
_U = Tag("unit-spelling")
_more("date_trunc", [[L("yyyy"), "ts", _U], [L("mm"), "ts", _U], [L("day"), "ts", _U], [L("week"), "ts", _U], [L("quarter"), "ts", _U],
                     [L("minute"), "ts", _U], [L("second"), "ts", _U], [L("MONTH"), "ts", _U]])
_more("trunc", [["d", L("yyyy"), _U], ["d", L("yy"), _U], ["d", L("mm"), _U], ["d", L("mon"), _U], ["d", L("week"), _U],
                ["d", L("quarter"), _U], ["d", L("MONTH"), _U]])
_more("extract", [[Lit("DAY"), "d", _U], [Lit("HOUR"), "ts", _U], [Lit("QUARTER"), "d", _U], [Lit("SECOND"), "ts", _U]])
_more("translate", [["s", L("abc"), L(""), Tag("empty-replace")], ["s", L("ab"), L("xyz"), _P], ["s", L(""), L("x"), _P]])
_more("regexp_replace", [["s", L("(l+)"), L("[$1]"), Tag("group-reference")], ["s", L(""), L("-"), Tag("empty-pattern")], ["s", L("^"), L(">"), _P]])
_more("regexp_extract", [["s", L("(\\w+) (\\w+)"), L(2), _P], ["s", L("xyz"), L(0), Tag("no-match")]])
_more("split", [["s", L("\\s+"), _P], ["s", L("b"), _P], ["s", L(",+"), _P]])
_more("get_json_object", [["js", L("$"), Tag("root-path")], ["js", L("$.zz"), Tag("missing-key")]])
_more("concat_ws", [[L(""), "s", "t", Tag("empty-separator")], [L(", "), "s", Tag("single-column")], [L("-"), "s", "t", "w"]])
_more("sha2", [["s", L(224), Tag("numBits-224")], ["s", L(384), Tag("numBits-384")]])
_more("instr", [["s", L(""), Tag("empty-substring")], ["s", L("zzz"), _P]])
_more("replace", [["s", Lit(""), Lit("x"), Tag("empty-search")]])
_more("split_part", [["s", Lit(""), Lit(1), Tag("empty-delimiter")]])
_more("lpad", [["s", L(14), L("abc"), _P]])
_more("rpad", [["s", L(14), L("abc"), _P]])
_more("array_join", [["sa", L(", "), _P]])
_more("months_between", [["ts", "ts"], ["d", "d"]])

# ---------------------------------------------------------------------------------------------------------------
# Python-implemented UDFs (sqlframe.base.util.soundex is registered as SOUNDEX on DuckDB): inputs for each rule of the
# algorithm -- H/W between letters of one code, a vowel between them, a first letter with the code of the second, doubled
# letters, more than three codes, fewer, lower case, non-letters inside / first, the empty string, a single letter.
# ---------------------------------------------------------------------------------------------------------------
def _sx(word, tag):
    return [E("F.lit(%r)" % word), Tag(tag)]


_more("soundex", [_sx(w, "letters") for w in
                  ("Ashcraft", "Sachs", "bwhp", "Tymczak", "Pfister", "Robert", "Rupert", "Rubin", "Honeyman", "Lloyd", "Jackson",
                   "ashcraft", "Burroughs", "Wheeler", "Hh", "aeiouy", "A", "z", "BbBb", "Schmidt", "Czarkowska", "Lee", "Kuhne")] +
                 [_sx(w, "non-letters-inside") for w in ("O'Hara", "Mc-Donald", "A1b2", "ab cd", "S a-c-h s", "Van der Waals")] +
                 [_sx(w, "non-letter-first") for w in ("123abc", " abc", "-Robert")] + [_sx("", "empty")])
# slice: a negative start whose window reaches past the end of the array
_more("slice", [["a", L(-2), L(5), Tag("negative-start")], ["a", L(-3), L(9), Tag("negative-start")], ["a", L(-1), L(3), Tag("negative-start")],
                ["a", L(-4), L(2), Tag("negative-start")]])
# levenshtein: threshold equal to / one below / one above the distance (distances of (s, t) are 9, 6, 4, 5, 2)
_more("levenshtein", [["s", "t", L(9), _B], ["s", "t", L(6), _B], ["s", "t", L(4), _B], ["s", "t", L(5), _B], ["s", "t", L(2), _B], ["s", "t", L(3), _B]])
# regexp_replace: the Python-side rewriting of group references
_more("regexp_replace", [["s", L("(l)(o)"), L("$2$1"), Tag("group-reference")], ["s", L("(o)"), L("<$1$1>"), Tag("group-reference")],
                         ["s", L("o"), L("0"), _P]])

# aggregate groups: every aggregate is evaluated over each of these sub-frames (statistical aggregates special-case small samples)
AGG_GROUPS = [("5 ordinary rows", lambda F: F.col("id") <= 5), ("the all-NULL row alone", lambda F: F.col("id") == 6),
              ("1 row", lambda F: F.col("id") == 1), ("2 rows", lambda F: F.col("id") <= 2), ("3 rows", lambda F: F.col("id") <= 3)]
AGG_NULL_GROUP = 1


def run_row(df, cols):
    got = df.select("id", *cols).collect()
    got = sorted(got, key=lambda r: r[0])
    return [[canon(r[k + 1]) for r in got] for k in range(len(cols))]


def run_agg(df, F, cols):
    res = [df.where(cond(F)).agg(*cols).collect()[0] for _, cond in AGG_GROUPS]
    return [[canon(r[k]) for r in res] for k in range(len(cols))]


NOT_EXERCISED = {
    **_same(["cume_dist", "dense_rank", "lag", "lead", "nth_value", "ntile", "percent_rank", "rank", "row_number"],
            "window function: needs an OVER clause; window values are property C08's"),
    **_same(["asc", "asc_nulls_first", "asc_nulls_last", "desc", "desc_nulls_first", "desc_nulls_last"],
            "sort-order constructor, has no value of its own (ordering is C01/C08)"),
    **_same(["current_date", "current_timestamp", "now"], "clock-dependent"),
    **_same(["current_user", "user"], "environment-dependent (engine user name)"),
    "rand": "nondeterministic by contract",
    "explode": "row generator, not a value function (changes the row count)",
    "grouping_id": "only meaningful under cube/rollup (C06)",
    **_same(["_get_lambda_from_func", "_lambda_quoted", "_is_array", "_is_date", "_is_int_variant", "_is_string"],
            "private helper of sqlframe, no PySpark counterpart"),
}

# values whose element order Spark leaves unspecified (compared as multisets)
UNORDERED = {"collect_set", "collect_list", "array_union", "array_intersect", "array_distinct"}
# any_value may return any element: compared by membership in the column (Spark: first row's value)
MEMBER = {"any_value"}
# statistical aggregates / functions computed by different algorithms on the two engines: relative bound instead of ulp bound
REL_BOUND = {"avg": 1e-12, "mean": 1e-12, "kurtosis": 1e-9, "skewness": 1e-9, "stddev": 1e-12, "stddev_pop": 1e-12,
             "stddev_samp": 1e-12, "var_pop": 1e-12, "var_samp": 1e-12, "variance": 1e-12, "corr": 1e-12,
             "covar_pop": 1e-12, "covar_samp": 1e-12, "sum": 1e-14, "product": 1e-14}
ULP_BOUND = 2          # libm (glibc) vs StrictMath (fdlibm): both are < 1 ulp from the true value
# approximate by contract on both engines (HyperLogLog / quantile sketches): compared exactly here because the inputs are tiny
# (the sketches are exact below their compression thresholds)


# ---------------------------------------------------------------------------------------------------------------
# serialisation of templates -> concrete call specs (JSON) and back
# ---------------------------------------------------------------------------------------------------------------
def tok_json(tok):
    if isinstance(tok, str):
        return {"c": tok}
    if isinstance(tok, L):
        return {"v": tok.v}
    if isinstance(tok, Lit):
        return {"l": tok.v}
    if isinstance(tok, E):
        return {"e": tok.src}
    raise TypeError(tok)


def all_calls():
    """[(call_id, fn, mode, args_json, kwargs_json)] in a fixed order."""
    out = []
    for mode, table in (("row", ROW), ("agg", AGG)):
        for fn in sorted(table):
            for n, tpl in enumerate(table[fn]):
                args = [tok_json(t) for t in tpl if not isinstance(t, (KW, Tag))]
                kwargs = {t.name: tok_json(t.tok) for t in tpl if isinstance(t, KW)}
                tags = [t.name for t in tpl if isinstance(t, Tag)]
                out.append({"id": f"{fn}#{n}", "fn": fn, "mode": mode, "args": args, "kwargs": kwargs,
                            "tag": tags[0] if tags else None})
    return out


def build_arg(a, F):
    if "c" in a:
        return a["c"]
    if "v" in a:
        return a["v"]
    if "l" in a:
        return F.lit(a["l"])
    if "e" in a:
        return eval(a["e"], {"F": F, "float": float})
    raise ValueError(a)


def build_call(call, F):
    """The same call on library F (pyspark.sql.functions or sqlframe.duckdb.functions)."""
    args = [build_arg(a, F) for a in call["args"]]
    kwargs = {k: build_arg(v, F) for k, v in call["kwargs"].items()}
    if call["fn"] == "Column.getItem":
        return args[0].getItem(*args[1:])
    return getattr(F, call["fn"])(*args, **kwargs)


def call_text(call):
    def a2s(a):
        if "c" in a:
            return repr(a["c"])
        if "v" in a:
            return repr(a["v"])
        if "l" in a:
            return f"F.lit({a['l']!r})"
        return a["e"]
    parts = [a2s(a) for a in call["args"]] + [f"{k}={a2s(v)}" for k, v in call["kwargs"].items()]
    if call["fn"] == "Column.getItem":
        return f"{parts[0]}.getItem({', '.join(parts[1:])})"
    return f"F.{call['fn']}({', '.join(parts)})"


# ---------------------------------------------------------------------------------------------------------------
# canonical values (JSON): None | bool | int | str | {"f": hex} | {"date": iso} | {"ts": iso} | {"dec": str} |
#                          {"bytes": hex} | [..] | {"map": [[k, v]..]} | {"row": [[name, v]..]}
# ---------------------------------------------------------------------------------------------------------------
def canon(v):
    if v is None or isinstance(v, (bool, str)):
        return v
    if isinstance(v, int):
        return int(v)
    if isinstance(v, float):
        return {"f": "nan" if math.isnan(v) else float(v).hex()}
    if isinstance(v, decimal.Decimal):
        return {"dec": str(v)}
    if isinstance(v, datetime.datetime):
        if v.tzinfo is not None:
            v = v.astimezone(datetime.timezone.utc).replace(tzinfo=None)
        return {"ts": v.isoformat(sep=" ", timespec="microseconds")}
    if isinstance(v, datetime.date):
        return {"date": v.isoformat()}
    if isinstance(v, (bytes, bytearray)):
        return {"bytes": bytes(v).hex()}
    if isinstance(v, dict):
        return {"map": [[canon(k), canon(x)] for k, x in v.items()]}
    if hasattr(v, "asDict") and hasattr(v, "__fields__"):
        return {"row": [[f, canon(v[f])] for f in v.__fields__]}
    if isinstance(v, (list, tuple)):
        return [canon(x) for x in v]
    try:
        import numpy as np
        if isinstance(v, np.generic):
            return canon(v.item())
        if isinstance(v, np.ndarray):
            return [canon(x) for x in v.tolist()]
    except ImportError:
        pass
    return {"repr": repr(v)}


def _f(c):
    return float("nan") if c["f"] == "nan" else float.fromhex(c["f"])


def ulps(a: float, b: float) -> float:
    if math.isnan(a) or math.isnan(b):
        return 0 if (math.isnan(a) and math.isnan(b)) else math.inf
    if a == b:
        return 0
    if math.isinf(a) or math.isinf(b):
        return math.inf
    ia = _struct.unpack("<q", _struct.pack("<d", a))[0]
    ib = _struct.unpack("<q", _struct.pack("<d", b))[0]
    if ia < 0:
        ia = -(1 << 63) - ia
    if ib < 0:
        ib = -(1 << 63) - ib
    return abs(ia - ib)


def _sort_key(c):
    import json
    return json.dumps(c, sort_keys=True, default=str)


def compare(fn, spark, duck, stats=None):
    """'' when the two canonical values agree under the stated rules, else a short reason."""
    stats = stats if stats is not None else {}

    def bump(k):
        stats[k] = stats.get(k, 0) + 1

    def num(c):
        if isinstance(c, bool):
            return None
        if isinstance(c, int):
            return ("i", c)
        if isinstance(c, dict) and "f" in c:
            return ("f", _f(c))
        if isinstance(c, dict) and "dec" in c:
            return ("d", decimal.Decimal(c["dec"]))
        return None

    def cmp(s, d, top=False):
        if s is None or d is None:
            return "" if (s is None and d is None) else f"null-ness differs (spark {short(s)}, sqlframe {short(d)})"
        ns, nd = num(s), num(d)
        if ns and nd:
            if ns[0] == "i" and nd[0] == "i":
                return "" if ns[1] == nd[1] else "integer value differs"
            if ns[0] != nd[0]:
                bump("numeric_type_differs_value_compared")
            a, b = float(ns[1]), float(nd[1])
            if ns[0] != "f" or nd[0] != "f":
                # integral vs float / decimal: must be the same number
                if math.isnan(a) or math.isnan(b):
                    return "" if (math.isnan(a) and math.isnan(b)) else "NaN-ness differs"
                if a == b or (fn in REL_BOUND and abs(a - b) <= REL_BOUND[fn] * max(abs(a), abs(b))):
                    return ""
                return "numeric value differs"
            u = ulps(a, b)
            if u == 0:
                bump("float_bit_exact")
                return ""
            if fn in REL_BOUND:
                if abs(a - b) <= REL_BOUND[fn] * max(abs(a), abs(b)):
                    bump("float_within_relative_bound")
                    return ""
                return f"float differs beyond relative bound {REL_BOUND[fn]}"
            if u <= ULP_BOUND:
                bump("float_within_ulp_bound")
                return ""
            return f"float differs by {u} ulp" if u != math.inf else "float differs (NaN/inf)"
        if isinstance(s, dict) and isinstance(d, dict) and "map" in s and "row" in d:
            bump("map_returned_as_Row_entries_compared")     # the client hands a DuckDB MAP back as Row (C09's subject)
            d = {"map": [[k, v] for k, v in d["row"]]}
        if type(s) != type(d):
            return f"type differs (spark {short(s)}, sqlframe {short(d)})"
        if isinstance(s, list):
            if len(s) != len(d):
                return f"array length differs ({len(s)} vs {len(d)})"
            if fn in UNORDERED and top:
                s, d = sorted(s, key=_sort_key), sorted(d, key=_sort_key)
            for x, y in zip(s, d):
                r = cmp(x, y)
                if r:
                    return "array element: " + r
            return ""
        if isinstance(s, dict):
            if set(s) != set(d):
                return f"type differs (spark {short(s)}, sqlframe {short(d)})"
            if "map" in s:
                ss, dd = sorted(s["map"], key=_sort_key), sorted(d["map"], key=_sort_key)
                if len(ss) != len(dd):
                    return "map size differs"
                for (k1, v1), (k2, v2) in zip(ss, dd):
                    r = cmp(k1, k2) or cmp(v1, v2)
                    if r:
                        return "map entry: " + r
                return ""
            if "row" in s:
                if len(s["row"]) != len(d["row"]):
                    return "struct arity differs"
                for (n1, v1), (n2, v2) in zip(s["row"], d["row"]):
                    if n1 != n2:
                        return f"struct field name differs ({n1} vs {n2})"
                    r = cmp(v1, v2)
                    if r:
                        return "struct field: " + r
                return ""
            return "" if s == d else "value differs"
        return "" if s == d else "value differs"

    return cmp(spark, duck, top=True)


def short(c):
    s = repr(show(c))
    return s if len(s) <= 80 else s[:77] + "..."


def show(c):
    """canonical value -> readable Python-ish value for reports"""
    if isinstance(c, dict):
        if "f" in c:
            return _f(c)
        if "date" in c or "ts" in c or "dec" in c:
            return next(iter(c.values()))
        if "bytes" in c:
            return "0x" + c["bytes"]
        if "map" in c:
            return {str(show(k)): show(v) for k, v in c["map"]}
        if "row" in c:
            return {n: show(v) for n, v in c["row"]}
        return c
    if isinstance(c, list):
        return [show(x) for x in c]
    return c
