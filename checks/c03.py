"""C03 -- the SQL text returned by df.sql() means the same as what collect() executes (DuckDBSession).

T1   translate/c03_facts.py -> Gen/C03Facts.v   argument plumbing of sql/collect/_get_expressions/_to_sql/_collect,
                                                 _optimize's rule-list edit, hash format; DuckDB's own keyword table
Prf  coq/props/C03.v          (i)  Scoped is preserved by every operation list / by the re-hashing (oracle condition visible)
                              (ii) sql(optimize=False) renders the statements collect() executes; unquoted_ok
                              (iii) equiv_check_sound: a pair the checker accepts agrees on every input
T2   per program: raw tree and optimised tree exported, Coq decides equiv_check (certificate for all data);
     uncertified pairs -> differential search on DuckDB for a data witness, otherwise only counted
T3   every step's CTE list vs the model step (wrap / join / set operation with the names the implementation drew);
     re-hashing vs the renaming model; every returned text parsed back and checked Scoped;
     {optimize} x {quote_identifiers} x {pretty}: text executed on the same connection vs collect();
     Coq's evaluation of the exported optimised chain vs DuckDB's rows of the optimised text (exporter + Sql.eval);
     the lexer model vs DuckDB on its whole keyword table.
"""
from __future__ import annotations

import json
import os
import random
import re
import time

from vlib import core, rel
from vlib.core import strlit, listlit, natlit
from translate import c03_facts, c03_export as X

CFGS = [(o, q, p) for o in (True, False) for q in (True, False) for p in (False, True)]
MAIN_CFG = (True, True, False)
SIDE_CFGS = [(True, True, False), (False, True, True), (False, False, False)]

R_TABLES = {
    "empty": [],
    "t1": [(1, "p"), (2, "q"), (5, "r"), (None, "n"), (1, "pp")],
    "t2": [(-1, "m"), (-1, "mm"), (4, "f"), (None, None), (0, "")],
}
R_SCHEMA = "a bigint, t string"

HEADER_PAIR = """From SF Require Import C03.Check.
Open Scope string_scope.
Definition check := check_pair.
"""
HEADER_SCOPE = """From SF Require Import C03.Scoped C03.Check.
Open Scope string_scope.
Definition check := check_scope.
"""
HEADER_IDENT = """From SF Require Import C03.Check.
From Gen Require Import C03Facts.
Open Scope string_scope.
Definition check := check_idents reserved.
"""

# Program shapes that MUST certify on every run (committed corpus; a shape that stops certifying is a broken
# correspondence).  Steps in checks.c01's format.
C = lambda n: ("col", n)   # noqa: E731
L = lambda v: ("lit", v)   # noqa: E731
CORPUS = [
    [("where", ("bin", "Gt", C("a"), L(0)))],
    [("select", [(C("b"), "b"), (C("a"), "a")])],
    [("where", ("bin", "Gt", C("a"), L(0))), ("where", ("isnull", C("s")))],
    [("select", [(("bin", "Add", C("a"), L(1)), "c"), (C("b"), "b")]), ("where", ("bin", "Gt", C("c"), L(1)))],
    [("withColumn", "c", ("coalesce", C("a"), L(9))), ("where", ("bin", "Lt", C("b"), L(5))), ("drop", ["s"])],
    [("rename", "a", "e"), ("drop", ["e"])],
    [("select", [(C("s"), "s"), (C("a"), "c")]), ("where", ("bin", "Eq", C("c"), ("bin", "Mul", C("c"), C("c")))),
     ("select", [(C("c"), "c")])],
    [("where", ("bin", "Eq", L(-1), C("b"))), ("drop", ["a"]), ("orderBy", [(C("s"), False, None)]), ("limit", 3)],
    [("limit", 3), ("limit", 5), ("limit", 1)],
    [("orderBy", [(C("a"), False, None), (C("b"), False, None), (C("s"), False, None)]), ("limit", 4)],
    [("distinct",), ("select", [(C("a"), "a")]), ("distinct",)],
    [("where", ("not", ("not", ("isnull", C("b"))))), ("select", [(C("s"), "s"), (C("b"), "b")])],
    [("withColumn", "c", ("bin", "Ge", L(2), ("bin", "Mul", L(0), C("a")))), ("where", ("bin", "Or", ("bin", "Eq", L(-1), L(1)), ("isnull", C("s"))))],
    [("select", [(C("a"), "a"), (C("b"), "b")]), ("distinct",), ("limit", 100)],
    # an ordered CTE under a filter / projection (Order.ordmerge), a filter above DISTINCT (Order.distmerge)
    [("orderBy", [(C("a"), True, True)]), ("where", ("isnull", C("s")))],
    [("orderBy", [(C("a"), False, None), (C("b"), False, None), (C("s"), False, None)]),
     ("select", [(C("s"), "s"), (C("b"), "b"), (C("a"), "a")])],
    [("orderBy", [(C("a"), False, None), (C("b"), False, None), (C("s"), False, None)]),
     ("withColumn", "c", ("coalesce", C("a"), L(9)))],
    [("distinct",), ("where", ("bin", "Gt", C("a"), L(0)))],
    # witnesses of repaired defects (findings with status "fixed": 9853fb2): a WHERE / a select item next to an alias
    # of the same name must come back from the optimizer unchanged
    [("where", ("bin", "Gt", C("a"), L(0))), ("withColumn", "a", ("bin", "Mul", C("a"), L(-1)))],
    [("toDF", ["d", "s", "a"])],
    [("where", ("bin", "Lt", C("b"), L(3))), ("select", [(("bin", "Add", C("b"), L(10)), "b"), (C("b"), "c")])],
]


# Small witnesses of staged findings that the sampled generator does not reach in every tier (run in both tiers; they are
# NOT required to certify).
WITNESSES = [
    # C03/optimize-changes-result:order-key-expression-over-renamed-column
    [("select", [(C("a"), "a"), (C("b"), "b")]), ("toDF", ["x", "y"]), ("toDF", ["s", "b"]),
     ("orderBy", [(("bin", "Sub", C("b"), C("s")), True, None), (C("b"), False, None), (C("s"), False, None)]), ("limit", 3)],
]

# ------------------------------------------------------------------------------------------------------------
# program construction
# ------------------------------------------------------------------------------------------------------------

def chain_programs(ctx):
    from checks import c01
    progs, n_exh = c01.make_programs(ctx)
    rnd = random.Random(ctx.seed + 3)
    corpus5, exh, rand = progs[:5], progs[5:5 + n_exh], progs[5 + n_exh:]
    if ctx.tier == "quick":
        exh = rnd.sample(exh, min(60, len(exh)))
        rand = rnd.sample(rand, min(80, len(rand)))
    else:
        exh = rnd.sample(exh, min(350, len(exh)))
        rand = rnd.sample(rand, min(550, len(rand)))
    out, seen = [], set()
    for i, st in enumerate(CORPUS):
        out.append({"kind": "chain", "steps": st, "corpus": True, "name": f"corpus{i}"})
    for st in WITNESSES + corpus5 + exh + rand:
        out.append({"kind": "chain", "steps": st, "corpus": False, "name": None})
    res = []
    for p in out:
        (mode, lim), steps = c01.plan_mode(p["steps"])
        key = repr(steps)
        if not steps or key in seen:
            continue
        seen.add(key)
        p["steps"], p["mode"], p["lim"] = steps, mode, lim
        res.append(p)
    return res


def multi_programs():
    """joins / group-bys / set operations built directly: name, builder(L, R, F) -> df, tag"""
    P = []

    def add(name, fn, tag="multi"):
        P.append({"kind": "multi", "name": name, "build": fn, "tag": tag, "mode": "bag", "lim": None, "corpus": False})

    for how in ["inner", "left", "right", "full", "left_outer", "outer"]:
        add(f"join-{how}-on-name", lambda l, r, F, how=how: l.join(r, on="a", how=how), "join")
    add("join-cross", lambda l, r, F: l.crossJoin(r.select("t")), "join")
    add("join-inner-on-expr", lambda l, r, F: l.join(r, on=l["a"] == r["a"], how="inner").select(l["b"], r["t"]), "join")
    add("join-left_semi", lambda l, r, F: l.join(r, on="a", how="left_semi"), "semi")
    add("join-left_anti", lambda l, r, F: l.join(r, on="a", how="left_anti"), "anti")
    add("join-semi", lambda l, r, F: l.join(r, on="a", how="semi"), "semi")
    add("join-anti", lambda l, r, F: l.join(r, on="a", how="anti"), "anti")
    add("join-then-where-select", lambda l, r, F: l.join(r, on="a").where(F.col("b") > 1).select("a", "t"), "join")
    add("where-then-join", lambda l, r, F: l.where(F.col("b") > 1).join(r.where(F.col("t") != "q"), on="a", how="left"), "join")
    add("self-join", lambda l, r, F: l.join(l, on="a"), "selfjoin")
    add("shared-lineage-join", lambda l, r, F: l.where(F.col("a") > 0).join(l.where(F.col("b") > 1), on="a"), "diamond")
    add("shared-lineage-select-join", lambda l, r, F: l.select("a", "b").join(l.select("a", "s"), on="a", how="left"), "diamond")
    add("groupby-sum", lambda l, r, F: l.groupBy("s").agg(F.sum("a").alias("sa")), "group")
    add("groupby-count-max", lambda l, r, F: l.groupBy("a").agg(F.count("b").alias("n"), F.max("s").alias("m")), "group")
    add("groupby-then-where", lambda l, r, F: l.groupBy("s").agg(F.sum("b").alias("sb")).where(F.col("sb") > 2), "group")
    add("where-groupby-select", lambda l, r, F: l.where(F.col("a").isNotNull()).groupBy("a").agg(F.min("b").alias("mb")).select("mb", "a"), "group")
    add("global-agg", lambda l, r, F: l.agg(F.count("a").alias("n"), F.sum("b").alias("sb")), "group")
    # a CTE that SURVIVES optimisation (aggregate / LIMIT / UNION / DISTINCT) joined back, i.e. referenced through
    # qualified columns afterwards (all 8 configurations, in particular optimize=True x quote_identifiers=False)
    add("agg-joined-back", lambda l, r, F: l.groupBy("a").agg(F.sum("b").alias("sb")).join(r, on="a"), "cte-joined")
    add("agg-joined-back-on-expr",
        lambda l, r, F: (lambda g: g.join(r, on=g["a"] == r["a"]).select(g["sb"], r["t"]))(l.groupBy("a").agg(F.sum("b").alias("sb"))),
        "cte-joined")
    add("limit-joined-back", lambda l, r, F: l.orderBy("a", "b", "s").limit(3).join(r, on="a", how="left"), "cte-joined")
    add("union-joined-back", lambda l, r, F: l.select("a").union(r.select("a")).join(r, on="a"), "cte-joined")
    add("distinct-joined-back", lambda l, r, F: l.select("a", "s").distinct().join(r, on="a"), "cte-joined")
    add("join-agg-on-the-right", lambda l, r, F: r.join(l.groupBy("a").agg(F.count("b").alias("n")), on="a", how="left"), "cte-joined")
    add("union", lambda l, r, F: l.select("a").union(r.select("a")), "setop")
    add("union-self", lambda l, r, F: l.union(l), "setop")
    add("unionByName", lambda l, r, F: l.select("a", F.col("s").alias("t")).unionByName(r.select("t", "a")), "setop")
    add("union-distinct", lambda l, r, F: l.select("a").union(r.select("a")).distinct(), "setop")
    add("intersect", lambda l, r, F: l.select("a").intersect(r.select("a")), "setop")
    add("intersectAll", lambda l, r, F: l.select("a").intersectAll(r.select("a")), "setop")
    add("exceptAll", lambda l, r, F: l.select("a").exceptAll(r.select("a")), "setop")
    add("subtract", lambda l, r, F: l.select("a").subtract(r.select("a")), "setop")
    add("union-then-where", lambda l, r, F: l.select("a").union(r.select("a")).where(F.col("a") > 0), "setop")
    add("join-of-unions", lambda l, r, F: l.select("a").union(r.select("a")).join(r, on="a"), "setop")
    add("union-of-joins", lambda l, r, F: l.join(r, on="a").select("a", "t").union(l.join(r, on="a").select("a", "t")), "setop")
    return P


def ident_programs():
    """column names that are reserved words / not words / mixed case (part ii)"""
    P = []

    def add(name, cols, fn, tag):
        P.append({"kind": "ident", "name": name, "cols": cols, "build": fn, "tag": tag, "mode": "bag", "lim": None,
                  "corpus": False})

    # output column names that are not plain identifiers (blank, hyphen, leading digit, dot, mixed case): the NAMES the
    # engine reports for the text must be collect()'s Row fields and df.columns, exactly
    add("names-from-schema", ["Id", "Full Name", "score-2"], lambda d, F: d.where(F.col("Id") >= 0), "nonplain-name")
    add("names-selected", ["Id", "Full Name", "score-2"],
        lambda d, F: d.select("Id", F.col("`Full Name`"), F.col("`score-2`")), "nonplain-name")
    add("names-from-alias", ["x1", "y_2"],
        lambda d, F: d.select(F.col("x1").alias("2x"), F.col("y_2").alias("first.last"), (F.col("x1") + 1).alias("Mixed Case")),
        "nonplain-name")
    add("names-from-rename", ["x1", "y_2"],
        lambda d, F: d.withColumnRenamed("x1", "first name").withColumn("a-b", F.col("y_2") * 2), "nonplain-name")

    add("cols-plain", ["x1", "y_2"], lambda d, F: d.where(F.col("x1") > 0).select("y_2", "x1"), "plain")
    add("col-select", ["select", "b"], lambda d, F: d.select("select", "b"), "reserved")
    add("col-order", ["order", "b"], lambda d, F: d.where(F.col("order") > 0), "reserved")
    add("col-from-group", ["from", "group"], lambda d, F: d.withColumn("table", F.col("from") + F.col("group")), "reserved")
    add("col-with-space", ["order by", "b"], lambda d, F: d.select(F.col("`order by`"), "b"), "nonword")
    add("col-mixed-case", ["Aa", "bB"], lambda d, F: d.where(F.col("Aa") > 0).withColumnRenamed("bB", "Cc"), "case")
    add("col-unreserved-keyword", ["year", "name"], lambda d, F: d.select("name", "year"), "unreserved")
    return P


IDENT_ROWS = {"empty": [], "t1": [(1, 2), (0, 3), (None, 4), (5, None)], "t2": [(-1, -1), (2, 2)]}


STR_ROWS = {
    "empty": [],
    # blanks / tabs / carriage returns directly before a line break, leading blanks after one, a trailing break
    "t1": [(1, "line one \nline two"), (2, "dos\r\nfile"), (3, "tab\t\nend"), (4, "plain"), (5, None),
           (6, " lead\n trail \n"), (7, "two  blanks  \n\n  x")],
    "t2": [(1, "a\nb"), (2, "a \nb"), (3, "a\r\nb"), (4, "")],
}
SALES_ROWS = {
    "empty": [],
    "t1": [("01", 5), ("01", 7), ("1", 3), ("2", 4), (None, 1), ("002", 9)],
    "t2": [("1", 5), ("10", 5), ("1.0", 2)],
}


def free_programs():
    """programs with their own tables: string cells/literals with white space around line breaks (what a purely textual
    post-processing of the statement would damage), a text column compared with a number and then used
    type-sensitively above a CTE the optimizer cannot merge away, DataFrames carrying hints"""
    P = []

    def add(name, fn, tag):
        P.append({"kind": "free", "name": name, "build": fn, "tag": tag, "mode": "bag", "lim": None, "corpus": False})

    def strs(s, t):
        return s.createDataFrame(STR_ROWS[t], "id bigint, txt string")

    def sales(s, t):
        return s.createDataFrame(SALES_ROWS[t], "code string, qty bigint")

    def lr(s, t):
        from checks import c01 as _c
        return s.createDataFrame(_c.TABLES[t], _c.SCHEMA), s.createDataFrame(R_TABLES[t], R_SCHEMA)

    add("string-cells-length", lambda s, F, t: strs(s, t).where(F.col("id") >= 1).select("id", "txt", F.length("txt").alias("n")), "string-literal")
    add("string-literal-column", lambda s, F, t: strs(s, t).select("id", F.lit("a \nb\t\n c\r\n").alias("l")).where(F.col("id") < 4), "string-literal")
    add("string-literal-compare", lambda s, F, t: strs(s, t).where((F.col("txt") == "dos\r\nfile") | (F.col("txt") == "a \nb")), "string-literal")
    add("string-cells-groupby", lambda s, F, t: strs(s, t).groupBy("txt").agg(F.count("id").alias("n")), "string-literal")
    add("string-cells-join", lambda s, F, t: strs(s, t).join(strs(s, t).select(F.col("txt"), F.col("id").alias("id2")), on="txt"), "string-literal")
    # a column pinned to a literal of ANOTHER type, then used type-sensitively, above agg / distinct / limit / union
    add("text-eq-int-then-lt-text-after-agg",
        lambda s, F, t: sales(s, t).groupBy("code").agg(F.sum("qty").alias("total")).where((F.col("code") == 1) & (F.col("code") < "1")), "cross-type-compare")
    add("text-eq-int-then-length-after-agg",
        lambda s, F, t: sales(s, t).groupBy("code").agg(F.sum("qty").alias("total")).where(F.col("code") == 1).where(F.length("code") == 2), "cross-type-compare")
    add("text-eq-int-then-like-after-distinct",
        lambda s, F, t: sales(s, t).select("code").distinct().where((F.col("code") == 1) & F.col("code").like("0%")), "cross-type-compare")
    add("int-eq-float-then-cast-after-limit",
        lambda s, F, t: sales(s, t).orderBy("code", "qty").limit(4).where((F.col("qty") == 5.0) & (F.col("qty").cast("string") == "5")), "cross-type-compare")
    add("text-eq-int-then-concat-after-union",
        lambda s, F, t: sales(s, t).select("code").union(sales(s, t).select("code")).where((F.col("code") == 2) & (F.concat(F.col("code"), F.lit("x")) == "2x")), "cross-type-compare")
    # predicates given as SQL text / F.expr: they arrive as bare connectors (no Paren node), so whoever combines them with
    # another condition must keep the grouping, and the printed text must read like the tree the optimizer gets
    add("sqlstr-where-then-or", lambda s, F, t: lr(s, t)[0].where("a = 1").where("b = 1 or s = 'x'"), "string-predicate")
    add("sqlstr-or-then-where", lambda s, F, t: lr(s, t)[0].where("b = 3 or s = 'y'").where("a = 1"), "string-predicate")
    add("sqlstr-or-then-column-where", lambda s, F, t: lr(s, t)[0].where(F.expr("a > 1 or b > 2")).where(F.col("s") == "x"), "string-predicate")
    add("sqlstr-dropna-then-or", lambda s, F, t: lr(s, t)[0].dropna().where("b = 2 or s = 'y'"), "string-predicate")
    add("sqlstr-and-or-mix", lambda s, F, t: lr(s, t)[0].filter("a = 1 and b = 2 or s = 'z'").filter("b > 0 or a is null").filter(F.col("a").isNotNull()), "string-predicate")
    add("sqlstr-arith-select", lambda s, F, t: lr(s, t)[0].select(F.expr("a + b * 2").alias("u"), F.expr("(a - b) * 2").alias("v"), (-F.expr("a + b")).alias("w")).where("u > 3 or v < 0"), "string-predicate")
    # hints never change a result; the engine dialect has no syntax for them
    add("hint-broadcast-join", lambda s, F, t: (lambda l, r: l.join(r.hint("broadcast"), "a", "left").select("b", "t"))(*lr(s, t)), "hint")
    add("repartition-n-then-agg", lambda s, F, t: lr(s, t)[0].repartition(2).groupBy("s").agg(F.count("*").alias("n")), "hint")
    add("repartition-col-then-where", lambda s, F, t: lr(s, t)[0].repartition("a").where(F.col("b") > 1), "hint")
    add("coalesce-then-where", lambda s, F, t: lr(s, t)[0].coalesce(1).where(F.col("s").isNull()).select("a"), "hint")
    add("hint-then-union", lambda s, F, t: (lambda l, r: l.select("a").hint("broadcast").union(r.select("a")))(*lr(s, t)), "hint")
    return P


def build(prog, tname, session, F, steps=None, rows_override=None):
    """-> list of DataFrames, one per user-level step (index 0 = the createDataFrame result)"""
    from checks import c01
    if prog["kind"] == "chain":
        rows = rows_override if rows_override is not None else c01.TABLES[tname]
        df = session.createDataFrame(rows, c01.SCHEMA)
        out = [df]
        for st in (steps if steps is not None else prog["steps"]):
            df = c01.apply_step(df, st, F)
            out.append(df)
        return out
    if prog["kind"] == "multi":
        from checks import c01 as _c
        l = session.createDataFrame(_c.TABLES[tname], _c.SCHEMA)
        r = session.createDataFrame(R_TABLES[tname], R_SCHEMA)
        return [l, prog["build"](l, r, F)]
    if prog["kind"] == "ident":
        rows = [tuple((list(r_) + [7, 8, 9])[:len(prog["cols"])]) for r_ in IDENT_ROWS[tname]]
        if rows:
            d = session.createDataFrame(rows, prog["cols"])
        else:
            from sqlframe.base import types as T
            d = session.createDataFrame([], T.StructType([T.StructField(c, T.LongType()) for c in prog["cols"]]))
        return [d, prog["build"](d, F)]
    if prog["kind"] == "free":
        df = prog["build"](session, F, tname)
        return [df, df]
    raise ValueError(prog["kind"])


# ------------------------------------------------------------------------------------------------------------
# running one configuration and comparing
# ------------------------------------------------------------------------------------------------------------

def norm_row(r):
    return tuple(r)


def canon(rows):
    return sorted((norm_row(r) for r in rows), key=repr)


def is_subbag(a, b):
    b = list(b)
    for x in a:
        if x in b:
            b.remove(x)
        else:
            return False
    return True


def rows_agree(mode, lim, ref, got, pre):
    ref, got = [norm_row(r) for r in ref], [norm_row(r) for r in got]
    if mode == "seq":
        return ref == got
    if mode == "bag":
        return canon(ref) == canon(got)
    if mode == "sub":
        return len(got) == min(lim or 0, len(pre)) and is_subbag(got, [norm_row(r) for r in pre])
    return len(ref) == len(got)   # dedup / unknown: the kept representative is the engine's choice


def refine_mode(mode, tree, exp):
    """A LIMIT whose own SELECT does not ORDER BY all of its output columns lets the engine choose the rows (the
    order of an ordered CTE below it is not promised by SQL and DuckDB does not always keep it): from then on only
    the row count and the column names can be compared (mode "count"); one such LIMIT as the program's last step
    keeps checks.c01's "sub" mode (count + sub-multiset of the rows before the limit)."""
    try:
        main = tree.copy()
        main.set("with", None)
        sels = [c.this for c in tree.ctes] + [main]
        und = 0
        for sel in sels:
            if not isinstance(sel, exp.Select):
                continue
            l = sel.args.get("limit")
            if l is None:
                continue
            try:
                n = int(l.expression.this)
            except Exception:   # noqa: BLE001
                n = 1
            if n == 0 or n >= 50:
                continue
            outs = {e.alias_or_name for e in sel.expressions}
            keys = set()
            order = sel.args.get("order")
            if order is not None:
                for o in order.expressions:
                    if isinstance(o.this, exp.Column):
                        keys.add(o.this.name)
            if not outs <= keys:
                und += 1
        if und == 0:
            return mode
        if mode == "sub" and und == 1:
            return "sub"
        return "count"
    except Exception:   # noqa: BLE001
        return "count"


def precedence_hazards(tree, exp):
    """sqlglot's generator prints operators without adding parentheses: the text reads like the tree only if every operand
    that binds LOOSER than its parent is a Paren node.  Returns the offending (parent, child) class names."""
    CMP = (exp.EQ, exp.NEQ, exp.LT, exp.LTE, exp.GT, exp.GTE, exp.NullSafeEQ, exp.NullSafeNEQ, exp.Is, exp.Like, exp.ILike)

    def level(n):
        if isinstance(n, exp.Or):
            return 1
        if isinstance(n, exp.And):
            return 2
        if isinstance(n, exp.Not):
            return 3
        if isinstance(n, CMP) or isinstance(n, (exp.In, exp.Between)):
            return 4
        if isinstance(n, (exp.Add, exp.Sub)):
            return 5
        if isinstance(n, (exp.Mul, exp.Div, exp.Mod)):
            return 6
        if isinstance(n, exp.Neg):
            return 7
        return 9          # atoms, functions, CASE, Paren, casts ...

    out = []
    for n in tree.walk():
        pl = level(n)
        if pl == 9:
            continue
        kids = [("this", n.args.get("this")), ("expression", n.args.get("expression"))]
        for side, k in kids:
            if not isinstance(k, exp.Expression):
                continue
            kl = level(k)
            if kl == 9:
                continue
            loose = kl < pl
            # the right operand of - / % and both operands of a comparison must bind strictly tighter
            if kl == pl and ((side == "expression" and isinstance(n, (exp.Sub, exp.Div, exp.Mod))) or pl == 4):
                loose = True
            if loose:
                out.append(f"{type(n).__name__}({side}={type(k).__name__})")
    return out


def exec_text(conn, text):
    cur = conn.execute(text)
    rows = cur.fetchall()
    cols = [d[0] for d in (conn.description or [])]
    return cols, rows


def collect_ref(df):
    got = df.collect()
    cols = list(got[0].__fields__) if got else list(df.columns)
    return cols, [tuple(r) for r in got]


def df_columns(df):
    try:
        return list(df.columns)
    except Exception:   # noqa: BLE001
        return None


def run_cfg(df, conn, cfg, ref, mode, lim, pre):
    """-> (status, detail, text, (cols, rows)|None); status in ok | sql-raises | exec-fails | names-differ | rows-differ"""
    o, q, p = cfg
    try:
        text = df.sql(dialect="duckdb", optimize=o, quote_identifiers=q, pretty=p)
    except Exception as ex:   # noqa: BLE001
        return "sql-raises", f"{type(ex).__name__}: {str(ex)[:200]}", None, None
    try:
        cols, rows = exec_text(conn, text)
    except Exception as ex:   # noqa: BLE001
        return "exec-fails", f"{type(ex).__name__}: {str(ex)[:200]}", text, None
    if cols != ref[0]:
        return "names-differ", f"{cols} vs collect() {ref[0]}", text, (cols, rows)
    dc = df_columns(df)
    if dc is not None and cols != dc:
        return "names-differ", f"{cols} vs df.columns {dc}", text, (cols, rows)
    if not rows_agree(mode, lim, ref[1], rows, pre):
        return "rows-differ", f"{len(rows)} rows vs collect() {len(ref[1])}", text, (cols, rows)
    return "ok", "", text, (cols, rows)


# ------------------------------------------------------------------------------------------------------------
# Coq terms
# ------------------------------------------------------------------------------------------------------------

def mode_coq(mode, lim):
    # "sub" (a final LIMIT over an undetermined order) is compared by size here; the sub-multiset test against the
    # rows before the limit is done on the Python side, where the program without its last step can be re-run
    return {"seq": "MSeq", "bag": "MBag"}.get(mode, "MCount")


def got_coq(got):
    cols, rows = got
    return f"({listlit([strlit(c) for c in cols])}, {listlit([rel.row_coq(r) for r in rows])})"


def q_coq(sc):
    return X.scope_coq(sc[0], sc[1])


def nops_for_step(before, after, other=None, other_wrapped=None, is_setop=False):
    """the named operations of one user-level step, with the names the implementation drew (oracle answers)"""
    bn = [n for n, _ in before[0]]
    an = [n for n, _ in after[0]]
    if other is None:
        new = an[len(bn):]
        return [f"(NWrap {strlit(n)})" for n in new] + ["NLocal"], None
    inc = [n for n, _ in other_wrapped[0]]           # other._convert_leaf_to_cte(): its CTE names
    extra = 1 if is_setop else 0
    k = len(an) - len(bn) - len(inc) - extra
    if k < 0:
        return None, f"after has {len(an)} CTEs, before {len(bn)}, incoming {len(inc)}"
    ops = [f"(NWrap {strlit(n)})" for n in an[len(bn):len(bn) + k]]
    res = an[len(bn) + k:len(bn) + k + len(inc)]
    fresh = [r for i, r in zip(inc, res) if i != r]
    # the model asks the oracle for at most one name per incoming CTE; names it never uses are padding
    fresh = fresh + [f"unused_{j}" for j in range(len(inc) - len(fresh))]
    oq = X.scope_coq(other[0], other[1])
    n_other = inc[-1]
    fr = listlit([strlit(x) for x in fresh])
    if is_setop:
        ops.append(f"(NSetOp {oq} {strlit(n_other)} {fr} {strlit(an[-1])})")
    else:
        ops.append(f"(NJoin {oq} {strlit(n_other)} {fr})")
        ops.append("NLocal")
    return ops, None


# ------------------------------------------------------------------------------------------------------------

def mechanisms(raw_tree, exp):
    """shape predicates on the tree sqlframe built (not on the optimizer's output): which of the known
    name-resolution hazards does it contain?  Used only to NAME a deviation that has already been observed."""
    out = []
    try:
        main = raw_tree.copy()
        main.set("with", None)
        sels = [(c.alias, c.this) for c in raw_tree.ctes] + [(None, main)]
        by_name = {a: s_ for a, s_ in sels if a}
        order_keys = set()     # names used as ORDER BY keys in an earlier SELECT without LIMIT
        limit_below = {}       # CTE name -> some SELECT at or below it has a LIMIT
        origin = {}            # CTE name -> {output column: VALUES column it is a plain copy of | None}

        def is_plain(item, n):
            e = item.this if isinstance(item, exp.Alias) else item
            while isinstance(e, exp.Paren):
                e = e.this
            return isinstance(e, exp.Column) and e.name == n

        for alias, sel in sels:
            if not isinstance(sel, exp.Select):
                if alias:
                    limit_below[alias] = any(limit_below.get(t.name) for t in sel.find_all(exp.Table))
                continue
            frm = sel.args.get("from")
            src_name = frm.this.name if frm is not None and isinstance(frm.this, exp.Table) else None
            items = list(sel.expressions)
            defs = {i.alias_or_name: i for i in items}
            where = sel.args.get("where")
            if where is not None and limit_below.get(src_name):
                out.append("filter-pushed-below-limit")
            if alias:
                limit_below[alias] = sel.args.get("limit") is not None or bool(limit_below.get(src_name))
            if where is not None:
                for c in where.find_all(exp.Column):
                    if not c.table and c.name in defs and not is_plain(defs[c.name], c.name):
                        out.append("where-captured-by-select-alias")
                        break
            for i in items:
                e = i.this if isinstance(i, exp.Alias) else i
                hit = False
                for c in e.find_all(exp.Column):
                    if not c.table and c.name in defs and defs[c.name] is not i and not is_plain(defs[c.name], c.name):
                        hit = True
                if hit:
                    out.append("select-item-captured-by-sibling-alias")
                    break
            # where each output name of this SELECT comes from: the name of the VALUES column it is a plain copy of, or None
            src_origin = origin.get(src_name, {})
            if frm is not None and isinstance(frm.this, exp.Values):
                al = frm.this.args.get("alias")
                src_origin = {c_.name: c_.name for c_ in (al.columns if al is not None else [])}
            my_origin = {}
            for i in items:
                e = i.this if isinstance(i, exp.Alias) else i
                while isinstance(e, (exp.Paren, exp.Cast)):
                    e = e.this
                my_origin[i.alias_or_name] = src_origin.get(e.name) if isinstance(e, exp.Column) else None
            if alias:
                origin[alias] = my_origin
            own_order = sel.args.get("order")
            if own_order is not None:
                # the optimizer leaves the names inside an ORDER BY *expression* unqualified; once the SELECT is merged down to
                # the VALUES source they bind to the source columns of that name -- wrong whenever the name was introduced by a
                # renaming / an alias on the way (its origin is another source column, or a computed value)
                hit = False
                for o in own_order.expressions:
                    k = o.this
                    while isinstance(k, exp.Paren):
                        k = k.this
                    if isinstance(k, exp.Column):
                        continue
                    for c in k.find_all(exp.Column):
                        if c.table:
                            continue
                        o_ = src_origin[c.name] if c.name in src_origin else my_origin.get(c.name, c.name)
                        if o_ != c.name:
                            hit = True
                if hit:
                    out.append("order-key-expression-over-renamed-column")
            for n in sorted(order_keys):
                if n in defs and not is_plain(defs[n], n):
                    out.append("order-key-captured-by-later-alias")
                    break
            for n in sorted(order_keys):
                if n not in defs:
                    out.append("order-key-dropped-by-later-projection")
                    break
            order = sel.args.get("order")
            if order is not None and sel.args.get("limit") is None:
                for o in order.expressions:
                    k = o.this
                    if isinstance(k, exp.Column):
                        order_keys.add(k.name)
            if sel.args.get("limit") is not None or sel.args.get("distinct") is not None:
                order_keys = set()
    except Exception:   # noqa: BLE001  naming only
        pass
    seen = []
    for m in out:
        if m not in seen:
            seen.append(m)
    return seen


# hazards that NAME an observed deviation, most specific first.  "where-captured-by-select-alias" and
# "select-item-captured-by-sibling-alias" are still detected (and recorded in the replay) but no longer name anything: the
# defects are repaired (/repo 9853fb2), the hazard is present in many harmless trees, and a regression is reported under
# its program shape, which no known entry lists
MECH_ORDER = ["filter-pushed-below-limit", "order-key-expression-over-renamed-column",
              "order-key-captured-by-later-alias", "order-key-dropped-by-later-projection"]
TAG_SIG = {"semi": "semi-anti-join-kind-lost", "anti": "semi-anti-join-kind-lost",
           "diamond": "shared-lineage", "selfjoin": "shared-lineage"}


def kinds(steps):
    proj = {"select", "withColumn", "rename", "drop", "toDF", "fillna", "replace"}
    return [("project" if s[0] in proj else s[0]) for s in steps]


def random_tables(seed, n):
    rnd = random.Random(seed)
    out = []
    for _ in range(n):
        m = rnd.randint(2, 9)
        rows = []
        for _ in range(m):
            rows.append((rnd.choice([None, -2, -1, 0, 1, 2, 3, 7]), rnd.choice([None, -3, 0, 1, 2, 4, 5]),
                         rnd.choice([None, "", "a", "b", "x", "y"])))
        out.append(rows)
    return out


class _Stub:
    """what chain_programs needs of a Ctx, picklable"""
    def __init__(self, seed, tier):
        self.seed, self.tier = seed, tier


def all_programs(stub):
    progs = chain_programs(stub) + multi_programs() + ident_programs() + free_programs()
    from checks import c01
    for i, p in enumerate(progs):
        p["idx"] = i
        p["desc"] = p["name"] or " ; ".join(c01.step_str(s) for s in p["steps"])
    return progs


TEXT_CFGS_QUICK = [(True, True, False), (True, False, True), (False, True, True), (False, False, False)]


def _worker(args):
    """runs the implementation for a slice of the programs in its own process (own DuckDB connection)"""
    seed, tier, wid, nw, ccfg = args
    from sqlframe.duckdb import DuckDBSession
    import sqlframe.duckdb.functions as F
    from sqlglot import expressions as exp
    import sqlglot
    from checks import c01
    import logging
    logging.getLogger("sqlglot").setLevel(logging.ERROR)     # "Hints are not supported" for every hint program
    session = DuckDBSession()
    conn = session._conn
    try:
        conn.execute("PRAGMA threads=1")
    except Exception:   # noqa: BLE001
        pass
    progs = all_programs(_Stub(seed, tier))
    tables = ["t1", "t2", "empty"]
    R = {"prog": {}, "pairs": [], "scopes": [], "idents": [], "devs": [], "brokens": [],
         "hist_status": {}, "hist_export": {}, "n_exec": 0, "n_nontriv": 0, "n_collect_raises": 0}

    def bump(h, k):
        R[h][k] = R[h].get(k, 0) + 1

    for prog in progs:
        if prog["idx"] % nw != wid:
            continue
        desc = prog["desc"]
        info = R["prog"].setdefault(prog["idx"], {})
        for tname in tables:
            try:
                dfs = build(prog, tname, session, F)
            except Exception as ex:   # noqa: BLE001
                bump("hist_status", "build-raises")
                info.setdefault("build_error", f"{type(ex).__name__}: {str(ex)[:150]}")
                break
            df = dfs[-1]
            try:
                ref = collect_ref(df)
            except Exception as ex:   # noqa: BLE001  outside the property's domain ("a DataFrame that can be collected")
                R["n_collect_raises"] += 1
                info.setdefault("collect_error", f"{type(ex).__name__}: {str(ex)[:150]}")
                break
            primary = tname == "t1"
            if primary:
                try:
                    prog["mode"] = refine_mode(prog["mode"], df._get_expressions(optimize=False)[0], exp)
                except Exception:   # noqa: BLE001
                    prog["mode"] = "count"
                info["mode"] = prog["mode"]
            mode, lim = prog["mode"], prog["lim"]
            pre = []
            if mode == "sub":
                try:
                    pre = collect_ref(dfs[-2])[1]
                except Exception:   # noqa: BLE001
                    pre = []
            texts, got_main = {}, None
            for cfg in (CFGS if primary else SIDE_CFGS):
                status, detail, text, got = run_cfg(df, conn, cfg, ref, mode, lim, pre)
                R["n_exec"] += 1
                bump("hist_status", status)
                if text is not None:
                    texts[cfg] = text
                if cfg == MAIN_CFG and status in ("ok", "rows-differ", "names-differ"):
                    got_main = got
                if status != "ok":
                    R["devs"].append({"idx": prog["idx"], "table": tname, "cfg": cfg, "status": status, "detail": detail,
                                      "text": text, "ref": ref, "got": got})
            if ref[1] and (prog["kind"] != "chain" or len(prog["steps"]) >= 2):
                R["n_nontriv"] += 1
            raw_tree = opt_tree = None
            if primary:
                # the theorem sql_unopt_is_collect_text against the implementation: the very text collect() hands over
                try:
                    raw_tree = df._get_expressions(optimize=False)[0]
                    ctext = session._to_sql(raw_tree)
                    haz = precedence_hazards(raw_tree, exp)
                    if haz:
                        R["brokens"].append(("T2:tree-not-print-safe",
                                             f"{desc}: the tree collect() renders has an operand that binds looser than its parent and is "
                                             f"not parenthesised ({', '.join(sorted(set(haz))[:4])}): the generator prints no parentheses, so the "
                                             "text reads differently from the tree the optimizer / exporter read",
                                             {"program": desc, "name": prog.get("name"), "steps_json": prog.get("steps"),
                                              "kind": prog["kind"], "text": ctext[-600:]}))
                    ckey = (False, ccfg[0], ccfg[1])
                    if ckey in texts and ctext != texts[ckey]:
                        R["brokens"].append(("T3:unopt-text-vs-collect-text",
                                             f"sql(optimize=False, quote_identifiers={ccfg[0]}, pretty={ccfg[1]}, dialect=duckdb) differs "
                                             f"from the text collect() executes for: {desc}",
                                             {"sql": texts[ckey], "collect": ctext}))
                except Exception as ex:   # noqa: BLE001
                    R["brokens"].append(("T3:get_expressions-raises-after-collect", f"{desc}: {type(ex).__name__}: {ex}", None))
                try:
                    opt_tree = df._get_expressions(optimize=True)[0]
                except Exception:   # noqa: BLE001  reported through sql-raises above
                    opt_tree = None
                # ---- part (i): every step against the model, the re-hashing, every returned text
                try:
                    scs = [X.scope_of_tree(d.expression, exp) for d in dfs]
                    parsed = []
                    failed_cfgs = {d_["cfg"] for d_ in R["devs"] if d_["idx"] == prog["idx"] and d_["table"] == tname
                                   and d_["status"] == "exec-fails"}
                    for cfg, tx in texts.items():
                        if tier != "quick" or cfg in TEXT_CFGS_QUICK or prog["corpus"]:
                            try:
                                parsed.append(X.scope_of_tree(sqlglot.parse_one(tx, dialect="duckdb"), exp))
                            except sqlglot.errors.SqlglotError:
                                if cfg not in failed_cfgs:     # a text the engine accepts must be readable here
                                    raise
                    final = scs[-1]
                    hashed = X.scope_of_tree(raw_tree, exp) if raw_tree is not None else None
                    pairs = []
                    if hashed is not None and len(hashed[0]) == len(final[0]):
                        pairs = [(a[0], b[0]) for a, b in zip(final[0], hashed[0]) if a[0] != b[0]]
                    elif hashed is not None:
                        R["brokens"].append(("T3:rehash-changes-cte-count", desc, None))
                    if prog["kind"] == "chain":
                        for i in range(1, len(scs)):
                            ops, err = nops_for_step(scs[i - 1], scs[i])
                            last = i == len(scs) - 1
                            R["scopes"].append((scope_term(scs[i - 1], ops, scs[i], pairs if last else [],
                                                           hashed if last else None, parsed if last else []),
                                                {"prog": desc, "step": i}))
                    else:
                        R["scopes"].append((scope_term(final, ["NLocal"], final, pairs, hashed, parsed),
                                            {"prog": desc, "step": "final"}))
                except rel.NotExportable as ne:
                    R["brokens"].append(("T3:scope-export", f"{desc}: {ne}", None))
                except Exception as ex:   # noqa: BLE001
                    R["brokens"].append(("T3:scope-export", f"{desc}: {type(ex).__name__}: {ex}", None))
                # ---- identifiers (part ii)
                if raw_tree is not None:
                    ids = sorted({n for n, _ in X.idents_of_tree(raw_tree, exp)}
                                 | ({n for n, _ in X.idents_of_tree(opt_tree, exp)} if opt_tree is not None else set()))
                    try:
                        [strlit(i) for i in ids]
                        R["idents"].append((prog["idx"], ids))
                    except ValueError:
                        pass
            # ---- part (iii): export the pair; both chains are evaluated in Coq on this table
            if prog["kind"] == "chain":
                try:
                    if primary:
                        n1, ty1, b1, _ = X.export_chain2(raw_tree, exp)
                        info["raw_export"] = (n1, b1)
                        why = None
                        try:
                            if opt_tree is None:
                                raise rel.NotExportable("optimizer raised")
                            n2, ty2, b2, _ = X.export_chain2(opt_tree, exp)
                            if n2 != n1 or any(ty1.get(c) != t for c, t in ty2.items()):
                                raise rel.NotExportable("input columns / types differ between the two trees")
                            info["opt_export"] = b2
                        except rel.NotExportable as ne:
                            info["opt_export"] = None
                            why = "opt: " + re.sub(r"'[^']*'", "_", str(ne))[:60]
                        bump("hist_export", why or "both exported")
                    if info.get("raw_export"):
                        n1, b1 = info["raw_export"]
                        b2 = info.get("opt_export")
                        item = (f"(mkP {rel.frame_coq(n1, c01.TABLES[tname])} {b1} "
                                f"{'(Some ' + b2 + ')' if b2 else 'None'} {mode_coq(mode, lim)} {got_coq(ref)} "
                                f"{'(Some ' + got_coq(got_main) + ')' if got_main is not None else 'None'})")
                        R["pairs"].append((prog["idx"], tname, item))
                except rel.NotExportable as ne:
                    if primary:
                        info["raw_export"] = None
                        bump("hist_export", "raw: " + re.sub(r"'[^']*'", "_", str(ne))[:60])
                except ValueError:      # a value that has no Coq literal
                    bump("hist_export", "value not exportable")
    return R


def scope_term(before, ops, after, pairs, hashed, texts):
    return (f"(mkS {q_coq(before)} {listlit(ops)} {q_coq(after)} "
            f"{listlit(['(' + strlit(a) + ', ' + strlit(b) + ')' for a, b in pairs])} "
            f"{'(Some ' + q_coq(hashed) + ')' if hashed is not None else 'None'} {listlit([q_coq(t) for t in texts])})")


def run(ctx: core.Ctx):
    ctx.level = "translation_validation"
    t_start = time.time()
    import duckdb
    # ---- T1
    kc = duckdb.connect()
    reserved = [r[0] for r in kc.execute(
        "select keyword_name from duckdb_keywords() where keyword_category in ('reserved','type_function') order by 1").fetchall()]
    kc.close()
    t1_ok = True
    ccfg = (True, False)     # collect()'s (quote_identifiers, pretty) on the pinned source
    try:
        text, facts = c03_facts.generate(core.REPO, reserved=reserved)
        ctx.gen("C03Facts", text, facts)
        ccfg = c03_facts.collect_render_cfg(facts)
    except Exception as ex:   # noqa: BLE001  fail-closed translator = broken obligation
        ctx.broken("T1:c03_facts", f"{type(ex).__name__}: {ex}")
        t1_ok = False
        pinned = open(os.path.join(core.VERIF, "translate", "c03_facts_pinned.v")).read()
        pinned += "Definition reserved : list string := [" + "; ".join(strlit(k) for k in reserved) + "].\n"
        ctx.gen("C03Facts", pinned)
    # ---- the implementation runs in worker processes while Coq compiles the proofs
    import multiprocessing as mp
    from concurrent.futures import ProcessPoolExecutor
    NW = 6
    pool = ProcessPoolExecutor(max_workers=NW, mp_context=mp.get_context("spawn"))
    futs = [pool.submit(_worker, (ctx.seed, ctx.tier, w, NW, ccfg)) for w in range(NW)]
    # ---- proofs
    deps = ["Base/Val.v", "Base/Expr.v", "Base/Sort.v", "Sql/Block.v", "Sql/Norm.v",
            "C03/Scoped.v", "C03/Render.v", "C03/Subst.v", "C03/Canon.v", "C03/Order.v", "C03/Equiv.v", "C03/Check.v"]
    if t1_ok:
        ctx.prove([ctx.build + "/gen/C03Facts.v", core.COQ + "/props/C03.v"], dep_theories=deps)
    else:
        ctx.coqc(ctx.build + "/gen/C03Facts.v")
    if t1_ok:
        out = ctx.coq_eval("From SF Require Import C03.Render.\nFrom Gen Require Import C03Facts.",
                           "(collect_quote gen_facts, collect_pretty gen_facts)")
        want = f"({'true' if ccfg[0] else 'false'}, {'true' if ccfg[1] else 'false'})"
        if want not in out.replace("\n", " "):
            ctx.broken("T1:collect-render-cfg", f"Coq computes {out.strip()[:80]} from the facts, the harness {want}")
    ctx.log(f"T1 + proofs done ({time.time() - t_start:.1f}s)")

    from sqlframe.duckdb import DuckDBSession
    from sqlframe.base.dataframe import BaseDataFrame
    from sqlframe.base.session import _BaseSession
    from sqlframe.duckdb.dataframe import DuckDBDataFrame
    import sqlframe.duckdb.functions as F
    from sqlglot import expressions as exp
    from checks import c01
    session = DuckDBSession()
    conn = session._conn
    try:
        conn.execute("PRAGMA threads=1")
    except Exception:   # noqa: BLE001
        pass
    # dynamic side of "no engine override"
    for cls, base, names in [(DuckDBDataFrame, BaseDataFrame, ["sql", "collect", "_collect", "_get_expressions",
                                                                "_replace_cte_names_with_hashes", "_convert_leaf_to_cte",
                                                                "_add_ctes_to_expression"]),
                             (DuckDBSession, _BaseSession, ["_to_sql", "_collect", "_optimize"])]:
        for n in names:
            if getattr(cls, n).__qualname__.split(".")[0] != base.__name__:
                ctx.broken("T1:method-overridden", f"{cls.__name__}.{n} is {getattr(cls, n).__qualname__}")

    progs = all_programs(_Stub(ctx.seed, ctx.tier))
    hist_kind, hist_len = {}, {}
    for p in progs:
        if p["kind"] == "chain":
            hist_len[len(p["steps"])] = hist_len.get(len(p["steps"]), 0) + 1
            for s in p["steps"]:
                hist_kind[s[0]] = hist_kind.get(s[0], 0) + 1
        else:
            hist_kind[p["tag"]] = hist_kind.get(p["tag"], 0) + 1
        p["certified"] = None

    # ---- join / set-operation steps against the model (part i, multi-input), in this process meanwhile
    scope_items, scope_meta, scope_seen = [], [], set()

    def add_scope(term, meta):
        if term not in scope_seen:
            scope_seen.add(term)
            scope_items.append(term)
            scope_meta.append(meta)

    try:
        l = session.createDataFrame(c01.TABLES["t1"], c01.SCHEMA)
        r = session.createDataFrame(R_TABLES["t1"], R_SCHEMA)
        lw = l.where(F.col("a") > 0)
        rs = r.select("a", "t")
        u = lw.select("a").union(rs.select("a"))
        msteps = [("join", lw, rs, lambda a, b: a.join(b, on="a")),
                  ("self-join", lw, lw, lambda a, b: a.join(b, on="a")),
                  ("shared-lineage-join", lw, l.where(F.col("b") > 1), lambda a, b: a.join(b, on="a", how="left")),
                  ("join-after-join", lw.join(rs, on="a"), rs, lambda a, b: a.join(b, on="a")),
                  ("join-semi", lw, rs, lambda a, b: a.join(b, on="a", how="left_semi")),
                  ("union", lw.select("a"), rs.select("a"), lambda a, b: a.union(b)),
                  ("union-self", lw, lw, lambda a, b: a.union(b)),
                  ("union-with-own-part", u, lw.select("a"), lambda a, b: a.union(b)),
                  ("intersect", lw.select("a"), rs.select("a"), lambda a, b: a.intersect(b)),
                  ("exceptAll", lw.select("a"), rs.select("a"), lambda a, b: a.exceptAll(b))]
        for name, a, b, fn in msteps:
            after = fn(a, b)
            is_setop = "join" not in name
            sa, sb = X.scope_of_tree(a.expression, exp), X.scope_of_tree(b.expression, exp)
            sbw = X.scope_of_tree(b._convert_leaf_to_cte().expression, exp)
            saf = X.scope_of_tree(after.expression, exp)
            ops, err = nops_for_step(sa, saf, other=sb, other_wrapped=sbw, is_setop=is_setop)
            if ops is None:
                ctx.broken("T3:scope-step-shape", f"{name}: {err}")
                continue
            add_scope(scope_term(sa, ops, saf, [], None, []), {"prog": name, "step": "merge"})
    except Exception as ex:   # noqa: BLE001
        ctx.broken("T3:scope-merge-steps", f"{type(ex).__name__}: {ex}")

    # ---- collect the workers' results
    t_impl = time.time()
    hist_status, hist_export = {}, {}
    pair_items, pair_meta, ident_items, ident_meta, raw_devs = [], [], [], [], []
    n_exec = n_collect_raises = n_nontriv = 0
    n_broken_by_name = {}
    for fu in futs:
        try:
            R = fu.result(timeout=1500)
        except Exception as ex:   # noqa: BLE001
            ctx.broken("worker-crashed", f"{type(ex).__name__}: {ex}")
            continue
        for idx, info in R["prog"].items():
            progs[idx].update(info)
        for idx, tname, item in R["pairs"]:
            pair_items.append(item)
            pair_meta.append({"prog": progs[idx], "table": tname})
        for term, meta in R["scopes"]:
            add_scope(term, meta)
        for idx, ids in R["idents"]:
            ident_items.append(listlit([strlit(i) for i in ids]))
            ident_meta.append({"prog": progs[idx], "ids": ids})
        for d in R["devs"]:
            d["prog"] = progs[d.pop("idx")]
            raw_devs.append(d)
        for name, detail, data in R["brokens"]:
            n_broken_by_name[name] = n_broken_by_name.get(name, 0) + 1
            if n_broken_by_name[name] <= 3:
                ctx.broken(name, detail, data)
        for h, tgt in (("hist_status", hist_status), ("hist_export", hist_export)):
            for k, v in R[h].items():
                tgt[k] = tgt.get(k, 0) + v
        n_exec += R["n_exec"]
        n_nontriv += R["n_nontriv"]
        n_collect_raises += R["n_collect_raises"]
    pool.shutdown()
    raw_devs.sort(key=lambda d: (d["prog"]["idx"], d["table"], d["cfg"]))
    ctx.log(f"implementation: {len(progs)} programs, {n_exec} executions of returned text, "
            f"{len(raw_devs)} raw deviations (waited {time.time() - t_impl:.1f}s, total {time.time() - t_start:.1f}s)")

    # ---- Coq: pairs
    res = ctx.cases("c03p", HEADER_PAIR, pair_items, per_file=30, result_ty="str", fn="check")
    n_model_raw_bad = n_model_opt_bad = n_engine_order = 0
    model_bad = []
    for it, m, r_ in zip(pair_items, pair_meta, res):
        if r_ is None or len(r_) != 5:
            continue
        cert, mr, mo, mrb, mob = (ch == "1" for ch in r_)
        p = m["prog"]
        p.setdefault("verdict", {})[m["table"]] = r_
        if m["table"] == "t1":
            p["certified"] = cert
        if not mrb:
            n_model_raw_bad += 1
            model_bad.append({"program": p["desc"], "table": m["table"], "which": "raw chain vs collect()", "coq_case": it[:1500]})
        if not mob:
            n_model_opt_bad += 1
            model_bad.append({"program": p["desc"], "table": m["table"], "which": "optimised chain vs optimised text", "coq_case": it[:1500]})
        if (mrb and not mr) or (mob and not mo):
            n_engine_order += 1      # same multiset, another order: DuckDB did not keep the order Sql.eval assumes
    chain_progs = [p for p in progs if p["kind"] == "chain"]
    exported = [p for p in chain_progs if p.get("raw_export") and p.get("opt_export")]
    certified = [p for p in chain_progs if p.get("certified")]
    undecided = [p for p in chain_progs if not p.get("certified") and not p.get("collect_error") and not p.get("build_error")]
    if model_bad:
        ctx.broken("T3:engine-vs-exported-chain",
                   f"{len(model_bad)} (program, table) cases where Coq's evaluation of the exported chain differs from DuckDB's rows; "
                   f"first: {model_bad[0]['program']} on {model_bad[0]['table']} ({model_bad[0]['which']})", data=model_bad[:5])
    for p in chain_progs:
        if p["corpus"] and not p.get("certified"):
            ctx.broken("T2:corpus-shape-no-longer-certifies",
                       f"{p['name']}: {p['desc']} (export: raw={'ok' if p.get('raw_export') else 'no'}, "
                       f"opt={'ok' if p.get('opt_export') else 'no'}; collect: {p.get('collect_error')})",
                       data={"steps_json": p["steps"]})
    ctx.log(f"pairs: {len(certified)} of {len(chain_progs)} chain programs certified ({time.time() - t_start:.1f}s)")

    # ---- differential search on extra random tables for pairs that did not certify
    t_search = time.time()
    extra = random_tables(ctx.seed + 11, 3 if ctx.tier == "quick" else 6)
    dev_keys = {d["prog"]["idx"] for d in raw_devs if d["cfg"][0]}
    n_search = 0
    for p in undecided:
        if p["idx"] in dev_keys:
            continue
        for k, rows in enumerate(extra):
            try:
                dfs = build(p, None, session, F, rows_override=rows)
                ref = collect_ref(dfs[-1])
                pre = collect_ref(dfs[-2])[1] if p["mode"] == "sub" else []
            except Exception:   # noqa: BLE001
                break
            status, detail, text, got = run_cfg(dfs[-1], conn, MAIN_CFG, ref, p["mode"], p["lim"], pre)
            n_search += 1
            n_exec += 1
            if status != "ok":
                raw_devs.append({"prog": p, "table": f"random{k}", "rows": rows, "cfg": MAIN_CFG, "status": status,
                                 "detail": detail, "text": text, "ref": ref, "got": got})
                dev_keys.add(p["idx"])
                break
    ctx.log(f"search: {n_search} extra executions on {len(extra)} random tables for {len(undecided)} uncertified programs "
            f"({time.time() - t_search:.1f}s)")

    # ---- Coq: scopes
    sres = ctx.cases("c03s", HEADER_SCOPE, scope_items, per_file=40, result_ty="str", fn="check")
    names_bits = ["before-scoped", "oracle-names-fresh", "model-step=impl", "after-scoped", "rehash-injective",
                  "rename-model=impl", "returned-texts-scoped"]
    scope_bad = {}
    for it, m, r_ in zip(scope_items, scope_meta, sres):
        if r_ is None or len(r_) != 7:
            continue
        for nm, ch in zip(names_bits, r_):
            if ch != "1":
                scope_bad.setdefault(nm, []).append({"program": m["prog"], "step": m["step"], "verdict": r_, "coq_case": it[:3000]})
    for nm, lst in scope_bad.items():
        if nm in ("after-scoped", "returned-texts-scoped", "before-scoped"):
            ctx.deviation("C03/not-self-contained:" + nm, "a statement / tree the implementation produced references an undefined "
                          "CTE or defines a name twice", lst[0])
        elif nm in ("oracle-names-fresh", "rehash-injective"):
            ctx.deviation("C03/cte-name-collision:" + nm, "the crc32-prefix names of one query collide (oracle hypothesis of "
                          "C03_scoped_partial / C03_rehash_partial violated)", lst[0])
        else:
            ctx.broken("T3:cte-model-vs-impl:" + nm, f"{len(lst)} steps; first: {lst[0]['program']} step {lst[0]['step']}", data=lst[:3])

    # ---- Coq: identifiers; the lexer model against the engine's keyword table
    kws = [r_[0] for r_ in conn.execute("select keyword_name from duckdb_keywords() order by 1").fetchall()]
    probes = kws + ["a", "t28858906", "a_1", "_x", "x9", "A", "aB", "order by", "1a", "a-b", "a$b", ""]
    ident_all = ident_items + [listlit([strlit(k) for k in probes])]
    ires = ctx.cases("c03i", HEADER_IDENT, ident_all, per_file=40, result_ty="str", fn="check")
    n_plain_ok = n_plain = 0
    if ires and ires[-1] is not None and len(ires[-1]) == len(probes):
        for k, ch in zip(probes, ires[-1]):
            if ch != "1":
                continue
            n_plain += 1
            okk = True
            for qtext, want in ((f"WITH {k} AS (SELECT 1 AS x) SELECT {k}.x FROM {k} AS {k}", "x"),
                                (f"WITH t AS (SELECT 1 AS {k}) SELECT t.{k}, {k} FROM t WHERE {k} = 1 ORDER BY {k}", k),
                                (f"SELECT {k} FROM (VALUES (1)) AS {k}({k})", k)):
                try:
                    c_, _ = exec_text(conn, qtext)
                    if c_[-1] != want:
                        okk = False
                except Exception:   # noqa: BLE001
                    okk = False
            if okk:
                n_plain_ok += 1
            else:
                ctx.broken("T3:lexer-model", f"identifier {k!r} is plain for the Coq lexer model but DuckDB does not read it back bare")
    else:
        ctx.broken("T3:lexer-model", "keyword probe case did not evaluate")
    n_unq_pred_ok = 0
    for m, r_ in zip(ident_meta, ires[:-1]):
        if r_ is None or len(r_) != len(m["ids"]):
            continue
        all_plain = all(ch == "1" for ch in r_)
        m["prog"]["all_plain"] = all_plain
        m["prog"]["nonplain"] = [i for i, ch in zip(m["ids"], r_) if ch != "1"]
        n_unq_pred_ok += all_plain

    # ---- classify the deviations
    t_cls = time.time()
    shrink_cache = {}

    def deviates(prog, steps, tname, rows):
        """does sql(optimize=True, quote_identifiers=True) still disagree with collect() for this shorter program?"""
        try:
            (mode, lim), st2 = c01.plan_mode(steps)
            if len(st2) != len(steps) or not steps:
                return None
            dfs = build(prog, tname, session, F, steps=steps, rows_override=rows)
            ref = collect_ref(dfs[-1])
            pre = collect_ref(dfs[-2])[1] if mode == "sub" else []
        except Exception:   # noqa: BLE001
            return None
        status, detail, text, got = run_cfg(dfs[-1], conn, MAIN_CFG, ref, mode, lim, pre)
        return None if status == "ok" else (status, detail, text, ref, got, mode)

    def shrink(prog, tname, rows):
        key = (prog["idx"], tname, repr(rows))
        if key in shrink_cache:
            return shrink_cache[key]
        steps = list(prog["steps"])
        cur = deviates(prog, steps, tname, rows)
        if cur is None:
            shrink_cache[key] = (steps, None)
            return shrink_cache[key]
        changed = True
        while changed and len(steps) > 1:
            changed = False
            for i in range(len(steps)):
                cand = steps[:i] + steps[i + 1:]
                cols, okc = {"a": "int", "b": "int", "s": "str"}, True
                for st in cand:
                    try:
                        cols = c01.cols_after(st, cols)
                    except Exception:   # noqa: BLE001
                        cols = None
                    if cols is None:
                        okc = False
                        break
                if not okc:
                    continue
                d2 = deviates(prog, cand, tname, rows)
                if d2 is not None and d2[0] == cur[0]:
                    steps, cur, changed = cand, d2, True
                    break
        shrink_cache[key] = (steps, cur)
        return shrink_cache[key]

    n_dev = {"optimize": 0, "unquoted": 0, "raises": 0, "other": 0}
    all_sigs = {}
    n_order_skipped = 0

    def emit(sig, what, base):
        ctx.deviation(sig, what, base)
        all_sigs[sig] = all_sigs.get(sig, 0) + 1

    def quoted_counterpart(p, table, o):
        """status of the QUOTED rendering of the same statement on the same table (pretty does not matter), or None when
        no quoted rendering was executed there"""
        ran = CFGS if table == "t1" else (SIDE_CFGS if table in ("t2", "empty") else [MAIN_CFG])
        cands = [c for c in ran if c[0] == o and c[1]]
        if not cands:
            return None
        for e in raw_devs:
            if e["prog"] is p and e["table"] == table and e["cfg"] in cands:
                return e["status"]
        return "ok"

    for d in raw_devs:
        p, cfg, status = d["prog"], d["cfg"], d["status"]
        o, q, pr = cfg
        rows = d.get("rows")
        base = {"program": p["desc"], "kind": p["kind"], "table": d["table"], "rows": rows,
                "config": {"optimize": o, "quote_identifiers": q, "pretty": pr, "dialect": "duckdb"},
                "status": status, "detail": d["detail"], "sql_text": d["text"],
                "collect": {"columns": d["ref"][0], "rows": d["ref"][1]},
                "text_result": ({"columns": d["got"][0], "rows": d["got"][1]} if d["got"] else None),
                "steps_json": p.get("steps"), "name": p["name"], "mode": p["mode"]}
        qc = quoted_counterpart(p, d["table"], o)
        if not q and qc is not None and qc != status:
            # the quoted rendering of the same statement behaves differently: the failure is the unquoted printing
            if p.get("all_plain") is False:
                n_dev["unquoted"] += 1
                base["non_plain_identifiers"] = p.get("nonplain")
                emit("C03/unquoted-nonplain-identifier",
                     "quote_identifiers=False prints an identifier that DuckDB does not read back bare "
                     "(reserved word / not a word); the text fails or means something else", base)
            else:
                # every identifier is plain, so by unquoted_ok the engine reads the bare text like the quoted one -- unless
                # the implementation prints the two renderings from different trees: a concrete failing input either way
                n_dev["unquoted"] += 1
                shape_ = p["name"] or ">".join(kinds(p["steps"]))
                emit(f"C03/unquoted-text-{status}-on-plain-identifiers:{'optimized' if o else 'unoptimized'}:{p.get('tag') or shape_}",
                     "with quote_identifiers=False the returned text fails / differs although every identifier is a plain one "
                     "and the quoted rendering of the same statement is fine", base)
            continue
        if status == "names-differ" and p["kind"] == "ident" and p["tag"] == "nonword" \
                and d["ref"][0] == [("ORDER BY" if c == "order by" else c) for c in (d["got"] or [[]])[0]]:
            n_dev["other"] += 1
            emit("C03/collect-uppercases-keyword-phrase-column-name",
                 "collect() names a column `ORDER BY` that the engine (and the text of df.sql()) call `order by`: "
                 "_BaseSession._collect re-parses the engine's column name as SQL and gets the keyword token's text", base)
            continue
        if not o:
            n_dev["other"] += 1
            emit(f"C03/unoptimized-text-{status}:{p['name'] or '>'.join(kinds(p['steps'])[-3:])}",
                 "sql(optimize=False) does not reproduce collect()", base)
            continue
        # optimize=True
        if status == "rows-differ" and p["mode"] == "seq" and d["got"] is not None \
                and canon(d["ref"][1]) == canon(d["got"][1]):
            # only the ORDER differs: reported only where Coq's evaluation of the raw chain reproduces collect()'s
            # order (i.e. the engine did keep the order the DataFrame program promises)
            v = (p.get("verdict") or {}).get(d["table"])
            if not (v and v[1] == "1"):
                n_order_skipped += 1
                continue
        cur = None
        if p["kind"] == "chain":
            steps, cur = shrink(p, d["table"] if rows is None else None, rows)
            shape = "shape:" + ">".join(kinds(steps))
            base["shrunk_program"] = [c01.step_str(s) for s in steps]
            base["shrunk_steps_json"] = steps
            if cur is not None:
                base["shrunk_status"], base["shrunk_detail"], base["shrunk_sql_text"] = cur[0], cur[1], cur[2]
                base["shrunk_collect"], base["shrunk_text_result"] = cur[3], cur[4]
                status = cur[0]
            try:
                dfs = build(p, d["table"] if rows is None else None, session, F, steps=steps, rows_override=rows)
                mech = mechanisms(dfs[-1]._get_expressions(optimize=False)[0], exp)
                base["hazards_in_raw_tree"] = mech
                for m_ in MECH_ORDER:
                    if m_ in mech:
                        shape = m_
                        break
                else:
                    txt = (cur[2] if cur is not None else d["text"]) or ""
                    det = (cur[1] if cur is not None else d["detail"]) or ""
                    if status == "exec-fails" and "Parser Error" in det and "IS NOT DISTINCT FROM" in txt:
                        shape = "nullsafe-eq-printed-without-parentheses"
            except Exception:   # noqa: BLE001
                pass
        else:
            shape = TAG_SIG.get(p["tag"], p["tag"])
        if status == "sql-raises":
            n_dev["raises"] += 1
            exc = (cur[1] if cur is not None else d["detail"]).split(":")[0]
            emit(f"C03/optimize-sql-raises-{exc}:{shape}",
                 "df.sql() (optimize=True, the default) raises for a DataFrame that collect() evaluates", base)
        else:
            n_dev["optimize"] += 1
            emit(f"C03/optimize-changes-result:{shape}",
                 "the text of df.sql() (optimize=True, the default) does not return collect()'s rows/columns", base)
    ctx.log(f"classified {len(raw_devs)} raw deviations ({time.time() - t_cls:.1f}s): {n_dev}")
    with open(os.path.join(ctx.build, "deviation_signatures.json"), "w") as f:
        json.dump(all_sigs, f, indent=1, sort_keys=True)
    first = {}
    for d in ctx.deviations:
        first.setdefault(d["signature"], d)
    with open(os.path.join(ctx.build, "deviation_examples.json"), "w") as f:
        json.dump(first, f, indent=1, sort_keys=True, default=str)

    # certified AND a data witness would contradict the theorem (exporter or engine model wrong)
    for d in raw_devs:
        p = d["prog"]
        if p.get("certified") and d["cfg"][0] and d["cfg"][1] and d["status"] in ("rows-differ", "names-differ"):
            ctx.broken("T3:certified-pair-differs-on-engine",
                       f"{p['desc']} on {d['table']}: Coq certified raw = optimised for all inputs, DuckDB disagrees", data=None)
            break

    n_undecided = len([p for p in undecided if p["idx"] not in dev_keys])
    for p in certified[:2] + [q_ for q_ in undecided if q_["idx"] not in dev_keys][:2]:
        ctx.sample({"program": p["desc"], "certified": bool(p.get("certified")),
                    "exported": bool(p.get("raw_export")) and bool(p.get("opt_export"))})
    ctx.coverage.update({
        "evaluations": n_exec,
        "distinct_nontrivial": n_nontriv,
        "rule": "evaluation = one text returned by df.sql(dialect='duckdb', optimize, quote_identifiers, pretty) executed on "
                "session._conn and compared with df.collect() (rows as sequence under a total order, as multiset otherwise; column "
                "names always); table t1: all 8 configurations, t2/empty/random: optimize=True and one unoptimised; non-trivial = "
                "(program, table) with a non-empty result and >= 2 operations (or a multi-input program); distinct by (program text, table)",
        "programs": len(progs), "chain_programs": len(chain_progs),
        "multi_input_programs": len([p for p in progs if p["kind"] == "multi"]),
        "identifier_programs": len([p for p in progs if p["kind"] == "ident"]),
        "string_crosstype_hint_programs": len([p for p in progs if p["kind"] == "free"]),
        "pairs_exported_both": len(exported), "pairs_certified": len(certified),
        "certified_fraction_of_chain_programs": round(len(certified) / max(1, len(chain_progs)), 3),
        "corpus_shapes_must_certify": len(CORPUS),
        "undecided_pairs": n_undecided,
        "uncertified_with_data_witness": len([p for p in undecided if p["idx"] in dev_keys]),
        "search_executions": n_search,
        "pair_evaluations_in_coq": len(pair_items), "model_raw_vs_collect_bad": n_model_raw_bad,
        "model_opt_vs_text_bad": n_model_opt_bad, "engine_order_differs_from_model": n_engine_order,
        "order_only_deviations_not_reported": n_order_skipped,
        "scope_steps_checked": len(scope_items),
        "identifier_sets_checked": len(ident_items), "identifier_sets_all_plain": n_unq_pred_ok,
        "lexer_model_probe_plain_words": n_plain, "lexer_model_probe_agree": n_plain_ok,
        "collect_raises_skipped": n_collect_raises,
        "raw_deviations": len(raw_devs), "deviation_classes": n_dev, "deviation_signatures": all_sigs,
        "histogram_operation_kind": hist_kind, "histogram_program_length": hist_len,
        "histogram_status": hist_status, "histogram_export": hist_export,
    })
    ctx.assumptions += [
        "sqlglot (generator, optimizer, parser used to read the returned text back) and DuckDB are environment; the optimizer is not "
        "modelled: each optimised tree is validated against the raw tree by the certified checker equiv_check",
        "Sql.Block.eval_block is my definition of DuckDB's SELECT evaluation on the exported fragment; validated on every exported "
        "chain (raw and optimised) against the rows DuckDB returns (coverage.pair_evaluations_in_coq)",
        "the exporter translate/c03_export.py (qualifier erasure, CAST of the VALUES layer = the typed input column) is trusted, "
        "fail-closed, and validated by the same comparison",
        "CTE names are oracle answers (crc32 prefix of text / uuid4): freshness and injectivity on the names of one query are "
        "hypotheses of C03_scoped_partial / C03_rehash_partial, evaluated on every exported step and statement",
        "reserved := duckdb_keywords() categories reserved + type_function of the installed DuckDB; Render.lex_word is my model of "
        "its lexer on bare words, validated on the whole keyword table and on every identifier of every exported statement",
        "pretty=True only changes whitespace: not proved, observed by T3 (every pretty text is executed)",
        "DuckDB keeps the order of an ordered CTE through outer filter/projection/LIMIT (threads=1, small tables)",
    ]
    ctx.trusted += ["translate/c03_facts.py (Python ast -> Coq facts, fail-closed)",
                    "translate/c03_export.py (sqlglot tree -> Coq block chain / CTE list, fail-closed)"]


# ------------------------------------------------------------------------------------------------------------

def _tup(x):
    return tuple(_tup(y) for y in x) if isinstance(x, list) else x


def replay(ctx: core.Ctx, rp: dict) -> int:
    """re-run the program of a replay file on the current tree: collect() vs the text of df.sql(...)"""
    r = rp.get("replay") or rp
    from sqlframe.duckdb import DuckDBSession
    import sqlframe.duckdb.functions as F
    from checks import c01
    session = DuckDBSession()
    conn = session._conn
    cfgd = r.get("config", {"optimize": True, "quote_identifiers": True, "pretty": False})
    cfg = (cfgd["optimize"], cfgd["quote_identifiers"], cfgd["pretty"])
    kind = r.get("kind", "chain")
    if kind == "chain":
        steps = [_tup(s) for s in (r.get("shrunk_steps_json") or r["steps_json"])]
        (mode, lim), steps = c01.plan_mode(steps)
        prog = {"kind": "chain", "steps": steps}
        rows = [tuple(x) for x in r["rows"]] if r.get("rows") else None
        tname = r.get("table") if rows is None else None
        dfs = build(prog, tname, session, F, rows_override=rows)
        print("program:", [c01.step_str(s) for s in steps], "table:", rows if rows is not None else c01.TABLES[tname])
    else:
        cands = [p for p in multi_programs() + ident_programs() + free_programs() if p["name"] == r["name"]]
        if not cands:
            print("unknown program", r.get("name"))
            return 2
        prog = cands[0]
        mode, lim = "bag", None
        dfs = build(prog, r.get("table", "t1"), session, F)
        print("program:", prog["name"], "table:", r.get("table", "t1"))
    df = dfs[-1]
    ref = collect_ref(df)
    print("collect():", ref)
    pre = collect_ref(dfs[-2])[1] if mode == "sub" else []
    status, detail, text, got = run_cfg(df, conn, cfg, ref, mode, lim, pre)
    print("config:", cfgd)
    print("sql():", text)
    print("text executed:", got)
    print("status:", status, detail)
    print("recorded status:", r.get("shrunk_status") or r.get("status"))
    return 0 if status == "ok" else 1
