"""C05 -- user expression trees: representation, typed generator, conversion to Coq terms and to real Column
objects (the same code drives sqlframe's and PySpark's `functions` module, which have the same API).

tree := ("col", name) | ("lit", v) | ("py", v)                      F.col / F.lit / bare Python operand
      | ("bin", op, a, b) | ("rbin", op, v, b) | ("nse", a, b)     a <op> b ; v <op> b (reflected) ; a.eqNullSafe(b)
      | ("neg", a) | ("not", a) | ("isnull", a) | ("isnotnull", a)
      | ("isin", a, [v..]) | ("between", a, lo, hi) | ("like", a, pat) | ("ilike", a, pat) | ("rlike", a, pat)
      | ("startswith", a, b) | ("endswith", a, b) | ("substr", a, p, l)
      | ("when", [(c, v)..], otherwise | None) | ("cast", a, sparktype) | ("alias", a, name)
      | ("getitem", a, k) | ("getitemcol", a, c)
"""
from __future__ import annotations

import itertools

from vlib.core import strlit, zlit, natlit, listlit

UOP = {"+": "UAdd", "-": "USub", "*": "UMul", "/": "UDiv", "%": "UMod", "==": "UEq", "!=": "UNeq",
       "<": "ULt", "<=": "ULe", ">": "UGt", ">=": "UGe", "&": "UAnd", "|": "UOr"}
ARITH = ["+", "-", "*", "/", "%"]
CMP = ["==", "!=", "<", "<=", ">", ">="]
CAST_SQL = {"string": "TEXT", "bigint": "BIGINT", "int": "INT", "double": "DOUBLE", "boolean": "BOOLEAN"}

SCHEMA = "id bigint, a bigint, b bigint, s string, t string, p boolean, q boolean, l array<bigint>, d double"
COLS = ["a", "b", "s", "t", "p", "q", "d"]
COLTYPE = {"a": "int", "b": "int", "s": "str", "t": "str", "p": "bool", "q": "bool", "l": "arr", "d": "dbl"}
INTS = [None, 0, 1, -1, 2]
STRS = [None, "", "a", "ab"]
BOOLS = [None, True, False]
ARRS = [[10, 20, 30], None, [], [7]]
DBLS = [1.25, -3.25, None, 1.75, 2.0, 2.5, 0.0, -0.5]      # exactly representable; 1.75 / 2.5 / -0.5 separate rounding from truncation


def make_rows():
    rows = []
    ab = list(itertools.product(INTS, INTS))
    st = list(itertools.product(STRS, STRS))
    pq = list(itertools.product(BOOLS, BOOLS))
    for i in range(30):
        a, b = ab[i % len(ab)]
        s, t = st[(i * 5 + 1) % len(st)]
        p, q = pq[(i * 2 + 1) % len(pq)]
        rows.append((i, a, b, s, t, p, q, ARRS[i % len(ARRS)], DBLS[i % len(DBLS)]))
    return rows


ROWS = make_rows()


# Columns built from SQL text (F.expr / SQL-string Column): text -> (type, parse tree as a Coq sexpr term).
# The tree is what sqlglot's Spark reader builds for the text (tie T2 compares the emitted text and DuckDB's parse).
_c = lambda n: f'(SCol "{n}"%string)'
_i = lambda k: f"(SLit (VInt ({k})%Z))"
EXPRS = {
    "a - b": ("int", f"(SBin Sub {_c('a')} {_c('b')})"),
    "a + 1": ("int", f"(SBin Add {_c('a')} {_i(1)})"),
    "a * b - 1": ("int", f"(SBin Sub (SBin Mul {_c('a')} {_c('b')}) {_i(1)})"),
    "a % 2": ("int", f"(SBin Mod {_c('a')} {_i(2)})"),
    "(a - b)": ("int", f"(SParen (SBin Sub {_c('a')} {_c('b')}))"),
    "p OR q": ("bool", f"(SBin Or {_c('p')} {_c('q')})"),
    "p AND q": ("bool", f"(SBin And {_c('p')} {_c('q')})"),
    "a > 0 AND p": ("bool", f"(SBin And (SBin Gt {_c('a')} {_i(0)}) {_c('p')})"),
    "a = b": ("bool", f"(SBin Eq {_c('a')} {_c('b')})"),
    "NOT p": ("bool", f"(SNot {_c('p')})"),
    "a IS NULL": ("bool", f"(SIsNull {_c('a')})"),
}


# ---------------------------------------------------------------------------------------------- Coq terms
def val_coq(v) -> str:
    if v is None:
        return "VNull"
    if isinstance(v, bool):
        return f"(VBool {'true' if v else 'false'})"
    if isinstance(v, int):
        return f"(VInt {zlit(v)})"
    if isinstance(v, str):
        return f"(VStr {strlit(v)})"
    if isinstance(v, float):
        from fractions import Fraction
        fr = Fraction(v)          # exact
        return f"(VRat {zlit(fr.numerator)} {fr.denominator}%positive)"
    raise ValueError(v)


def to_coq(t) -> str:
    k = t[0]
    if k == "expr":
        return f"(UExpr {EXPRS[t[1]][1]})"
    if k == "col":
        return f"(UCol {strlit(t[1])})"
    if k == "lit":
        return f"(ULit {val_coq(t[1])})"
    if k == "py":
        return f"(UPy {val_coq(t[1])})"
    if k == "bin":
        return f"(UBin {UOP[t[1]]} {to_coq(t[2])} {to_coq(t[3])})"
    if k == "rbin":
        return f"(URBin {UOP[t[1]]} {val_coq(t[2])} {to_coq(t[3])})"
    if k == "nse":
        return f"(UNse {to_coq(t[1])} {to_coq(t[2])})"
    if k in ("neg", "not", "isnull", "isnotnull"):
        c = {"neg": "UNeg", "not": "UNot", "isnull": "UIsNull", "isnotnull": "UIsNotNull"}[k]
        return f"({c} {to_coq(t[1])})"
    if k == "isin":
        return f"(UIsin {to_coq(t[1])} {listlit([val_coq(v) for v in t[2]])})"
    if k == "between":
        return f"(UBetween {to_coq(t[1])} {to_coq(t[2])} {to_coq(t[3])})"
    if k in ("like", "ilike", "rlike"):
        c = {"like": "ULike", "ilike": "UILike", "rlike": "URlike"}[k]
        return f"({c} {to_coq(t[1])} {strlit(t[2])})"
    if k in ("startswith", "endswith"):
        c = {"startswith": "UStartsWith", "endswith": "UEndsWith"}[k]
        return f"({c} {to_coq(t[1])} {to_coq(t[2])})"
    if k == "substr":
        return f"(USubstr {to_coq(t[1])} {to_coq(t[2])} {to_coq(t[3])})"
    if k == "when":
        acc = "UBEnd" if t[2] is None else f"(UBElse {to_coq(t[2])})"
        for c, v in reversed(t[1]):
            acc = f"(UBWhen {to_coq(c)} {to_coq(v)} {acc})"
        return f"(UWhen {acc})"
    if k == "cast":
        return f"(UCast {to_coq(t[1])} {strlit(CAST_SQL[t[2]])})"
    if k == "alias":
        return f"(UAlias {to_coq(t[1])} {strlit(t[2])})"
    if k == "getitem":
        return f"(UGetItemLit {to_coq(t[1])} {natlit(t[2])})"
    if k == "getitemcol":
        return f"(UGetItemCol {to_coq(t[1])} {to_coq(t[2])})"
    raise ValueError(t)


def env_coq(row) -> str:
    _id, a, b, s, t, p, q, l, d = row
    arrs = "[]" if l is None else f"[({strlit('l')}, {listlit([val_coq(x) for x in l])})]"
    return f"(mkEnv {listlit([strlit(c) for c in COLS])} {listlit([val_coq(x) for x in (a, b, s, t, p, q, d)])} {arrs})"


# ---------------------------------------------------------------------------------------------- source text
def to_src(t) -> str:
    k = t[0]
    if k == "expr":
        return f"expr({t[1]!r})"
    if k == "col":
        return f"col('{t[1]}')"
    if k == "lit":
        return f"lit({t[1]!r})"
    if k == "py":
        return repr(t[1])
    if k == "bin":
        return f"({to_src(t[2])} {t[1]} {to_src(t[3])})"
    if k == "rbin":
        return f"({t[2]!r} {t[1]} {to_src(t[3])})"
    if k == "nse":
        return f"{to_src(t[1])}.eqNullSafe({to_src(t[2])})"
    if k == "neg":
        return f"(-{to_src(t[1])})"
    if k == "not":
        return f"(~{to_src(t[1])})"
    if k == "isnull":
        return f"{to_src(t[1])}.isNull()"
    if k == "isnotnull":
        return f"{to_src(t[1])}.isNotNull()"
    if k == "isin":
        return f"{to_src(t[1])}.isin({', '.join(repr(v) for v in t[2])})"
    if k == "between":
        return f"{to_src(t[1])}.between({to_src(t[2])}, {to_src(t[3])})"
    if k in ("like", "ilike", "rlike"):
        return f"{to_src(t[1])}.{k}({t[2]!r})"
    if k in ("startswith", "endswith"):
        return f"{to_src(t[1])}.{k}({to_src(t[2])})"
    if k == "substr":
        return f"{to_src(t[1])}.substr({to_src(t[2])}, {to_src(t[3])})"
    if k == "when":
        s = "".join((".when" if i else "when") + f"({to_src(c)}, {to_src(v)})" for i, (c, v) in enumerate(t[1]))
        return s + (f".otherwise({to_src(t[2])})" if t[2] is not None else "")
    if k == "cast":
        return f"{to_src(t[1])}.cast('{t[2]}')"
    if k == "alias":
        return f"{to_src(t[1])}.alias('{t[2]}')"
    if k == "getitem":
        return f"{to_src(t[1])}.getItem({t[2]})"
    if k == "getitemcol":
        return f"{to_src(t[1])}.getItem({to_src(t[2])})"
    raise ValueError(t)


# ---------------------------------------------------------------------------------------------- real Columns
def to_col(t, F, hole=None):
    """build the real Column with module F (sqlframe.duckdb.functions or pyspark.sql.functions);
    ("hole",) stands for the already built Column object `hole` (shared sub-expression), and
    ("whenx", more, otherwise) for hole.when(..)...[.otherwise(..)] (a shared when-chain prefix)"""
    import operator
    k = t[0]
    if k == "expr":
        return F.expr(t[1])
    if k == "hole":
        return hole
    if k == "whenx":
        c = hole
        for cd, v in t[1]:
            c = c.when(to_col(cd, F, hole), to_col(v, F, hole))
        return c.otherwise(to_col(t[2], F, hole)) if t[2] is not None else c
    if k == "col":
        return F.col(t[1])
    if k == "lit":
        return F.lit(t[1])
    if k == "py":
        return t[1]
    OPS = {"+": operator.add, "-": operator.sub, "*": operator.mul, "/": operator.truediv, "%": operator.mod,
           "==": operator.eq, "!=": operator.ne, "<": operator.lt, "<=": operator.le, ">": operator.gt,
           ">=": operator.ge, "&": operator.and_, "|": operator.or_}
    if k == "bin":
        return OPS[t[1]](to_col(t[2], F, hole), to_col(t[3], F, hole))
    if k == "rbin":
        return OPS[t[1]](t[2], to_col(t[3], F, hole))       # Python dispatches to the reflected dunder
    if k == "nse":
        return to_col(t[1], F, hole).eqNullSafe(to_col(t[2], F, hole))
    if k == "neg":
        return -to_col(t[1], F, hole)
    if k == "not":
        return ~to_col(t[1], F, hole)
    if k == "isnull":
        return to_col(t[1], F, hole).isNull()
    if k == "isnotnull":
        return to_col(t[1], F, hole).isNotNull()
    if k == "isin":
        return to_col(t[1], F, hole).isin(*t[2])
    if k == "between":
        return to_col(t[1], F, hole).between(to_col(t[2], F, hole), to_col(t[3], F, hole))
    if k in ("like", "ilike", "rlike"):
        return getattr(to_col(t[1], F, hole), k)(t[2])
    if k in ("startswith", "endswith"):
        return getattr(to_col(t[1], F, hole), k)(to_col(t[2], F, hole))
    if k == "substr":
        return to_col(t[1], F, hole).substr(to_col(t[2], F, hole), to_col(t[3], F, hole))
    if k == "when":
        c = None
        for cd, v in t[1]:
            c = F.when(to_col(cd, F, hole), to_col(v, F, hole)) if c is None else c.when(to_col(cd, F, hole), to_col(v, F, hole))
        return c.otherwise(to_col(t[2], F, hole)) if t[2] is not None else c
    if k == "cast":
        return to_col(t[1], F, hole).cast(t[2])
    if k == "alias":
        return to_col(t[1], F, hole).alias(t[2])
    if k == "getitem":
        return to_col(t[1], F, hole).getItem(t[2])
    if k == "getitemcol":
        return to_col(t[1], F, hole).getItem(to_col(t[2], F, hole))
    raise ValueError(t)


def subst(ctx, u):
    """the tree as written: the context with its hole filled by the shared sub-tree u"""
    if ctx == ("hole",):
        return u
    if ctx[0] == "whenx":
        assert u[0] == "when" and u[2] is None
        return ("when", list(u[1]) + [(subst(c, u), subst(v, u)) for c, v in ctx[1]],
                None if ctx[2] is None else subst(ctx[2], u))
    if ctx[0] == "when":
        return ("when", [(subst(c, u), subst(v, u)) for c, v in ctx[1]], None if ctx[2] is None else subst(ctx[2], u))
    if ctx[0] in ("col", "lit", "py", "expr"):
        return ctx
    if ctx[0] == "isin":
        return ("isin", subst(ctx[1], u), ctx[2])
    if ctx[0] == "rbin":
        return ("rbin", ctx[1], ctx[2], subst(ctx[3], u))
    return tuple(subst(x, u) if isinstance(x, tuple) else x for x in ctx)


def shared_programs(rnd, n_random=40):
    """programs that build ONE Column object for a sub-expression and reuse it in several larger expressions;
    every use is evaluated after all of them were built.  -> list of (u, [ctx, ...])"""
    A, B, S, P, Q = (("col", c) for c in ["a", "b", "s", "p", "q"])
    H = ("hole",)
    progs = []
    # when-chain prefixes extended into different chains (and used bare)
    for u, more, ows in [
        (("when", [(("bin", "<", A, ("py", 1)), ("py", "low"))], None),
         [(("bin", "<", A, ("py", 2)), ("py", "mid"))], [("py", "high"), ("py", "other")]),
        (("when", [(P, A)], None), [(Q, B)], [("py", 0), B]),
        (("when", [(("isnull", A), ("py", True)), (P, Q)], None), [(("bin", ">", B, ("py", 0)), ("lit", False))], [P, ("py", False)]),
    ]:
        progs.append((u, [("whenx", more, ows[0]), ("whenx", [], ows[1]), ("whenx", more, None), H,
                          ("isnull", H), ("whenx", more + more, ows[1])]))
    # any sub-expression object used in two different larger expressions
    fixed = [
        (("bin", "+", A, B), [("bin", "*", H, ("py", 2)), ("bin", "<", H, B), ("neg", H), ("isnull", H), ("alias", H, "z"), H]),
        (("bin", "==", A, B), [("bin", "&", H, P), ("not", H), ("when", [(H, A)], B), ("cast", H, "string"), H]),
        (("col", "a"), [("bin", "+", H, ("py", 1)), ("rbin", "-", 1, H), ("between", H, ("py", 0), B), ("isin", H, [1, 2]), H]),
        (("alias", ("bin", "*", A, ("py", 2)), "dbl"), [("bin", "+", H, B), ("isnotnull", H), ("cast", H, "string"), H]),
        (("isnull", S), [("bin", "|", H, P), ("not", H), ("bin", "&", ("not", H), H)]),
        (("cast", A, "string"), [("like", H, "1%"), ("startswith", H, ("py", "1")), ("bin", "==", H, S), ("substr", H, ("py", 1), ("py", 1))]),
    ]
    progs += fixed
    g = Gen(rnd)
    hosts = {
        "int": [lambda h, x: ("bin", "+", h, x), lambda h, x: ("bin", "-", x, h), lambda h, x: ("bin", "<", h, x),
                lambda h, x: ("neg", h), lambda h, x: ("isnull", h), lambda h, x: ("nse", x, h),
                lambda h, x: ("between", x, h, ("py", 2)), lambda h, x: ("rbin", "*", 2, h),
                lambda h, x: ("when", [(("bin", ">", h, ("py", 0)), h)], x), lambda h, x: ("cast", h, "string")],
        "bool": [lambda h, x: ("bin", "&", h, x), lambda h, x: ("bin", "|", x, h), lambda h, x: ("not", h),
                 lambda h, x: ("when", [(h, x)], ("not", h)), lambda h, x: ("isnotnull", h), lambda h, x: ("alias", h, "z")],
        "str": [lambda h, x: ("bin", "==", h, x), lambda h, x: ("like", h, "a%"), lambda h, x: ("isnull", h),
                lambda h, x: ("startswith", h, x), lambda h, x: ("substr", h, ("py", 1), ("py", 1))],
    }
    for _ in range(n_random):
        ty = rnd.choice(["int", "bool", "str"])
        u = g.gen(ty, rnd.choice([1, 2]))
        if u[0] in ("col", "lit"):
            continue
        ctxs = [h(H, g.gen(ty, 1)) for h in rnd.sample(hosts[ty], 3)] + [H]
        progs.append((u, ctxs))
    return progs


def children(t):
    k = t[0]
    if k in ("col", "lit", "py", "expr"):
        return []
    if k == "bin":
        return [t[2], t[3]]
    if k == "rbin":
        return [t[3]]
    if k in ("nse", "startswith", "endswith", "getitemcol"):
        return [t[1], t[2]]
    if k in ("between", "substr"):
        return [t[1], t[2], t[3]]
    if k == "when":
        return [x for cv in t[1] for x in cv] + ([t[2]] if t[2] is not None else [])
    return [t[1]]


def depth(t):
    cs = children(t)
    return 0 if not cs else 1 + max(depth(c) for c in cs)


def size(t):
    return 1 + sum(size(c) for c in children(t))


def kinds_in(t, acc=None):
    acc = acc if acc is not None else {}
    k = t[0] if t[0] not in ("bin", "rbin") else (t[0] + ":" + ("arith" if t[1] in ARITH else "cmp" if t[1] in CMP else "logic"))
    acc[k] = acc.get(k, 0) + 1
    for c in children(t):
        kinds_in(c, acc)
    return acc


def from_json(x):
    """lists -> tuples (trees read back from JSON)"""
    if isinstance(x, list):
        if x and x[0] == "isin":
            return ("isin", from_json(x[1]), list(x[2]))
        if x and x[0] == "whenx":
            return ("whenx", [(from_json(c), from_json(v)) for c, v in x[1]], None if x[2] is None else from_json(x[2]))
        if x and x[0] == "when":
            return ("when", [(from_json(c), from_json(v)) for c, v in x[1]], None if x[2] is None else from_json(x[2]))
        if x and x[0] in ("lit", "py", "expr"):
            return (x[0], x[1])
        if x and x[0] == "rbin":
            return ("rbin", x[1], x[2], from_json(x[3]))
        return tuple(from_json(y) if isinstance(y, list) else y for y in x)
    return x


# ---------------------------------------------------------------------------------------------- generator
class Gen:
    """typed generator: every tree is a well-typed PySpark program over the schema
    (types: int, num (result of /), str, bool); division by a zero value is possible and handled as
    out-of-domain per row by the Coq side."""

    def __init__(self, rnd, p_open=0.5):
        self.r = rnd

    def leaf(self, ty):
        r = self.r
        if ty in ("int", "bool") and r.random() < 0.08:      # a Column built from SQL text, as an operand
            return ("expr", r.choice([k for k, v in EXPRS.items() if v[0] == ty]))
        if ty in ("int", "num"):
            return r.choice([("col", "a"), ("col", "b"), ("col", "a"), ("lit", r.choice([0, 1, 2, -1, 3]))])
        if ty == "str":
            return r.choice([("col", "s"), ("col", "t"), ("col", "s"), ("lit", r.choice(["a", "", "ab", "x"]))])
        if ty == "bool":
            return r.choice([("col", "p"), ("col", "q"), ("col", "p"), ("lit", r.choice([True, False]))])
        if ty == "dbl":
            return r.choice([("col", "d"), ("col", "d"), ("alias", ("col", "d"), "w"), ("neg", ("col", "d"))])
        raise ValueError(ty)

    def pyval(self, ty):
        r = self.r
        return {"int": r.choice([0, 1, 2, -1, 3]), "num": r.choice([1, 2, -1]), "str": r.choice(["a", "", "ab", "x"]),
                "bool": r.choice([True, False])}[ty]

    def operand(self, ty, d):
        """right-hand operand: sometimes a bare Python value"""
        if self.r.random() < 0.05:
            return ("py", None)          # a bare Python None: the operator sees NULL (col == None is NULL on every row)
        if self.r.random() < 0.3:
            return ("py", self.pyval(ty))
        return self.gen(ty, d)

    def gen(self, ty, d):
        r = self.r
        if d <= 0 or r.random() < 0.12:
            return self.leaf(ty)
        return r.choice(getattr(self, "forms_" + ty)())(d - 1)

    # each form is a function depth -> tree
    def forms_int(self):
        g, r = self.gen, self.r
        return [
            lambda d: ("bin", r.choice(["+", "-", "*"]), g("int", d), self.operand("int", d)),
            lambda d: ("bin", r.choice(["+", "-", "*"]), g("int", d), self.operand("int", d)),
            lambda d: ("bin", "%", g("int", d), r.choice([("py", 2), ("py", 3), ("lit", -2), g("int", d)])),
            lambda d: ("rbin", r.choice(["+", "-", "*", "%"]), r.choice([1, 2, -1, 5]), g("int", d)),
            lambda d: ("neg", g("int", d)),
            lambda d: self.when("int", d),
            lambda d: ("cast", g("bool", d), "int"),
            lambda d: ("cast", g("int", d), "bigint"),
            lambda d: ("cast", self.leaf("dbl"), r.choice(["int", "bigint"])),                       # lossy on fractions
            lambda d: ("cast", ("cast", g("int", d), "double"), r.choice(["int", "bigint"])),          # stacked casts
            lambda d: ("cast", ("cast", self.leaf("dbl"), "bigint"), "int"),
            lambda d: ("getitem", ("col", "l"), r.choice([0, 1, 2, 5])),
            lambda d: ("alias", g("int", d), "z"),
        ]

    def forms_num(self):
        g, r = self.gen, self.r
        return [
            lambda d: ("bin", "/", g("int", d), self.operand("int", d)),
            lambda d: ("rbin", "/", r.choice([1, 2, -1]), g("int", d)),
            lambda d: ("bin", r.choice(["+", "*", "-"]), g("num", d), self.operand("int", d)),
            lambda d: ("neg", g("num", d)),
            lambda d: ("cast", g("int", d), "double"),
            lambda d: ("cast", ("cast", self.leaf("dbl"), r.choice(["int", "bigint"])), "double"),   # lossy inner cast
            lambda d: ("cast", ("alias", ("cast", self.leaf("dbl"), "bigint"), "whole"), "double"),
            lambda d: self.leaf("dbl"),
        ]

    def forms_str(self):
        g, r = self.gen, self.r
        return [
            lambda d: self.when("str", d),
            lambda d: ("cast", g(r.choice(["int", "bool", "str"]), d), "string"),
            lambda d: ("substr", g("str", d), ("py", r.choice([1, 2, 3, -1, -2, -3, 1, 2])), ("py", r.choice([0, 1, 2, 3]))),
            lambda d: ("alias", g("str", d), "z"),
        ]

    def forms_bool(self):
        g, r = self.gen, self.r
        cmpty = lambda: r.choice(["int", "int", "str", "bool", "num"])

        def cmp(d):
            ty = cmpty()
            op = r.choice(CMP) if ty != "bool" else r.choice(["==", "!="])
            return ("bin", op, g(ty, d), self.operand("int" if ty == "num" else ty, d))

        def nse(d):
            ty = r.choice(["int", "str", "bool"])
            return ("nse", g(ty, d), self.operand(ty, d))

        def isin(d):
            ty = r.choice(["int", "str"])
            vs = [self.pyval(ty) for _ in range(r.randint(1, 3))]
            if r.random() < 0.25:
                vs.append(None)
            return ("isin", g(ty, d), vs)

        def between(d):
            ty = r.choice(["int", "int", "str"])
            return ("between", g(ty, d), self.operand(ty, d), self.operand(ty, d))

        return [
            cmp, cmp, cmp,
            lambda d: ("bin", r.choice(["&", "|"]), g("bool", d), g("bool", d)),
            lambda d: ("bin", r.choice(["&", "|"]), g("bool", d), g("bool", d)),
            lambda d: ("not", g("bool", d)),
            lambda d: ("isnull", g(r.choice(["int", "str", "bool", "bool"]), d)),
            lambda d: ("isnotnull", g(r.choice(["int", "str", "bool", "bool"]), d)),
            nse, isin, between,
            lambda d: ("like", g("str", d), r.choice(["a", "a%", "%b", "_", "%"])),
            lambda d: ("ilike", g("str", d), r.choice(["A%", "a", "%B"])),
            lambda d: ("rlike", g("str", d), r.choice(["a", "b", "ab"])),
            lambda d: ("startswith", g("str", d), r.choice([("py", "a"), ("col", "t")])),
            lambda d: self.when("bool", d),
            lambda d: ("cast", g("int", d), "boolean"),
            lambda d: ("alias", g("bool", d), "z"),
        ]

    def when(self, ty, d):
        r = self.r
        n = r.choice([1, 1, 2])
        val = lambda: ("py", self.pyval(ty)) if r.random() < 0.4 else self.gen(ty, d)
        bs = [(self.gen("bool", d), val()) for _ in range(n)]
        return ("when", bs, val() if r.random() < 0.7 else None)


def exhaustive(max_depth=2):
    """every operator form over canonical leaves (depth 1), and every form with each operand position replaced by
    every depth-1 form of the right type (depth 2)"""
    A, B, S, T, P, Q = (("col", c) for c in ["a", "b", "s", "t", "p", "q"])
    d1 = {
        "int": [("bin", "+", A, B), ("bin", "-", A, ("py", 1)), ("bin", "*", A, B), ("bin", "%", A, ("py", 2)),
                ("rbin", "-", 1, A), ("rbin", "%", 5, B), ("rbin", "+", 2, A), ("rbin", "*", 2, A), ("neg", A),
                ("when", [(P, A)], B), ("when", [(P, A), (Q, ("py", 1))], None), ("cast", P, "int"),
                ("cast", A, "bigint"), ("getitem", ("col", "l"), 0), ("getitem", ("col", "l"), 2), ("alias", A, "z"),
                ("lit", -1), ("lit", None)],
        "num": [("bin", "/", A, B), ("rbin", "/", 1, A), ("cast", A, "double")],
        "str": [("when", [(P, S)], ("py", "x")), ("cast", A, "string"), ("cast", P, "string"),
                ("substr", S, ("py", 1), ("py", 2)), ("alias", S, "z")],
        "bool": [("bin", "==", A, B), ("bin", "!=", A, ("py", 1)), ("bin", "<", A, B), ("bin", "<=", A, B),
                 ("bin", ">", A, ("py", 0)), ("bin", ">=", A, B), ("bin", "==", S, ("py", "a")), ("bin", "<", S, T),
                 ("bin", "==", P, Q), ("bin", "&", P, Q), ("bin", "|", P, Q), ("not", P), ("isnull", A), ("isnull", P),
                 ("isnotnull", A), ("isnotnull", P), ("nse", A, B), ("nse", P, Q), ("nse", S, ("py", "a")),
                 ("isin", A, [1, 2]), ("isin", S, ["a", None]), ("between", A, ("py", 0), B), ("between", S, ("py", "a"), T),
                 ("like", S, "a%"), ("ilike", S, "A%"), ("rlike", S, "a"), ("startswith", S, ("py", "a")),
                 ("startswith", S, T), ("when", [(P, Q)], ("py", False)), ("cast", A, "boolean"), ("alias", P, "z")],
    }
    d1["int"] += [("expr", k) for k, v in EXPRS.items() if v[0] == "int"]
    d1["bool"] += [("expr", k) for k, v in EXPRS.items() if v[0] == "bool"]
    D = ("col", "d")
    d1["int"] += [("cast", D, "int"), ("cast", D, "bigint"), ("cast", ("cast", A, "double"), "int"),
                  ("cast", ("cast", D, "bigint"), "int")]
    d1["num"] += [D, ("neg", D), ("cast", ("cast", D, "int"), "double"), ("cast", ("cast", D, "bigint"), "double"),
                  ("cast", ("alias", ("cast", D, "bigint"), "whole"), "double"), ("cast", ("cast", ("neg", D), "int"), "double")]
    d1["str"] += [("substr", S, ("py", p), ("py", n)) for p in (-3, -2, -1, 1, 2, 3) for n in (1, 2)] \
        + [("substr", T, ("py", -1), ("py", 1)), ("substr", S, ("py", 0), ("py", 2)), ("substr", S, ("lit", -2), ("lit", 2))]
    NONE = ("py", None)
    d1["bool"] += [("bin", "==", A, NONE), ("bin", "!=", A, NONE), ("bin", "<", A, NONE), ("bin", ">=", A, NONE),
                   ("bin", "==", S, NONE), ("bin", "!=", S, NONE), ("bin", "==", P, NONE), ("bin", "!=", P, NONE),
                   ("nse", A, NONE), ("between", A, NONE, B), ("bin", "&", P, NONE), ("bin", "|", P, NONE)]
    d1["int"] += [("bin", "+", A, NONE), ("rbin", "+", None, A), ("rbin", "-", None, A)]
    d1["bool"] += [("bin", "<", D, ("py", 1)), ("bin", "==", ("cast", D, "int"), A), ("isnull", D),
                   ("bin", "==", ("substr", S, ("py", -1), ("py", 1)), ("py", "b"))]
    out = [t for ts in d1.values() for t in ts]
    if max_depth < 2:
        return out
    # hosts: a form with typed holes
    hosts = [
        (lambda x, y: ("bin", "+", x, y), ["int", "int"]), (lambda x, y: ("bin", "-", x, y), ["int", "int"]),
        (lambda x, y: ("bin", "*", x, y), ["int", "int"]), (lambda x, y: ("bin", "/", x, y), ["int", "int"]),
        (lambda x: ("bin", "%", x, ("py", 3)), ["int"]),
        (lambda x: ("rbin", "-", 1, x), ["int"]), (lambda x: ("rbin", "*", 2, x), ["int"]),
        (lambda x: ("neg", x), ["int"]),
        (lambda x, y: ("bin", "==", x, y), ["int", "int"]), (lambda x, y: ("bin", "<", x, y), ["int", "int"]),
        (lambda x, y: ("bin", ">=", x, y), ["int", "int"]),
        (lambda x, y: ("bin", "==", x, y), ["bool", "bool"]), (lambda x, y: ("bin", "!=", x, y), ["bool", "bool"]),
        (lambda x, y: ("bin", "==", x, y), ["str", "str"]),
        (lambda x, y: ("bin", "&", x, y), ["bool", "bool"]), (lambda x, y: ("bin", "|", x, y), ["bool", "bool"]),
        (lambda x: ("not", x), ["bool"]),
        (lambda x: ("isnull", x), ["bool"]), (lambda x: ("isnull", x), ["int"]),
        (lambda x: ("isnotnull", x), ["bool"]), (lambda x: ("isnotnull", x), ["int"]),
        (lambda x, y: ("nse", x, y), ["bool", "bool"]), (lambda x, y: ("nse", x, y), ["int", "int"]),
        (lambda x: ("isin", x, [1, 2, None]), ["int"]), (lambda x: ("isin", x, [True]), ["bool"]),
        (lambda x, y, z: ("between", x, y, z), ["int", "int", "int"]),
        (lambda x: ("like", x, "a%"), ["str"]), (lambda x: ("rlike", x, "a"), ["str"]),
        (lambda x, y: ("startswith", x, y), ["str", "str"]),
        (lambda x: ("substr", x, ("py", 1), ("py", 1)), ["str"]),
        (lambda c, v, w: ("when", [(c, v)], w), ["bool", "int", "int"]),
        (lambda c, v: ("when", [(c, v)], None), ["bool", "bool"]),
        (lambda x: ("cast", x, "string"), ["int"]), (lambda x: ("cast", x, "string"), ["bool"]),
        (lambda x: ("cast", x, "int"), ["bool"]),
        (lambda x: ("alias", x, "z"), ["bool"]),
        (lambda x: ("getitemcol", ("col", "l"), x), ["int"]),
    ]
    canon = {"int": A, "str": S, "bool": P}
    seen = set(map(repr, out))
    for mk, tys in hosts:
        for i, ty in enumerate(tys):
            for sub in d1[ty] + (d1["num"] if ty == "int" and mk.__code__.co_argcount == 2 and False else []):
                args = [canon[t] for t in tys]
                if len(tys) > 1 and i > 0:
                    args[0] = canon[tys[0]] if tys[0] != "int" else B
                args[i] = sub
                t = mk(*args)
                if t[0] == "getitemcol" and t[2][0] == "lit":
                    continue          # getItem(lit(k)) is the literal form
                if repr(t) not in seen:
                    seen.add(repr(t))
                    out.append(t)
    # both operands open at once for the binary comparison-level hosts
    for op in ["==", "!="]:
        for x in d1["bool"][:20:3]:
            for y in d1["bool"][1:20:4]:
                t = ("bin", op, x, y)
                if repr(t) not in seen:
                    seen.add(repr(t))
                    out.append(t)
    out += [("endswith", S, ("py", "a")), ("endswith", S, T), ("getitemcol", ("col", "l"), A),
            ("bin", "<", ("bin", "/", A, B), ("py", 1)), ("bin", "==", ("bin", "/", A, ("py", 2)), B)]
    return out
