"""C18 (thorough tier): a live history on the Spark-backed session.  stdin: JSON {"history": bool}; stdout: one JSON line.
P reads a csv file with options (nullValue) and keeps the frame; other work reads THE SAME path with other options; P then acts
on its frame.  Runs with PYTHONPATH=<repo under test>; needs pyspark + a JVM (PYSPARK_PYTHON must point at this interpreter)."""
import json
import os
import shutil
import sys
import tempfile


def main():
    job = json.load(sys.stdin)
    from pyspark.sql import SparkSession as PySparkSession
    spark = PySparkSession.builder.master("local[1]").config("spark.ui.enabled", "false") \
        .config("spark.sql.shuffle.partitions", "1").getOrCreate()
    from sqlframe.spark import SparkSession
    s = SparkSession(conn=spark)
    d = tempfile.mkdtemp(prefix="c18_spark_", dir="/var/tmp")
    out = {}
    try:
        path = os.path.join(d, "f.csv")
        with open(path, "w") as f:
            f.write("k,note\n1,b\n2,z\n")
        p = s.read.load(path, format="csv", header=True, nullValue="b")
        out["first"] = sorted([list(r) for r in p.collect()], key=str)
        if job.get("history"):
            h = s.read.load(path, format="csv", header=True)
            out["other"] = sorted([list(r) for r in h.collect()], key=str)
            h2 = s.read.load(path, format="csv", header=False)
            out["other2"] = len(h2.collect())
        try:
            out["rows"] = sorted([list(r) for r in p.collect()], key=str)
            out["count"] = p.count()
            out["columns"] = list(p.columns)
        except Exception as ex:  # noqa
            out["error"] = type(ex).__name__ + ": " + str(ex).splitlines()[0][:200]
    finally:
        shutil.rmtree(d, True)
        spark.stop()
    print("@@" + json.dumps(out, default=str))


if __name__ == "__main__":
    main()
