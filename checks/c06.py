"""C06 -- grouping and aggregation follow Spark semantics.

T1  translate/c06_facts.py (generate_c01_core + generate) -> Gen/C01Facts.v (core clause-ordering facts), Gen/C06Facts.v
Prf coq/props/C06.v : gcfg_ok / ncfg_ok / cube_idx instantiation; C06_partial_chain (all programs of C01 operations and
    aggregation calls, all inputs), C06_agg_step, C06_partial_cube, C06_cube_sets, C06_partial_names, data-level theorems
T2  exported sqlglot tree (plain + grouped SELECTs) == model stages up to the verified normal form nfs   (per program, all data)
T3  df.columns / collect() on DuckDB == Coq model == Coq Spark spec                                      (per program x table)
    + the Coq Spark spec is validated against answers recorded from PySpark 3.5.9 (oracle/c06_pyspark.jsonl)
"""
from __future__ import annotations

import json
import os
import random

from vlib import core, rel
from vlib.core import strlit, listlit, natlit
from translate import c06_facts
from checks import c06_ops as c01

HEADER = """From SF Require Import Model.ChainCheck C06.AggCheck.
From Gen Require Import C01Facts C06Facts.
Open Scope string_scope.
Definition check := AggCheck.check gen_cfg gen_gcfg gen_ncfg cube_idx.
Definition spec_ok := AggCheck.spec_matches gen_cfg gen_gcfg gen_ncfg cube_idx.
"""

TABLES = dict(c01.TABLES)
TABLES["t3"] = [(None, None, None), (None, None, "q"), (7, None, None), (7, None, None), (8, 0, "q"), (8, -4, "q"),
                (8, 0, None), (9, 5, "r")]
SCHEMA = c01.SCHEMA
COLS0 = c01.COLS0
SHORT = {"avg": "ShAvg", "mean": "ShMean", "max": "ShMax", "min": "ShMin", "sum": "ShSum"}
AGGFN = {"count": "FCount", "sum": "FSum", "avg": "FAvg", "min": "FMin", "max": "FMax", "count_distinct": "FCountDistinct"}


# ---- descriptors -> sqlframe / pyspark ----------------------------------------------------------------

def f_sf(f, F):
    if f[0] == "count_star":
        return F.count("*")
    if f[0] == "count_distinct_n":       # count_distinct / countDistinct over several columns
        args = [e[1] if (e[0] == "col" and hash(e[1]) % 2) else rel.e_sf(e, F) for e in f[1]]
        return (F.countDistinct if len(repr(f)) % 2 else F.count_distinct)(*args)
    e = f[1]
    arg = e[1] if (e[0] == "col" and hash(e[1]) % 2) else rel.e_sf(e, F)   # both call forms: name and Column
    return getattr(F, f[0])(arg)


def _binop(op, a, b_):
    return {"Add": lambda: a + b_, "Sub": lambda: a - b_, "Mul": lambda: a * b_, "Eq": lambda: a == b_,
            "Neq": lambda: a != b_, "Lt": lambda: a < b_, "Le": lambda: a <= b_, "Gt": lambda: a > b_,
            "Ge": lambda: a >= b_}[op]()


def x_sf(x, F):
    k = x[0]
    if k == "agg":
        return f_sf(x[1], F)
    if k == "gid":
        return F.grouping_id()
    if k == "xlit":
        return F.lit(x[1])
    if k == "xbin":
        return _binop(x[1], x_sf(x[2], F), x_sf(x[3], F))
    if k == "xneg":
        return -x_sf(x[1], F)
    if k == "xcoalesce":
        return F.coalesce(x_sf(x[1], F), x_sf(x[2], F))
    raise ValueError(x)


def key_args(keys, F):
    out = []
    for e, name, how in keys:
        if how == "name":
            out.append(name)
        elif how == "col":
            out.append(F.col(name))
        elif how == "alias":
            out.append(rel.e_sf(e, F).alias(name))
        elif how == "bare":
            out.append(rel.e_sf(e, F))
        else:
            raise ValueError(how)
    return out


def warm_plan(step):
    """key list of the warm-up call that uses the aggregate Column objects first; None = no warm-up"""
    k = step[0]
    inner = step[2] if k == "cube" else step
    if inner[0] != "agg" or (k == "agg" and step[1] == "dfagg"):
        return None
    has_gid = any(x[0] == "gid" for x, _ in inner[3])
    if not has_gid and len(repr(step)) % 2:
        return None
    keys = step[1] if k == "cube" else step[2]
    names = [kk for kk in keys if kk[2] in ("name", "col")]
    if len(names) >= 2:
        return ("cube" if k == "cube" else "groupBy", list(reversed(names)))
    return ("cube" if k == "cube" else "groupBy", "other")


def _warm(df, step, F):
    wp = warm_plan(step)
    if wp is None:
        return None
    kind, keys = wp

    def run(cols):
        if keys == "other":
            used = {kk[1] for kk in (step[1] if step[0] == "cube" else step[2])}
            cand = [c for c in df.columns if c not in used and "(" not in c]
            args = cand[:1]
        else:
            args = key_args(keys, F)
        gd = df.cube(*args) if kind == "cube" else df.groupBy(*args)
        gd.agg(*cols)
    return run


def apply_call(gd_or_df, call, F, grouped, warm=None):
    """call on a GroupedData (grouped=True) or, for via == 'dfagg', on the DataFrame itself"""
    k = call[0]
    if k == "agg":
        cols = [x_sf(x, F).alias(n) for x, n in call[3]]
        if warm is not None:
            # the SAME Column objects go through another agg call first (other key list): agg must not depend on the
            # history of its argument objects (nor change them observably)
            try:
                warm(cols)
            except Exception:
                pass
        return gd_or_df.agg(*cols)
    if k == "short":
        return getattr(gd_or_df, call[2])(*(call[3] if call[4] else []))
    if k == "count":
        return gd_or_df.count()
    if k == "dict":
        return gd_or_df.agg({c: f for c, f in call[3]})
    raise ValueError(call)


def call_keys(call):
    return {"agg": 2, "short": 1, "count": 1, "dict": 2}[call[0]]


def apply_step(df, step, F, df0):
    k = step[0]
    if k == "op":
        return c01.apply_step(df, step[1], F)
    if k == "cube":
        return apply_call(df.cube(*key_args(step[1], F)), step[2], F, True, _warm(df, step, F))
    if k == "join":
        return df.join(df0, step[1])
    via = step[1] if k in ("agg", "dict") else "groupBy"
    if via == "dfagg":
        return apply_call(df, step, F, False)
    keys = step[call_keys(step)]
    return apply_call(df.groupBy(*key_args(keys, F)), step, F, True, _warm(df, step, F) if k == "agg" else None)


# ---- descriptors -> Coq ----------------------------------------------------------------------------------

def f_coq(f):
    if f[0] == "count_star":
        return "FCountStar"
    if f[0] == "count_distinct_n":
        return f"(FCountDistinctN {listlit([rel.e_coq(e) for e in f[1]])})"
    return f"({AGGFN[f[0]]} {rel.e_coq(f[1])})"


def x_coq(x):
    k = x[0]
    if k == "agg":
        return f"(XAgg {f_coq(x[1])})"
    if k == "gid":
        return "(XGroupingId [])"
    if k == "xlit":
        return f"(XLit {rel.val_coq(x[1])})"
    if k == "xbin":
        return f"(XBin {x[1]} {x_coq(x[2])} {x_coq(x[3])})"
    if k == "xneg":
        return f"(XNeg {x_coq(x[1])})"
    if k == "xcoalesce":
        return f"(XCoalesce {x_coq(x[1])} {x_coq(x[2])})"
    raise ValueError(x)


def keys_coq(keys):
    return listlit([f"({rel.e_coq(e)}, {strlit(n)})" for e, n, _ in keys])


def call_coq(call, numeric_cols):
    k = call[0]
    if k == "agg":
        ent = "ViaDfAgg" if call[1] == "dfagg" else "ViaGroupBy"
        return f"(UAggC {ent} {keys_coq(call[2])} {listlit([f'({x_coq(x)}, {strlit(n)})' for x, n in call[3]])})"
    if k == "short":
        cols = call[3] if call[4] else numeric_cols      # PySpark: no argument = every numeric column
        return f"(UShort {keys_coq(call[1])} {SHORT[call[2]]} {listlit([strlit(c) for c in cols])})"
    if k == "count":
        return f"(UCount {keys_coq(call[1])})"
    if k == "dict":
        return f"(UDict {keys_coq(call[2])} {listlit([f'({strlit(c)}, {strlit(f)})' for c, f in call[3]])})"
    raise ValueError(call)


def step_coq(step, cols):
    k = step[0]
    numeric = [c for c, t in cols.items() if t == "int"]
    if k == "op":
        s = c01.step_coq(step[1])
        assert s.startswith("(U")
        return f"(UPlain {s})"
    if k == "cube":
        return f"(UCube {keys_coq(step[1])} {call_coq(step[2], numeric)})"
    if k == "join":
        return f"(UJoinBack {strlit(step[1])})"
    return f"(UCall {call_coq(step, numeric)})"


def f_str(f):
    if f[0] == "count_distinct_n":
        return "count_distinct(" + ", ".join(rel.e_str(e) for e in f[1]) + ")"
    return "count(*)" if f[0] == "count_star" else f"{f[0]}({rel.e_str(f[1])})"


def x_str(x):
    k = x[0]
    if k == "agg":
        return f_str(x[1])
    if k == "gid":
        return "grouping_id()"
    if k == "xlit":
        return repr(x[1])
    if k == "xbin":
        return f"({x_str(x[2])} {x[1]} {x_str(x[3])})"
    if k == "xneg":
        return f"-{x_str(x[1])}"
    return f"coalesce({x_str(x[1])}, {x_str(x[2])})"


def keys_str(keys):
    return ", ".join((n if how in ("name", "col") else f"{rel.e_str(e)}" + (f" as {n}" if how == "alias" else "")) for e, n, how in keys)


def call_str(call):
    k = call[0]
    if k == "agg":
        return "agg(" + ", ".join(f"{x_str(x)} as {n}" for x, n in call[3]) + ")"
    if k == "short":
        return f"{call[2]}({', '.join(call[3]) if call[4] else ''})"
    if k == "count":
        return "count()"
    return "agg({" + ", ".join(f"'{c}': '{f}'" for c, f in call[3]) + "})"


def step_str(step):
    k = step[0]
    if k == "op":
        return c01.step_str(step[1])
    if k == "cube":
        return f"cube({keys_str(step[1])}).{call_str(step[2])}"
    if k == "join":
        return f"join(df0, '{step[1]}')"
    via = step[1] if k in ("agg", "dict") else "groupBy"
    if via == "dfagg":
        return call_str(step)
    return f"groupBy({keys_str(step[call_keys(step)])}).{call_str(step)}"


# ---- column tracking ----------------------------------------------------------------------------------------

def x_type(x, cols):
    k = x[0]
    if k == "agg":
        f = x[1]
        if f[0] in ("count_star", "count", "count_distinct", "count_distinct_n"):
            return "int"
        if f[0] == "avg":
            return "rat"
        if f[0] == "sum":
            return "int"
        return c01.type_of(f[1], cols)
    if k in ("xlit", "gid"):
        return "int"
    if k == "xbin":
        return "int" if x[1] in ("Add", "Sub", "Mul") else "bool"
    if k == "xneg":
        return "int"
    return x_type(x[1], cols)


def call_out(call, keys, cols):
    """ordered (name, type) of the result; None when ill-formed here"""
    out = [(n, c01.type_of(e, cols)) for e, n, _ in keys]
    k = call[0]
    if k == "agg":
        out += [(n, x_type(x, cols)) for x, n in call[3]]
    elif k == "short":
        cs = call[3] if call[4] else [c for c, t in cols.items() if t == "int"]
        m = "avg" if call[2] == "mean" else call[2]
        for c in cs:
            if c not in cols:
                return None
            out.append((f"{m}({c})", "rat" if m == "avg" else cols[c]))
    elif k == "count":
        out.append(("count", "int"))
    elif k == "dict":
        for c, f in call[3]:
            shown = "avg" if f == "mean" else f
            arg = "1" if c == "*" else c
            out.append((f"{shown}({arg})", "rat" if shown == "avg" else "int" if shown in ("count", "sum") else cols.get(c, "int")))
    names = [n for n, _ in out]
    if len(set(names)) != len(names):
        return None
    return dict(out)


def cols_after(step, cols, cols0):
    k = step[0]
    if k == "op":
        return c01.cols_after(step[1], cols)
    if k == "cube":
        return call_out(step[2], step[1], cols)
    if k == "join":
        kk = step[1]
        if kk not in cols or kk not in cols0:
            return None
        out = {kk: cols[kk]}
        for c, t in cols.items():
            if c != kk:
                out[c] = t
        for c, t in cols0.items():
            if c != kk:
                if c in out:
                    return None
                out[c] = t
        return out
    via = step[1] if k in ("agg", "dict") else "groupBy"
    keys = [] if via == "dfagg" else step[call_keys(step)]
    return call_out(step, keys, cols)


def plan_mode(steps, cols0):
    """(mode, steps): sequence comparison only under a total order; an undetermined limit must be the last step"""
    total, out, cols = False, [], dict(cols0)
    for st in steps:
        if st[0] == "op":
            o = st[1]
            if o[0] == "orderBy":
                keycols = [e[1] for e, _, _ in o[1] if e[0] == "col"]
                total = set(keycols) >= set(cols)
            elif o[0] == "distinct":
                total = False
            elif o[0] == "limit" and not total:
                out.append(st)
                return ("sub", o[1]), out
        else:
            total = False
        out.append(st)
        cols = cols_after(st, cols, cols0)
    return ("seq" if total else "bag", None), out


# ---- exporter: sqlglot tree -> Coq `list stage` (tie T2, fail-closed) ----------------------------------------

def _is_gid(n, exp):
    return isinstance(n, exp.Anonymous) and isinstance(n.this, str) and n.this.upper() == "GROUPING_ID"


def has_agg(n, exp):
    return any(True for _ in n.find_all(exp.AggFunc)) or any(_is_gid(a, exp) for a in n.find_all(exp.Anonymous))


def xa_expr(n, exp, cte_names):
    if isinstance(n, exp.Paren):
        return xa_expr(n.this, exp, cte_names)
    if isinstance(n, exp.Count):
        t = n.this
        if n.args.get("expressions") or n.args.get("big_int"):
            raise rel.NotExportable("count with extra arguments")
        if isinstance(t, exp.Star):
            return "(XAgg FCountStar)"
        if isinstance(t, exp.Distinct):
            if t.args.get("on") or not t.expressions:
                raise rel.NotExportable("count(distinct on ...)")
            if len(t.expressions) > 1:
                return f"(XAgg (FCountDistinctN {listlit([rel.x_expr(e, exp, cte_names) for e in t.expressions])}))"
            return f"(XAgg (FCountDistinct {rel.x_expr(t.expressions[0], exp, cte_names)}))"
        return f"(XAgg (FCount {rel.x_expr(t, exp, cte_names)}))"
    for cls, c in ((exp.Sum, "FSum"), (exp.Avg, "FAvg"), (exp.Min, "FMin"), (exp.Max, "FMax")):
        if type(n) is cls:
            if n.args.get("expressions") or isinstance(n.this, exp.Distinct):
                raise rel.NotExportable(f"{c} with extra arguments")
            return f"(XAgg ({c} {rel.x_expr(n.this, exp, cte_names)}))"
    if _is_gid(n, exp):
        return f"(XGroupingId {listlit([rel.x_expr(e, exp, cte_names) for e in n.expressions])})"
    if isinstance(n, exp.AggFunc):
        raise rel.NotExportable(f"aggregate {type(n).__name__}")
    binmap = {"Add": "Add", "Sub": "Sub", "Mul": "Mul", "EQ": "Eq", "NEQ": "Neq", "LT": "Lt", "LTE": "Le", "GT": "Gt", "GTE": "Ge"}
    t = type(n).__name__
    if t in binmap:
        return f"(XBin {binmap[t]} {xa_expr(n.this, exp, cte_names)} {xa_expr(n.expression, exp, cte_names)})"
    if isinstance(n, exp.Neg):
        if isinstance(n.this, exp.Literal) and not n.this.is_string:
            return f"(XLit (VInt {core.zlit(-int(n.this.this))}))"
        return f"(XNeg {xa_expr(n.this, exp, cte_names)})"
    if isinstance(n, exp.Coalesce) and len(n.expressions) == 1:
        return f"(XCoalesce {xa_expr(n.this, exp, cte_names)} {xa_expr(n.expressions[0], exp, cte_names)})"
    if isinstance(n, exp.Literal):
        if n.is_string:
            return f"(XLit (VStr {strlit(n.this)}))"
        return f"(XLit (VInt {core.zlit(int(n.this))}))"
    if isinstance(n, exp.Null):
        return "(XLit VNull)"
    raise rel.NotExportable(f"aggregate expression node {t}")


def x_gselect(sel, exp, prev_name, cte_names):
    """a SELECT with GROUP BY / aggregates -> [SG ...] (+ [SB pass-block carrying ORDER BY / LIMIT])"""
    allowed = {"expressions", "from", "where", "group", "having", "order", "limit", "with", "kind"}
    for k, v in sel.args.items():
        if v and k not in allowed:
            raise rel.NotExportable(f"grouped select arg {k}")
    having = sel.args.get("having")
    if having is not None:
        h = having.this
        ok = (isinstance(h, exp.GT) and isinstance(h.this, exp.Count) and isinstance(h.this.this, exp.Star)
              and not h.this.args.get("expressions") and isinstance(h.expression, exp.Literal)
              and not h.expression.is_string and h.expression.this == "0")
        if not ok:
            raise rel.NotExportable("HAVING other than COUNT(*) > 0")
    frm = sel.args.get("from")
    if frm is None or not isinstance(frm.this, exp.Table) or frm.this.name != prev_name:
        raise rel.NotExportable(f"FROM is not the previous CTE ({prev_name})")
    where = sel.args.get("where")
    ws = [rel.x_expr(w, exp, cte_names) for w in rel.flatten_and(where.this, exp)] if where else []
    grp = sel.args.get("group")
    if grp is None:
        clause = "(GPlain [])"
    else:
        for k, v in grp.args.items():
            if v and k not in ("expressions", "grouping_sets"):
                raise rel.NotExportable(f"group arg {k}")
        gs = grp.args.get("grouping_sets")
        if gs:
            if grp.expressions or len(gs) != 1 or not isinstance(gs[0], exp.GroupingSets):
                raise rel.NotExportable("grouping sets shape")
            sets = []
            for tup in gs[0].expressions:
                if not isinstance(tup, exp.Tuple):
                    raise rel.NotExportable("grouping set is not a tuple")
                sets.append(listlit([rel.x_expr(e, exp, cte_names) for e in tup.expressions]))
            clause = f"(GSets {listlit(sets)})"
        else:
            clause = f"(GPlain {listlit([rel.x_expr(e, exp, cte_names) for e in grp.expressions])})"
    items, names = [], []
    for i in sel.expressions:
        if isinstance(i, exp.Alias):
            body, name = i.this, i.alias
        elif isinstance(i, exp.Column):
            body, name = i, i.name
        else:
            raise rel.NotExportable(f"select item {type(i).__name__} without a name")
        names.append(name)
        if has_agg(body, exp):
            items.append(f"(SAgg {xa_expr(body, exp, cte_names)}, {strlit(name)})")
        else:
            items.append(f"(SKey {rel.x_expr(body, exp, cte_names)}, {strlit(name)})")
    out = [f"(SG (mkG {listlit(ws)} {clause} {listlit(items)} {core.boollit(having is not None)}))"]
    order, lim = sel.args.get("order"), sel.args.get("limit")
    if order or lim:
        ks = []
        for o in (order.expressions if order else []):
            if not isinstance(o, exp.Ordered) or o.args.get("nulls_first") is None:
                raise rel.NotExportable("order key without explicit null placement")
            ks.append(f"(mkKey {rel.x_expr(o.this, exp, cte_names)} {core.boollit(bool(o.args.get('desc')))} "
                      f"{core.boollit(bool(o.args.get('nulls_first')))})")
        lim_t = "None"
        if lim is not None:
            le = lim.expression
            if not isinstance(le, exp.Literal) or le.is_string:
                raise rel.NotExportable("limit is not a literal")
            lim_t = f"(Some {natlit(int(le.this))})"
        out.append(f"(SB (mkBlock [] (passthrough {listlit([strlit(n) for n in names])}) false {listlit(ks)} {lim_t}))")
    return out


def export_stages(expression, exp):
    ctes = list(expression.ctes)
    if not ctes:
        raise rel.NotExportable("no CTE")
    names = rel.x_values_block(ctes[0].this, exp)
    cte_names = [c.alias for c in ctes]
    stages = ["(SB (pass_block " + listlit([strlit(n) for n in names]) + "))"]
    prev = ctes[0].alias
    main = expression.copy()
    main.set("with", None)
    for sel, alias in [(c.this, c.alias) for c in ctes[1:]] + [(main, None)]:
        if sel.args.get("group") or any(has_agg(i, exp) for i in sel.expressions):
            stages += x_gselect(sel, exp, prev, cte_names)
        else:
            stages.append(f"(SB {rel.x_select(sel, exp, prev, cte_names)})")
        prev = alias
    return listlit(stages)


# ---- generator -----------------------------------------------------------------------------------------------

class Gen:
    def __init__(self, rnd):
        self.r = rnd
        self.g = c01.Gen(rnd)
        self.n = 0

    def fresh(self):
        self.n += 1
        return f"x{self.n}"

    def aggfn(self, cols):
        r = self.r
        ints = [c for c, t in cols.items() if t == "int"]
        strs = [c for c, t in cols.items() if t == "str"]
        k = r.random()
        if k < 0.10 and len(cols) >= 2:       # count(distinct e1, e2[, e3]): combinations without a NULL member
            n = 2 if r.random() < 0.8 or len(cols) < 3 else 3
            es = [("col", c) for c in r.sample(list(cols), n)]
            if ints and r.random() < 0.3:
                es[-1] = self.g.int_e(cols, 1)
            return ("count_distinct_n", es)
        if k < 0.2 or not (ints or strs):
            return ("count_star",)
        if ints and k < 0.8:
            e = ("col", r.choice(ints)) if r.random() < 0.75 else self.g.int_e(cols, 1)
            return (r.choice(["count", "sum", "sum", "avg", "min", "max", "count_distinct"]), e)
        if strs:
            return (r.choice(["count", "min", "max", "count_distinct"]), ("col", r.choice(strs)))
        return ("count_star",)

    def int_aggfn(self, cols):
        for _ in range(10):
            f = self.aggfn(cols)
            if x_type(("agg", f), cols) == "int":
                return f
        return ("count_star",)

    def aexpr(self, cols):
        r = self.r
        k = r.random()
        if k < 0.7:
            return ("agg", self.aggfn(cols))
        a, b_ = ("agg", self.int_aggfn(cols)), ("agg", self.int_aggfn(cols))
        if k < 0.82:
            return ("xbin", r.choice(["Add", "Sub", "Mul"]), a, b_ if r.random() < 0.6 else ("xlit", r.choice([1, 2, -1])))
        if k < 0.88:
            return ("xbin", r.choice(["Gt", "Eq", "Le"]), a, ("xlit", r.choice([0, 1, 2])))
        if k < 0.94:
            return ("xcoalesce", a, ("xlit", r.choice([0, -7])))
        return ("xneg", a)

    def keys(self, cols, allow_empty=True):
        r = self.r
        names = list(cols)
        k = r.random()
        if allow_empty and k < 0.12:
            return []
        n = 1 if k < 0.6 else 2 if k < 0.92 else 3
        out, used = [], set()
        for _ in range(n):
            kk = r.random()
            if kk < 0.7 or not any(t == "int" for t in cols.values()):
                c = r.choice(names)
                if c in used:
                    continue
                used.add(c)
                out.append((("col", c), c, r.choice(["name", "col"])))
            else:
                e = self.g.int_e(cols, 1) if kk < 0.9 else self.g.bool_e(cols, 1)
                if not rel.e_cols(e):
                    continue
                nm = r.choice(["k", "k2", "g"])
                if nm in used or nm in cols:
                    continue
                used.add(nm)
                out.append((e, nm, "alias"))
        if not out and not allow_empty:
            c = names[0]
            out = [(("col", c), c, "name")]
        return out

    def call(self, cols):
        r = self.r
        k = r.random()
        ints = [c for c, t in cols.items() if t == "int"]
        keys = self.keys(cols)
        knames = {n for _, n, _ in keys}
        if k < 0.55:
            aggs = []
            for _ in range(r.choice([1, 1, 2, 2, 3, 4])):
                aggs.append((self.aexpr(cols), self.fresh()))
            return ("agg", "groupBy", keys, aggs)
        if k < 0.65:
            aggs = [(self.aexpr(cols), self.fresh()) for _ in range(r.choice([1, 2, 3]))]
            return ("agg", "dfagg", [], aggs)
        if k < 0.8 and ints:
            m = r.choice(list(SHORT))
            cs = r.sample(ints, r.randint(1, len(ints)))
            return ("short", keys, m, cs, True)
        if k < 0.9:
            return ("count", keys)
        if ints:
            cs = r.sample(list(cols), 1)     # one entry: PySpark orders a multi-entry dict by JVM map order (unspecified)
            items = []
            for c in cs:
                f = r.choice(["sum", "avg", "min", "max", "count"]) if cols[c] == "int" else r.choice(["min", "max", "count"])
                items.append((c, f))
            return ("dict", "groupBy", keys, items)
        return ("count", keys)

    def program(self, cols0, maxlen):
        r = self.r
        cols = dict(cols0)
        steps = []

        def add_ops(n):
            nonlocal cols
            for _ in range(n):
                for _try in range(5):
                    st = self.g.step(cols)
                    nc = c01.cols_after(st, cols)
                    if nc is not None:
                        steps.append(("op", st))
                        cols = nc
                        break

        def add(st):
            nonlocal cols
            nc = cols_after(st, cols, cols0)
            if nc is None:
                return False
            steps.append(st)
            cols = nc
            return True

        if r.random() < 0.25:       # multi-letter column names
            wide = r.sample([("a", "key"), ("b", "val"), ("s", "tag"), ("a", "v"), ("b", "amount")], r.randint(2, 4))
            if r.random() < 0.4:        # mixed case: the spelling must survive in fn(col) names
                wide = [(c, n.capitalize()) for c, n in wide]
            st = ("select", [(("col", c), n) for c, n in wide])
            steps.append(("op", st))
            cols = c01.cols_after(st, cols)
        add_ops(r.choice([0, 0, 1, 1, 2]))
        k = r.random()
        if k < 0.14:
            keys = self.keys(cols, allow_empty=False)
            keys = [kk for kk in keys if kk[2] != "alias" or True]
            inner = self.call(cols)
            if inner[0] == "agg" and r.random() < 0.45:      # the level indicator of the cube
                aggs = list(inner[3])
                aggs.insert(r.randint(0, len(aggs)), (("gid",), self.fresh()))
                inner = ("agg", "groupBy", [], aggs)
            if inner[0] in ("agg", "dict"):
                inner = (inner[0], "groupBy", [], inner[3])
            elif inner[0] == "short":
                inner = ("short", [], inner[2], inner[3], True)
            else:
                inner = ("count", [])
            add(("cube", keys, inner))
        else:
            add(self.call(cols))
        add_ops(r.choice([0, 0, 1, 1, 2, max(0, maxlen - 4)]))
        k = r.random()
        if k < 0.2 and cols:
            add(self.call(cols))
            add_ops(r.choice([0, 1]))
        elif k < 0.27:
            common = [c for c in cols if c in cols0 and cols[c] == cols0[c] and cols[c] != "rat"]
            if common:
                add(("join", r.choice(common)))
        return steps


C = lambda n: ("col", n)  # noqa: E731
A = lambda f, *a: ("agg", (f, *a))  # noqa: E731
ALLFNS = [(A("count_star"), "n"), (A("count", C("b")), "cb"), (A("sum", C("b")), "sb"), (A("avg", C("b")), "ab"),
          (A("min", C("b")), "mnb"), (A("max", C("b")), "mxb"), (A("count_distinct", C("b")), "db"),
          (A("min", C("s")), "mns"), (A("max", C("s")), "mxs"), (A("count", C("s")), "cs"),
          (A("count_distinct_n", [C("b"), C("s")]), "dbs")]
KA, KS, KB = (C("a"), "a", "name"), (C("s"), "s", "col"), (C("b"), "b", "name")
KEXP = (("bin", "Add", C("a"), ("lit", 1)), "k", "alias")
KBOOL = (("bin", "Gt", C("a"), ("lit", 1)), "p", "alias")
OP = lambda *s: ("op", s)  # noqa: E731
W_POS = OP("where", ("bin", "Gt", C("b"), ("lit", 1)))
W_NONE = OP("where", ("bin", "Gt", C("b"), ("lit", 100)))
SEL = OP("select", [(("bin", "Mul", C("a"), ("lit", 2)), "a"), (C("b"), "b"), (C("s"), "s")])
ORD = OP("orderBy", [(C("a"), False, None), (C("b"), True, None), (C("s"), False, None)])


def corpus():
    """hand-written shapes: every aggregate x every key form x every call form, and the aggregate before/after every
    C01 operation kind (these run first)"""
    sb = [(A("sum", C("b")), "sb")]
    nsb = [(A("count_star"), "n"), (A("sum", C("b")), "sb")]
    P = []
    for keys in ([KA], [KS], [KA, KS], [KEXP], [KBOOL], [KEXP, KS], [], [KB, KA]):
        P.append([("agg", "groupBy", keys, ALLFNS)])
        P.append([("count", keys)])
    P.append([("agg", "dfagg", [], ALLFNS)])
    for m in SHORT:
        P.append([("short", [KA], m, ["b"], True)])
        P.append([("short", [KS, KA], m, ["b", "a"], True)])
        P.append([("short", [], m, ["a"], True)])
    for f in ("sum", "avg", "min", "max", "count"):
        P.append([("dict", "groupBy", [KA], [("b", f)])])
    P.append([("dict", "groupBy", [], [("a", "max")])])
    # expressions of aggregates
    P.append([("agg", "groupBy", [KA], [(("xbin", "Add", A("sum", C("b")), A("count_star")), "x"),
                                         (("xbin", "Sub", A("max", C("b")), A("min", C("b"))), "rng"),
                                         (("xcoalesce", A("sum", C("b")), ("xlit", 0)), "s0"),
                                         (("xneg", A("sum", C("b"))), "neg"),
                                         (("xbin", "Gt", A("count", C("b")), ("xlit", 1)), "many"),
                                         (A("sum", ("bin", "Add", C("a"), C("b"))), "sab"),
                                         (A("count", ("if", ("bin", "Gt", C("b"), ("lit", 1)), C("b"), ("lit", None))), "cif")])])
    # cube
    for keys in ([KA], [KA, KS], [KEXP], [KS, KB]):
        P.append([("cube", keys, ("agg", "groupBy", [], nsb))])
        P.append([("cube", keys, ("count", []))])
    P.append([("cube", [KA], ("short", [], "sum", ["b"], True))])
    P.append([("cube", [KB, (("bin", "Mul", C("b"), ("lit", 1)), "g", "alias")], ("agg", "groupBy", [], nsb))])
    P.append([("cube", [(("bin", "Add", C("b"), C("a")), "g", "alias"), KA], ("count", []))])
    # grouping_id(): the level indicator, with the aggregate Column objects used in another cube first
    GID = [(("gid",), "lvl"), (A("count_star"), "n"), (A("sum", C("b")), "sb")]
    for keys in ([KA], [KA, KS], [KS, KA], [KA, KB, KS], [KB, KS]):
        P.append([("cube", keys, ("agg", "groupBy", [], GID))])
    P.append([W_POS, ("cube", [KS, KB], ("agg", "groupBy", [], [(A("max", C("a")), "m"), (("gid",), "g")])), OP("where", ("bin", "Gt", C("g"), ("lit", 0)))])
    P.append([W_NONE, ("cube", [KA, KS], ("agg", "groupBy", [], GID))])
    P.append([("cube", [KS, (C("a"), "k2", "alias")], ("agg", "groupBy", [], GID))])
    P.append([("cube", [KEXP], ("agg", "groupBy", [], GID))])
    # count(distinct ...) over several columns, NULL members
    CD = [(A("count_distinct_n", [C("b"), C("s")]), "d2"), (A("count_distinct_n", [C("s"), C("a"), C("b")]), "d3"),
          (A("count_distinct_n", [C("s"), ("bin", "Add", C("b"), ("lit", 1))]), "dx"), (A("count_distinct", C("s")), "d1")]
    for keys in ([KA], [], [KS, KA]):
        P.append([("agg", "groupBy", keys, CD)])
    P.append([("agg", "dfagg", [], CD)])
    P.append([("cube", [KA], ("agg", "groupBy", [], CD[:2]))])
    P.append([W_NONE, ("agg", "dfagg", [], CD)])
    # three keys (2**3 grouping sets), cube after every SELECT-class step (cube itself carries no decorator)
    P.append([("cube", [KA, KB, KS], ("agg", "groupBy", [], nsb))])
    P.append([("cube", [KEXP, KS, KB], ("count", []))])
    P.append([W_POS, ("cube", [KS, KA, KB], ("short", [], "max", ["b"], True))])
    for pre in ([SEL], [OP("distinct")], [OP("withColumn", "b", ("bin", "Mul", C("b"), ("lit", 2)))], [OP("drop", ["s"])],
                [OP("select", [(C("a"), "a")]), OP("distinct")], [ORD, OP("limit", 3)], [OP("rename", "b", "e")],
                [("agg", "groupBy", [KA, KB], [(A("count_star"), "c")])]):
        P.append(pre + [("cube", [KA], ("agg", "groupBy", [], [(A("count_star"), "n"), (A("sum", C("a")), "sa")]))])
        P.append(pre + [("cube", [KA], ("count", []))])
    P.append([W_NONE, ("cube", [KA], ("count", []))])
    P.append([W_POS, ("cube", [KA, KS], ("agg", "groupBy", [], nsb)), OP("where", ("isnull", C("a")))])
    # the aggregate as a step inside C01 chains
    for pre in ([W_POS], [W_NONE], [SEL], [ORD, OP("limit", 3)], [OP("distinct")], [SEL, W_POS], [OP("limit", 0)],
                [OP("withColumn", "a", ("bin", "Add", C("a"), C("b")))], [OP("rename", "a", "e")], [OP("drop", ["s"])]):
        ka = (C("e"), "e", "name") if pre[0][1][0] == "rename" else KA
        P.append(pre + [("agg", "groupBy", [ka], nsb)])
        P.append(pre + [("agg", "dfagg", [], nsb)])
        P.append(pre + [("count", [ka])])
    post_cols = [OP("where", ("bin", "Gt", C("sb"), ("lit", 2))), OP("where", ("isnull", C("a"))),
                 OP("select", [(C("sb"), "sb")]), OP("select", [(("bin", "Add", C("sb"), C("n")), "t"), (C("a"), "a")]),
                 OP("orderBy", [(C("a"), False, None), (C("n"), False, None), (C("sb"), False, None)]),
                 OP("orderBy", [(C("sb"), True, False), (C("a"), False, True), (C("n"), False, None)]),
                 OP("distinct"), OP("limit", 2), OP("withColumn", "a", ("bin", "Mul", C("sb"), ("lit", 2))),
                 OP("rename", "sb", "total"), OP("drop", ["n"])]
    for post in post_cols:
        P.append([("agg", "groupBy", [KA], nsb), post])
        P.append([W_POS, ("agg", "groupBy", [KA], nsb), post])
    P.append([("agg", "groupBy", [KA], nsb), post_cols[4], OP("limit", 2)])
    P.append([("agg", "groupBy", [KA], nsb), post_cols[5], OP("limit", 3), post_cols[0]])
    # an aliased key referred to afterwards
    KCA = (C("a"), "k", "alias")
    for keys in ([KEXP], [KCA], [KBOOL, KS]):
        kn = keys[0][1]
        P.append([("agg", "groupBy", keys, nsb), OP("where", ("isnull", C(kn)))])
        P.append([("agg", "groupBy", keys, nsb), OP("orderBy", [(C(kn), False, None), (C("n"), False, None), (C("sb"), False, None)] + ([(C("s"), False, None)] if len(keys) > 1 else []))])
        P.append([("agg", "groupBy", keys, nsb), OP("select", [(C(kn), kn), (C("sb"), "sb")])])
        P.append([("agg", "groupBy", keys, nsb), ("agg", "groupBy", [(C(kn), kn, "name")], [(A("sum", C("n")), "nn")])])
        P.append([("count", keys), OP("rename", kn, "z")])
    # column names longer than one character (dict form, shortcuts, keys)
    WIDE = OP("select", [(C("a"), "key"), (C("b"), "val"), (C("a"), "v"), (C("s"), "tag"), (C("b"), "k")])
    for f in ("sum", "avg", "min", "max", "count"):
        P.append([WIDE, ("dict", "groupBy", [(C("key"), "key", "name")], [("val", f)])])
    P.append([WIDE, ("dict", "groupBy", [(C("tag"), "tag", "col")], [("key", "max")])])
    P.append([WIDE, ("dict", "dfagg", [], [("val", "sum")])])
    P.append([WIDE, ("dict", "groupBy", [], [("tag", "count")])])
    P.append([OP("rename", "b", "amount"), ("dict", "groupBy", [KA], [("amount", "sum")])])
    P.append([WIDE, ("short", [(C("key"), "key", "name")], "sum", ["val", "v"], True)])
    P.append([WIDE, ("cube", [(C("key"), "key", "name"), (C("tag"), "tag", "name")], ("dict", "groupBy", [], [("val", "sum")]))])
    P.append([WIDE, ("agg", "groupBy", [(C("key"), "key", "col"), (C("tag"), "tag", "name")],
                     [(A("sum", C("val")), "total"), (A("count_distinct", C("v")), "dv")]), OP("where", ("bin", "Gt", C("total"), ("lit", 1)))])
    # mixed-case column names: fn(col) keeps the spelling the user wrote
    MIX = OP("select", [(C("a"), "Key"), (C("b"), "Val"), (C("s"), "Tag"), (C("b"), "val2")])
    KK = (C("Key"), "Key", "name")
    for m in SHORT:
        P.append([MIX, ("short", [KK], m, ["Val"], True)])
    P.append([MIX, ("short", [], "avg", ["Val", "Key"], True)])
    P.append([MIX, ("short", [(C("Tag"), "Tag", "col")], "min", ["Val", "Key", "val2"], True)])
    for f in ("sum", "max", "count", "avg"):
        P.append([MIX, ("dict", "groupBy", [KK], [("Val", f)])])
    P.append([MIX, ("dict", "dfagg", [], [("Val", "min")])])
    P.append([MIX, ("dict", "groupBy", [], [("Tag", "count")])])
    P.append([MIX, ("count", [KK, (C("Tag"), "Tag", "name")])])
    P.append([MIX, ("agg", "groupBy", [KK], [(A("sum", C("Val")), "Total"), (A("count_star"), "N")]), OP("where", ("bin", "Gt", C("Total"), ("lit", 1)))])
    P.append([MIX, ("cube", [KK, (C("Tag"), "Tag", "name")], ("short", [], "sum", ["Val"], True))])
    P.append([OP("rename", "b", "Amount"), ("short", [KA], "max", ["Amount"], True)])
    # re-aggregation and join
    P.append([("agg", "groupBy", [KA, KS], nsb), ("agg", "groupBy", [KA], [(A("sum", C("n")), "nn"), (A("max", C("sb")), "m")])])
    P.append([("agg", "groupBy", [KA], nsb), ("agg", "dfagg", [], [(A("sum", C("sb")), "tot"), (A("count_star"), "groups")])])
    P.append([("agg", "groupBy", [KA], nsb), ("count", [(C("sb"), "sb", "name")])])
    P.append([("agg", "dfagg", [], nsb), ("agg", "dfagg", [], [(A("max", C("n")), "m")])])
    P.append([("count", [KA]), ("short", [], "sum", ["count"], True)])
    # columns named fn(col) by a shortcut / dict call, referred to by that name afterwards
    P.append([("short", [KA], "sum", ["b"], True), OP("where", ("bin", "Gt", C("sum(b)"), ("lit", 2)))])
    P.append([("short", [KA], "max", ["b"], True), OP("select", [(C("max(b)"), "max(b)")])])
    P.append([("dict", "groupBy", [KA], [("b", "sum")]), OP("orderBy", [(C("sum(b)"), False, None), (C("a"), False, None)])])
    P.append([("short", [KA], "avg", ["b"], True), OP("drop", ["avg(b)"])])
    P.append([("short", [KA], "sum", ["b"], True), ("agg", "dfagg", [], [(A("max", C("sum(b)")), "m")])])
    P.append([("short", [KA], "min", ["b"], True), OP("rename", "min(b)", "lo")])
    P.append([("agg", "groupBy", [KA], sb), ("join", "a")])
    P.append([W_POS, ("count", [KS]), ("join", "s")])
    return P


def api_shapes():
    """call forms PySpark accepts whose sqlframe behaviour is a listed finding (kept apart so each has one signature)"""
    return [
        [("agg", "groupBy", [(("bin", "Add", C("a"), ("lit", 1)), "(a + 1)", "bare")], [(A("sum", C("b")), "sb")])],
        [("agg", "groupBy", [(("bin", "Add", C("a"), ("lit", 1)), "(a + 1)", "bare")], [(A("sum", C("b")), "sb")]),
         OP("where", ("bin", "Gt", C("sb"), ("lit", 1)))],
        [("dict", "dfagg", [], [("a", "max")])],
        [("dict", "groupBy", [KA], [("b", "mean")])],
        [("dict", "groupBy", [KA], [("*", "count")])],
        [("short", [KA], "sum", [], False)],
        [("short", [], "max", [], False)],
    ]


def make_programs(ctx):
    rnd = random.Random(ctx.seed)
    g = Gen(rnd)
    cols0 = {"a": "int", "b": "int", "s": "str"}
    progs = corpus()
    n_corpus = len(progs)
    n_rand = 150 if ctx.tier == "quick" else 2600
    for _ in range(n_rand):
        progs.append(g.program(cols0, 5 if ctx.tier == "quick" else 8))
    return progs, n_corpus


# ---- verdicts -------------------------------------------------------------------------------------------------

def _x_refs(x):
    if x[0] == "gid":
        return set()
    if x[0] == "agg" and x[1][0] == "count_distinct_n":
        return set().union(*[rel.e_cols(e) for e in x[1][1]])
    if x[0] == "agg":
        return set() if x[1][0] == "count_star" else rel.e_cols(x[1][1])
    out = set()
    for y in x[1:]:
        if isinstance(y, tuple):
            out |= _x_refs(y)
    return out


def step_refs(step):
    """column names a step refers to"""
    k = step[0]
    out = set()
    if k == "op":
        o = step[1]
        if o[0] == "select":
            for e, _ in o[1]:
                out |= rel.e_cols(e)
        elif o[0] == "where":
            out |= rel.e_cols(o[1])
        elif o[0] == "orderBy":
            for e, _, _ in o[1]:
                out |= rel.e_cols(e)
        elif o[0] == "withColumn":
            out |= rel.e_cols(o[2]) | {o[1]}      # the target names the column to replace when it exists
        elif o[0] == "rename":
            out.add(o[1])
        elif o[0] == "drop":
            out |= set(o[1])
        return out
    if k == "join":
        return {step[1]}
    inner = step[2] if k == "cube" else step
    keys = step[1] if k == "cube" else step[call_keys(step)]
    for e, _, _ in keys:
        out |= rel.e_cols(e)
    if inner[0] == "agg":
        for x, _ in inner[3]:
            out |= _x_refs(x)
    elif inner[0] == "short":
        out |= set(inner[3])
    elif inner[0] == "dict":
        out |= {c for c, _ in inner[3]}
    return out


def signature(steps, flags):
    """shape predicate of a deviation (implementation vs Spark spec)"""
    calls = [s for s in steps if s[0] != "op"]
    for s in calls:
        inner = s[2] if s[0] == "cube" else s
        keys = s[1] if s[0] == "cube" else (inner[call_keys(inner)] if inner[0] in ("agg", "short", "count", "dict") else [])
        if any(k[2] == "bare" for k in keys):
            return "C06/unaliased-key-expression"
        if inner[0] == "dict" and inner[1] == "dfagg":
            return "C06/DataFrame.agg-dict-raises" if flags.get("raised") else "C06/DataFrame.agg-dict-differs"
        if inner[0] == "dict" and any(f == "mean" for _, f in inner[3]) and flags.get("impl_is_model"):
            return "C06/dict-form-name:mean"
        if inner[0] == "dict" and any(c == "*" for c, _ in inner[3]) and flags.get("impl_is_model"):
            return "C06/dict-form-name:count-star"
        if inner[0] == "short" and not inner[4]:
            return "C06/shortcut-without-columns-raises" if flags.get("raised") else "C06/shortcut-without-columns-differs"
    for s in calls:
        if s[0] == "cube" and s[2][0] == "agg" and any(x[0] == "gid" for x, _ in s[2][3]) and any(k[2] == "alias" for k in s[1]) \
                and flags.get("raised"):
            return "C06/grouping_id-with-aliased-cube-key-raises"
        if s[0] == "cube":
            plain = {k[0][1] for k in s[1] if k[0][0] == "col"}
            if any(k[0][0] != "col" and rel.e_cols(k[0]) and rel.e_cols(k[0]) <= plain for k in s[1]):
                return "C06/cube-key-expression-over-other-cube-keys"
    seen_call = False
    for s in steps:
        if seen_call and any("(" in c for c in step_refs(s)):
            return "C06/fn(col)-named-column-referenced-by-name"
        seen_call = seen_call or s[0] != "op"
    if flags.get("raised"):
        return "C06/raises:" + flags.get("exc", "?")
    if flags.get("cube_on_empty") and flags.get("impl_is_model"):   # exactly what C06_refuted_cube_empty predicts
        return "C06/cube-on-empty-input-grand-total-row"
    kinds = [s[0] if s[0] != "op" else s[1][0] for s in steps]
    return ("C06/names-differ:" if flags.get("names") else "C06/rows-differ:") + ">".join(kinds[-3:])


def run_case(session, F, exp, steps, rows, want_export=True):
    """run on the implementation; returns dict(impl=(cols, rows)|None, exc, exported, cube_on_empty)"""
    out = {"impl": None, "exc": None, "exported": "None", "cube_on_empty": False, "export_err": None}
    try:
        df0 = session.createDataFrame(rows, SCHEMA)
        df = df0
        for st in steps:
            if st[0] == "cube":
                try:
                    out["cube_on_empty"] = out["cube_on_empty"] or df.count() == 0
                except Exception:
                    pass
            df = apply_step(df, st, F, df0)
        if want_export:
            try:
                out["exported"] = f"(Some {export_stages(df.expression, exp)})"
            except rel.NotExportable as ne:
                out["export_err"] = str(ne)
        got = df.collect()
        out["impl"] = (list(df.columns), [tuple(r) for r in got])
    except Exception as ex:
        out["exc"] = f"{type(ex).__name__}: {str(ex)[:160]}"
    return out


def case_coq(steps, rows, mode, lim, exported, impl):
    cols = {"a": "int", "b": "int", "s": "str"}
    cols0 = dict(cols)
    sc = []
    for st in steps:
        sc.append(step_coq(st, cols))
        nc = cols_after(st, cols, cols0)
        cols = nc if nc is not None else cols
    cm = {"seq": "CmpSeq", "bag": "CmpBag", "sub": f"(CmpSubOf {natlit(lim or 0)})"}[mode]
    impl_t = "None" if impl is None else \
        f"(Some ({listlit([strlit(c) for c in impl[0]])}, {listlit([rel.row_coq(r) for r in impl[1]])}))"
    return f"(mkCase {rel.frame_coq(COLS0, rows)} {listlit(sc)} {cm} {exported} {impl_t})"


def has_upper_names(steps):
    """some column name of the program has an upper-case letter (the SQL tree holds normalised identifiers, so T2 is skipped)"""
    cols = {"a": "int", "b": "int", "s": "str"}
    cols0 = dict(cols)
    for st in steps:
        cols = cols_after(st, cols, cols0)
        if cols is None:
            return False
        if any(c != c.lower() for c in cols):
            return True
    return False


def well_formed(steps):
    cols = {"a": "int", "b": "int", "s": "str"}
    cols0 = dict(cols)
    for st in steps:
        cols = cols_after(st, cols, cols0)
        if cols is None:
            return False
    return True


def run(ctx: core.Ctx):
    # ---- T1
    t1_ok = True
    try:
        text1, facts1 = c06_facts.generate_c01_core(core.REPO)
        ctx.gen("C01Facts", text1, facts1)
    except Exception as ex:
        ctx.broken("T1:c01_core_facts", f"{type(ex).__name__}: {ex}")
        ctx.gen("C01Facts", open(core.VERIF + "/translate/c06_c01core_pinned.v").read())
        t1_ok = False
    try:
        text6, facts6 = c06_facts.generate(core.REPO)
        ctx.gen("C06Facts", text6, facts6)
    except Exception as ex:
        ctx.broken("T1:c06_facts", f"{type(ex).__name__}: {ex}")
        ctx.gen("C06Facts", open(core.VERIF + "/translate/c06_facts_pinned.v").read())
        t1_ok = False
    # ---- proofs
    gen_files = [ctx.build + "/gen/C01Facts.v", ctx.build + "/gen/C06Facts.v"]
    deps = ["Base/Val.v", "Base/Expr.v", "Base/Sort.v", "Sql/Block.v", "Sql/Norm.v", "Model/Chain.v", "Model/ChainProof.v",
            "Model/ChainCheck.v", "C06/Agg.v", "C06/AggChain.v", "C06/AggNames.v", "C06/AggCheck.v"]
    if t1_ok:
        proved = ctx.prove(gen_files + [core.COQ + "/props/C06.v"], dep_theories=deps)
    else:
        proved = False
        # the obligations still exist; none of them is discharged against the current source
        for th in deps:
            ctx.obligations += core.count_obligations(os.path.join(core.THEORIES, th))
        ctx.obligations += core.count_obligations(core.COQ + "/props/C06.v")
        for p in gen_files:
            ctx.coqc(p)
    if not os.path.exists(ctx.build + "/gen/C06Facts.vo"):
        # the regenerated facts do not even type-check: fall back to the pinned ones so that the search can run
        ctx.gen("C01Facts", open(core.VERIF + "/translate/c06_c01core_pinned.v").read())
        ctx.gen("C06Facts", open(core.VERIF + "/translate/c06_facts_pinned.v").read())
        for p in gen_files:
            ctx.coqc(p)
    # ---- T2/T3
    from sqlframe.duckdb import DuckDBSession
    import sqlframe.duckdb.functions as F
    from sqlglot import expressions as exp
    session = DuckDBSession()
    try:
        session._conn.execute("PRAGMA threads=1")
    except Exception:
        pass
    progs, n_corpus = make_programs(ctx)
    shapes = api_shapes()
    items, metas, seen = [], [], set()
    hist = {"len": {}, "kind": {}, "mode": {}, "aggfn": {}, "keys": {}, "table": {}}
    n_raise = 0

    def bump(h, k):
        hist[h][k] = hist[h].get(k, 0) + 1

    for pi, steps0 in enumerate(shapes + progs):
        if not steps0 or not well_formed(steps0):
            continue
        (mode, lim), steps = plan_mode(steps0, {"a": "int", "b": "int", "s": "str"})
        is_shape = pi < len(shapes)
        for tname, rows in TABLES.items():
            if is_shape and tname not in ("t1", "empty"):
                continue
            if ctx.tier == "quick" and pi >= len(shapes) + n_corpus and tname == "t2":
                continue        # quick tier: random programs on empty / t1 / t3 only (hand-written shapes on all four)
            key = (repr(steps), tname)
            if key in seen:
                continue
            seen.add(key)
            res = run_case(session, F, exp, steps, rows, want_export=not has_upper_names(steps))
            n_raise += res["impl"] is None
            items.append(case_coq(steps, rows, mode, lim, res["exported"], res["impl"]))
            metas.append({"steps": steps, "table": tname, "mode": mode, "exc": res["exc"], "exported": res["exported"] != "None",
                          "export_err": res["export_err"], "cube_on_empty": res["cube_on_empty"], "impl": res["impl"],
                          "shape": is_shape})
            bump("len", len(steps))
            bump("mode", mode)
            bump("table", tname)
            for s in steps:
                bump("kind", s[0] if s[0] != "op" else s[1][0])
                inner = s[2] if s[0] == "cube" else s
                if inner[0] == "agg":
                    for x, _ in inner[3]:
                        for f in _aggfns(x):
                            bump("aggfn", f)
                if s[0] in ("agg", "short", "count", "dict", "cube"):
                    keys = s[1] if s[0] == "cube" else s[call_keys(s)]
                    bump("keys", "none" if not keys else "+".join(sorted({k[2] if k[0][0] == "col" else "expr-" + k[2] for k in keys})))
    ctx.log(f"{len(items)} cases from {len(progs)} programs ({n_corpus} hand-written shapes) + {len(shapes)} API shapes, {n_raise} raised")
    res = ctx.cases("c06", HEADER, items, per_file=120, result_ty="str", fn="check")
    n_t2 = n_dom = n_nontriv = n_exportable = 0
    t2_fail, model_fail = [], []
    for it, m, r in zip(items, metas, res):
        if r is None or len(r) != 6:
            continue
        t2, im, isp, ms, dom, raised = (ch == "1" for ch in r)
        n_t2 += t2
        n_dom += dom
        n_exportable += m["exported"]
        desc = {"program": [step_str(s) for s in m["steps"]], "table": m["table"], "rows": TABLES[m["table"]], "mode": m["mode"],
                "verdict(t2,impl=model,impl=spec,model=spec,in_domain,raised)": r, "exception": m["exc"],
                "got": None if m["impl"] is None else {"columns": m["impl"][0], "rows": m["impl"][1][:40]},
                "steps_json": m["steps"], "coq_case": it,
                "column_object_reuse": [f"{step_str(s)}: aggregate Column objects first used in {w[0]}({w[1] if w[1] == 'other' else keys_str(w[1])}).agg(...)"
                                        for s in m["steps"] if s[0] != "op" for w in [warm_plan(s)] if w]}
        if raised or not isp:
            flags = {"raised": raised, "exc": (m["exc"] or "?").split(":")[0], "cube_on_empty": m["cube_on_empty"], "impl_is_model": im}
            sig = signature(m["steps"], flags)
            ctx.deviation(sig, f"raises {m['exc']}" if raised else "df.columns / collect() differ from PySpark's meaning", desc)
        elif not im:
            model_fail.append(desc)
        elif not t2 and m["exported"]:
            t2_fail.append(desc)
        if proved and dom and not ms and not any(b["name"] == "theorem-vs-evaluation" for b in ctx.brokens):
            ctx.broken("theorem-vs-evaluation", "in-domain case where model and spec evaluate differently: " + it[:500])
        if TABLES[m["table"]] and any(s[0] != "op" for s in m["steps"]) and m["impl"] is not None and m["impl"][1]:
            n_nontriv += 1
        if len(ctx.samples) < 5 and len(m["steps"]) >= 3 and m["table"] == "t1" and not m["shape"]:
            ctx.sample({"program": desc["program"], "table": m["table"], "verdict": r})
    if model_fail:
        ctx.broken("T3:impl-vs-model", f"{len(model_fail)} cases where df.columns/collect() equal the Spark spec but not the model; "
                   f"first: {model_fail[0]['program']} on {model_fail[0]['table']}", data=model_fail[:5])
    if t2_fail:
        # a tree that differs although the final rows agree: look for a prefix of the program whose result already differs
        # from the Spark spec (e.g. a step that was silently ignored and later masked)
        pitems, pmeta = [], []
        for fi, d in enumerate(t2_fail[:60]):
            st_all = [_tup(x) for x in d["steps_json"]]
            for n_pre in range(1, len(st_all)):
                (pm, plim), pre = plan_mode(st_all[:n_pre], {"a": "int", "b": "int", "s": "str"})
                for tname in ("t1", "t3"):
                    rr = run_case(session, F, exp, pre, TABLES[tname], want_export=False)
                    pitems.append(case_coq(pre, TABLES[tname], pm, plim, "None", rr["impl"]))
                    pmeta.append((fi, pre, tname, rr))
        pres = ctx.cases("c06pfx", HEADER, pitems, per_file=120, result_ty="str", fn="check") if pitems else []
        explained = set()
        for (fi, pre, tname, rr), r in zip(pmeta, pres):
            if r is None or len(r) != 6 or fi in explained:
                continue
            if r[5] == "1" or r[2] != "1":
                explained.add(fi)
                ctx.deviation(signature(pre, {"raised": r[5] == "1", "exc": (rr["exc"] or "?").split(":")[0],
                                              "cube_on_empty": rr["cube_on_empty"], "impl_is_model": r[1] == "1"}),
                              "a prefix of a program whose SQL tree differs from the model already differs from PySpark's meaning",
                              {"program": [step_str(s) for s in pre], "table": tname, "rows": TABLES[tname], "steps_json": pre,
                               "exception": rr["exc"], "got": None if rr["impl"] is None else {"columns": rr["impl"][0], "rows": rr["impl"][1][:40]},
                               "verdict(t2,impl=model,impl=spec,model=spec,in_domain,raised)": r,
                               "found_from": t2_fail[fi]["program"]})
        t2_fail = [d for fi, d in enumerate(t2_fail) if fi not in explained]
    if t2_fail:
        ctx.broken("T2:tree-vs-model", f"{len(t2_fail)} programs whose exported SQL tree differs from the model's normal form; "
                   f"first: {t2_fail[0]['program']}", data=t2_fail[:5])
    # ---- spec conformance: the Coq Spark spec against answers recorded from PySpark 3.5.9
    rec_path = os.path.join(core.VERIF, "oracle", "c06_pyspark.jsonl")
    n_rec = n_rec_bad = 0
    if os.path.exists(rec_path):
        ritems, rmeta = [], []
        for line in open(rec_path):
            rc = json.loads(line)
            steps = [_tup(s) for s in rc["steps"]]
            rows = [tuple(x) for x in rc["rows"]]
            impl = (rc["columns"], [tuple(x) for x in rc["result"]])
            ritems.append(case_coq(steps, rows, rc["mode"], rc.get("lim"), "None", impl))
            rmeta.append(rc)
        rres = ctx.cases("c06rec", HEADER, ritems, per_file=150, result_ty="bool", fn="spec_ok")
        bad = []
        for rc, r in zip(rmeta, rres):
            if r is None:
                continue
            n_rec += 1
            if not r:
                n_rec_bad += 1
                bad.append({"program": [step_str(_tup(s)) for s in rc["steps"]], "table": rc["table"], "pyspark_columns": rc["columns"],
                            "pyspark_rows": rc["result"][:30]})
        if bad:
            ctx.broken("spec-conformance", f"{len(bad)} recorded PySpark answers differ from the Coq Spark spec; first: "
                       f"{bad[0]['program']} on {bad[0]['table']}", data=bad[:5])
    else:
        ctx.broken("spec-conformance", "oracle/c06_pyspark.jsonl is missing (run oracle/record_c06.py)")
    ctx.coverage.update({
        "evaluations": len(items), "distinct_nontrivial": n_nontriv,
        "rule": "case = (program, table); program = [<=2 C01 ops] + aggregation call (groupBy.agg / DataFrame.agg / shortcut / "
                "count / dict / cube) + [C01 ops] + optional re-aggregation or join; hand-written shapes cover every aggregate x key "
                "form x call form and the aggregate before/after each C01 operation kind; tables: empty, NULL keys, all-NULL groups, "
                "duplicates; non-trivial = non-empty table, at least one aggregation call, non-empty result; distinct by (program text, table)",
        "programs": len(progs), "hand_written_shapes": n_corpus, "api_shapes": len(shapes),
        "t2_structurally_equal": n_t2, "t2_exportable": n_exportable, "in_theorem_domain": n_dom,
        "histogram_program_length": hist["len"], "histogram_step_kind": hist["kind"], "histogram_compare_mode": hist["mode"],
        "histogram_aggregate_function": hist["aggfn"], "histogram_key_forms": hist["keys"], "histogram_table": hist["table"],
        "deviation_signatures": _sig_hist(ctx),
        "impl_raised": n_raise, "pyspark_recordings_checked": n_rec, "pyspark_recordings_disagree": n_rec_bad,
    })
    ctx.assumptions += [
        "C06.Agg.eval_gblock is my definition of DuckDB's evaluation of SELECT ... GROUP BY / GROUPING SETS on the emitted fragment "
        "(NULL groups with NULL; the empty grouping set yields one row even on no input, which HAVING COUNT(*) > 0 removes); "
        "validated by T3 only",
        "a grouped SELECT with ORDER BY/LIMIT over output names equals sorting/limiting the grouped result (the exporter splits it so)",
        "C06.Agg.spec_agg / spec_cube / AggNames.spark_* are my definitions of PySpark's meaning, validated against PySpark 3.5.9 "
        "recordings (oracle/c06_pyspark.jsonl) on every run",
        "combinations / rev / seq model itertools.combinations / reversed / range",
        "avg is compared as an exact rational: the engine's double is converted with Fraction.limit_denominator(10**6)",
        "C01's assumptions (Sql.Block.eval_block, ordered CTE kept through outer filter/projection/limit)",
    ]


def _sig_hist(ctx):
    h = {}
    for d in ctx.deviations:
        h[d["signature"]] = h.get(d["signature"], 0) + 1
    return h


def _aggfns(x):
    if x[0] == "gid":
        return ["grouping_id"]
    if x[0] == "agg":
        return [x[1][0]]
    out = []
    for y in x[1:]:
        if isinstance(y, tuple):
            out += _aggfns(y)
    return out


def _tup(x):
    return tuple(_tup(y) for y in x) if isinstance(x, list) else x


def replay(ctx: core.Ctx, rp: dict) -> int:
    """re-run the program of a replay file on /repo's current tree and print what it returns"""
    r = rp.get("replay") or (rp.get("no_longer_checks") or [{}])[0].get("data", [{}])[0]
    steps = [_tup(s) for s in r["steps_json"]]
    from sqlframe.duckdb import DuckDBSession
    import sqlframe.duckdb.functions as F
    rows = [tuple(x) for x in r["rows"]]
    print("program:", [step_str(s) for s in steps])
    print("input  :", rows)
    if "pyspark" in r:
        print("PySpark:", r["pyspark"])
    try:
        df0 = DuckDBSession().createDataFrame(rows, SCHEMA)
        df = df0
        for st in steps:
            df = apply_step(df, st, F, df0)
        print("sql:", df.sql(optimize=False))
        got = df.collect()
        print("df.columns:", df.columns)
        print("collect():", [tuple(x) for x in got])
    except Exception as ex:
        print("RAISED:", type(ex).__name__, str(ex)[:300])
    print("verdict recorded:", r.get("verdict(t2,impl=model,impl=spec,model=spec,in_domain,raised)"))
    return 0
