"""C18: generator of programs P, histories H and their interleavings (traces for checks/c18_worker.py)."""
from __future__ import annotations

import random

from checks.c18_model import TBL_COLS

ALIASES = ["x", "y", "a", "v"]          # "a" is also a column name, "v" also a view name
VIEWS = ["v", "w"]
ACTS = ["collect", "count", "show", "columns"]


class Builder:
    """Builds the steps of one party.  `peer` handles (the other party's frames) may be read by H only."""

    def __init__(self, rnd: random.Random, owner: str, info: dict, allow_peer: bool):
        self.rnd, self.owner, self.info, self.allow_peer = rnd, owner, info, allow_peer
        self.n = 0
        self.mine: list[str] = []
        self.steps: list[dict] = []
        self.views: dict[str, list[str]] = {}     # view name -> columns this party registered last

    def new(self) -> str:
        h = f"{'p' if self.owner == 'P' else 'h'}{self.n}"
        self.n += 1
        return h

    def readable(self):
        hs = list(self.mine)
        if self.allow_peer:
            hs += [h for h in self.info if h[0] != ('p' if self.owner == 'P' else 'h')]
        return hs

    def emit(self, st, dst=None, cols=None, aliases=None, lineage=None, joined=False):
        st["o"] = self.owner
        self.steps.append(st)
        if dst is not None:
            self.info[dst] = {"cols": cols, "aliases": aliases, "lineage": lineage, "joined": joined}
            self.mine.append(dst)

    def colref(self, h, c, allow_frame=True, must_qualify=False):
        inf = self.info[h]
        r = self.rnd.random()
        if must_qualify and not inf["aliases"]:
            r = 0.5
        if inf["aliases"] and r < 0.45:
            return {"q": ["name", self.rnd.choice(sorted(inf["aliases"]))], "c": c}
        if allow_frame and r < 0.7:
            cand = [x for x in sorted(inf["lineage"]) if c in self.info[x]["cols"]
                    and (self.allow_peer or x[0] == ('p' if self.owner == 'P' else 'h'))]
            if cand:
                return {"q": ["frame", self.rnd.choice(cand)], "c": c}
        if must_qualify:
            own = h if (self.allow_peer or h[0] == ('p' if self.owner == 'P' else 'h')) else None
            if own is not None:
                return {"q": ["frame", own], "c": c}
        return {"q": None, "c": c}

    def create(self):
        dst = self.new()
        tbl = self.rnd.choice(["T1", "T1", "T2", "T3", "T4"])
        self.emit({"op": "create", "dst": dst, "tbl": tbl}, dst, list(TBL_COLS[tbl]), set(), {dst})
        return dst

    def pick(self):
        hs = self.readable()
        if not hs:
            return self.create()
        return self.rnd.choice(hs)

    def step(self):
        r = self.rnd.random()
        if not self.readable() or r < 0.10:
            return self.create()
        src = self.pick()
        inf = self.info[src]
        cols = inf["cols"]
        uniq = [c for c in dict.fromkeys(cols)]
        if r < 0.28:
            k = self.rnd.randint(1, len(uniq))
            chosen = self.rnd.sample(uniq, k)
            dst = self.new()
            amb = inf["joined"]
            self.emit({"op": "select", "dst": dst, "src": src,
                       "cols": [self.colref(src, c) if not amb or self.rnd.random() < 0.7 else {"q": None, "c": c} for c in chosen]},
                      dst, chosen, set(inf["aliases"]), inf["lineage"] | {dst})
        elif r < 0.40:
            dst = self.new()
            c = self.rnd.choice(uniq)
            self.emit({"op": "where", "dst": dst, "src": src, "col": self.colref(src, c), "k": self.rnd.choice([0, 1, 2])},
                      dst, list(cols), set(inf["aliases"]), inf["lineage"] | {dst}, inf["joined"])
        elif r < 0.55:
            dst = self.new()
            name = self.rnd.choice(ALIASES if self.rnd.random() < 0.15 else ["x", "y", "v"])
            self.emit({"op": "alias", "dst": dst, "src": src, "name": name}, dst, list(cols),
                      set(inf["aliases"]) | {name}, inf["lineage"] | {dst}, inf["joined"])
        elif r < 0.72:
            other = self.pick()
            oinf = self.info[other]
            dst = self.new()
            common = [c for c in uniq if c in oinf["cols"]]
            if common and self.rnd.random() < 0.4:
                on = ["names", [self.rnd.choice(common)]]
                ncols = on[1] + [c for c in cols + oinf["cols"] if c not in on[1]]
            else:
                lc = self.rnd.choice(uniq)
                rc = self.rnd.choice(list(dict.fromkeys(oinf["cols"])))
                q = self.rnd.random() < 0.9
                on = ["expr", self.colref(src, lc, must_qualify=q), self.colref(other, rc, must_qualify=q)]
                ncols = cols + oinf["cols"]
            self.emit({"op": "join", "dst": dst, "l": src, "r": other, "on": on}, dst, ncols,
                      set(inf["aliases"]) | set(oinf["aliases"]), inf["lineage"] | oinf["lineage"] | {dst}, True)
        elif r < 0.80:
            if len(set(cols)) == len(cols):
                v = self.rnd.choice(VIEWS)
                if self.owner == "H" and len(cols) > 1 and self.rnd.random() < 0.5:
                    # the other work registers the view name with the same columns in another order / a subset
                    sel = list(reversed(cols)) if self.rnd.random() < 0.6 else cols[1:]
                    dst = self.new()
                    self.emit({"op": "select", "dst": dst, "src": src, "cols": [{"q": None, "c": c} for c in sel]},
                              dst, sel, set(inf["aliases"]), inf["lineage"] | {dst})
                    src, cols = dst, sel
                self.emit({"op": "view", "src": src, "name": v})
                self.views[v] = list(cols)
        elif r < 0.88:
            if self.views:
                v = self.rnd.choice(sorted(self.views))
                vc = self.views[v]
                dst = self.new()
                sel = None if self.rnd.random() < 0.5 else self.rnd.sample(vc, self.rnd.randint(1, len(vc)))
                self.emit({"op": "sql", "dst": dst, "view": v, "cols": sel}, dst, list(sel or vc), set(), {dst})
        elif r < 0.93:
            self.emit({"op": self.rnd.choice(ACTS), "src": src})
        elif r < 0.96:
            self.emit({"op": "schema", "src": src})
        else:
            k = self.rnd.choice(["missing_col", "missing_view", "bad_join", "alias_then_missing"])
            st = {"op": "bad", "src": src, "kind": k}
            if k == "alias_then_missing":
                st["name"] = self.rnd.choice(ALIASES)
            self.emit(st)

    def finish(self, n_actions=1):
        """end with actions on the most recent frames"""
        for h in self.mine[-n_actions:]:
            self.emit({"op": "collect", "src": h})
            self.emit({"op": "sqltext", "src": h})


def gen_program(rnd: random.Random, n_steps: int, owner="P", info=None, allow_peer=False, actions=2):
    info = {} if info is None else info
    b = Builder(rnd, owner, info, allow_peer)
    b.create()
    guard = 0
    while len(b.steps) < n_steps and guard < 200:
        b.step()
        guard += 1
    if actions:
        b.finish(actions)
    return b.steps, info


def interleave(rnd: random.Random, p_steps, h_steps, mode: str):
    """merge keeping each party's order.  H reads P's frames only after they exist (the generator of H was run with the
    whole of P visible, so an H step that reads p_k must come after the step that binds p_k)."""
    if mode == "before":
        # H may only read frames of P that exist: with H first it must not read any
        return h_steps + p_steps
    out, i, j = [], 0, 0
    bound = set()

    def h_ready(st):
        reads = [st.get(k) for k in ("src", "l", "r")]
        for c in (st.get("cols") or []) + ([st["col"]] if "col" in st else []) + (st["on"][1:] if st.get("on", [""])[0] == "expr" else []):
            if isinstance(c, dict) and c["q"] and c["q"][0] == "frame":
                reads.append(c["q"][1])
        return all(x is None or x[0] != "p" or x in bound for x in reads)
    while i < len(p_steps) or j < len(h_steps):
        take_h = j < len(h_steps) and h_ready(h_steps[j]) and (i >= len(p_steps) or rnd.random() < 0.5)
        if take_h:
            out.append(h_steps[j])
            j += 1
        elif i < len(p_steps):
            st = p_steps[i]
            out.append(st)
            if "dst" in st:
                bound.add(st["dst"])
            i += 1
        else:
            # remaining H steps wait for P frames that are never bound (P step failed to be emitted) -> drop them
            break
    return out


def _reads(st):
    out = [st.get(k) for k in ("src", "l", "r", "reader")]
    cs = list(st.get("cols") or []) + ([st["col"]] if "col" in st else [])
    if st.get("on") and st["on"][0] == "expr":
        cs += st["on"][1:]
    for c in cs:
        if isinstance(c, dict) and c["q"] and c["q"][0] == "frame":
            out.append(c["q"][1])
    return [x for x in out if x]


def creates_first(p_steps):
    """the same program with its createDataFrame steps moved to the front (they depend on nothing)"""
    return [s for s in p_steps if s["op"] == "create"] + [s for s in p_steps if s["op"] != "create"]


def mirror_history(rnd: random.Random, p_steps):
    """other work over the SAME source frames with the SAME shape of operations as P, in which the alias names are permuted
    among the inputs (so that CTE names -- content hashes -- coincide while the alias names point elsewhere)."""
    names = list(dict.fromkeys(s["name"] for s in p_steps if s["op"] == "alias"))
    if len(names) < 2:
        return None
    perm = names[1:] + names[:1]
    if rnd.random() < 0.3:
        rnd.shuffle(perm)
        if perm == names:
            perm = names[1:] + names[:1]
    ren = dict(zip(names, perm))
    created = {s["dst"] for s in p_steps if s["op"] == "create"}

    def hh(x):
        return x if x in created else "h" + x[1:]

    def cc(c):
        q = c["q"]
        if q and q[0] == "name":
            q = ["name", ren.get(q[1], q[1])]
        elif q and q[0] == "frame":
            q = ["frame", hh(q[1])]
        return {"q": q, "c": c["c"]}
    out = []
    for s in p_steps:
        if s["op"] in ("create", "view", "sql", "sqltext", "bad"):
            continue
        t = dict(s)
        t["o"] = "H"
        for k in ("dst", "src", "l", "r"):
            if k in t:
                t[k] = hh(t[k])
        if "name" in t and s["op"] == "alias":
            t["name"] = ren[t["name"]]
        if "cols" in t and t["cols"] is not None:
            t["cols"] = [cc(c) for c in t["cols"]]
        if "col" in t:
            t["col"] = cc(t["col"])
        if t.get("on") and t["on"][0] == "expr":
            t["on"] = ["expr", cc(t["on"][1]), cc(t["on"][2])]
        out.append(t)
    return out


def after_reads(p_steps, h_steps):
    """P's shortest prefix that binds every frame of P that H reads, then H, then the rest of P"""
    need = {x for st in h_steps for x in _reads(st) if x[0] == "p"}
    k = 0
    bound = set()
    while need - bound and k < len(p_steps):
        if "dst" in p_steps[k]:
            bound.add(p_steps[k]["dst"])
        k += 1
    return p_steps[:k] + h_steps + p_steps[k:]


# ---- wider alphabet (outside the Coq model; compared between runs only) ------------------------------------------------

def touch_steps(rnd: random.Random, frame: str, cols, wide: bool, n0: int = 50):
    """other work that DERIVES new frames from one of P's frames (and executes them) -- must leave P's frame as it was"""
    uniq = [c for c in dict.fromkeys(cols) if cols.count(c) == 1]
    if not uniq:
        return []
    c = rnd.choice(uniq)
    out = []
    k = n0
    cands = ["where", "select"]
    if wide:
        cands += ["orderBy", "limit", "withColumn", "drop", "distinct", "groupby_count", "fillna_dict", "dropna", "withColumnRenamed"]
    for kind in rnd.sample(cands, min(len(cands), 3 if wide else 2)):
        dst = f"h{k}"
        k += 1
        if kind == "where":
            out.append({"o": "H", "op": "where", "dst": dst, "src": frame, "col": {"q": None, "c": c}, "k": 1})
        elif kind == "select":
            out.append({"o": "H", "op": "select", "dst": dst, "src": frame, "cols": [{"q": None, "c": c}]})
        else:
            args = {"orderBy": {"cols": [c]}, "limit": {"n": 1}, "withColumn": {"new": "zz", "c": c}, "drop": {"cols": [c]},
                    "distinct": {}, "groupby_count": {"by": [c]}, "fillna_dict": {"values": [[c, 0]]}, "dropna": {"cols": [c]},
                    "withColumnRenamed": {"c": c, "new": "zz"}}[kind]
            out.append({"o": "H", "op": "api", "dst": dst, "src": frame, "name": kind, "args": args})
        out.append({"o": "H", "op": "collect", "src": dst})
    return out


def insert_before_actions(trace, frame, extra):
    """put `extra` right before P's first action on `frame` (after the step that binds it)"""
    for i, st in enumerate(trace):
        if st["o"] == "P" and st.get("src") == frame and st["op"] in ("collect", "count", "show", "columns", "sqltext", "schema"):
            return trace[:i] + extra + trace[i:]
    return trace


EXT_TABLE_COLS = dict(TBL_COLS)


def gen_ext_program(rnd: random.Random):
    """a program over the wider DataFrame API: set/dict-driven constructions, file reads, session.table"""
    P = "P"
    steps = []
    cols = {}
    n = [0]

    def new():
        h = f"p{n[0]}"
        n[0] += 1
        return h

    def create(tbl):
        d = new()
        steps.append({"o": P, "op": "create", "dst": d, "tbl": tbl})
        cols[d] = list(TBL_COLS[tbl])
        return d
    kind = rnd.choice(["ubn", "ubn", "ubn2", "agg", "na", "multi", "chain", "csv", "table"])
    if kind in ("ubn", "ubn2"):
        l, r = rnd.choice([("T1", "T3"), ("T2", "T5"), ("T1", "T5"), ("T4", "T3"), ("T2", "T3")])
        a, b = create(l), create(r)
        d = new()
        steps.append({"o": P, "op": "unionbyname", "dst": d, "l": a, "r": b, "allow": True})
        cols[d] = cols[a] + [c for c in cols[b] if c not in cols[a]]
        if kind == "ubn2":
            c3 = create(rnd.choice(["T3", "T5"]))
            d2 = new()
            steps.append({"o": P, "op": "unionbyname", "dst": d2, "l": c3, "r": d, "allow": True})
            cols[d2] = cols[c3] + [c for c in cols[d] if c not in cols[c3]]
            d = d2
        last = d
    elif kind == "agg":
        a = create(rnd.choice(["T3", "T5"]))
        cs = cols[a]
        d = new()
        steps.append({"o": P, "op": "api", "dst": d, "src": a, "name": "groupby_agg_dict",
                      "args": {"by": cs[0], "aggs": [[cs[1], "max"], [cs[2], "min"]]}})
        d2 = new()
        steps.append({"o": P, "op": "api", "dst": d2, "src": a, "name": "agg_funcs",
                      "args": {"by": [cs[0]], "aggs": [[cs[1], "sum"], [cs[2], "max"], [cs[1], "count"]]}})
        steps.append({"o": P, "op": "collect", "src": d2})
        steps.append({"o": P, "op": "sqltext", "src": d2})
        last = d
    elif kind == "na":
        a = create(rnd.choice(["T1", "T3", "T5"]))
        cs = cols[a]
        d1, d2, d3, d4 = new(), new(), new(), new()
        steps += [{"o": P, "op": "api", "dst": d1, "src": a, "name": "fillna_dict", "args": {"values": [[c, i] for i, c in enumerate(cs)]}},
                  {"o": P, "op": "api", "dst": d2, "src": d1, "name": "dropna", "args": {"cols": cs[:2]}},
                  {"o": P, "op": "api", "dst": d3, "src": d2, "name": "dropDuplicates", "args": {"cols": cs[-2:]}},
                  {"o": P, "op": "api", "dst": d4, "src": d3, "name": "replace_dict", "args": {"map": [[1, 11], [3, 33]], "cols": cs[:2]}}]
        last = d4
    elif kind == "multi":
        a, b = create("T1"), create("T4")
        d = new()
        steps.append({"o": P, "op": "join", "dst": d, "l": a, "r": b, "on": ["names", ["a", "b"]]})
        d2 = new()
        steps.append({"o": P, "op": "api", "dst": d2, "src": d, "name": "selectstar", "args": {}})
        last = d2
    elif kind == "chain":
        a = create(rnd.choice(["T1", "T2", "T3", "T5"]))
        cs = cols[a]
        seq = [("withColumn", {"new": "n1", "c": cs[0]}), ("withColumnRenamed", {"c": cs[1], "new": "r1"}), ("drop", {"cols": [cs[0]]}),
               ("distinct", {}), ("orderBy", {"cols": ["n1"]}), ("limit", {"n": 3}), ("toDF", None), ("select_exprs", None)]
        cur, ccols = a, list(cs)
        ordered = False
        for nm, args in seq:
            if rnd.random() < 0.35:
                continue
            if nm == "limit" and not ordered:
                continue          # LIMIT without a total order has no determined result
            ordered = (nm == "orderBy")
            if nm == "withColumn":
                ccols = ccols + ["n1"]
            elif nm == "withColumnRenamed":
                ccols = ["r1" if c == cs[1] else c for c in ccols]
            elif nm == "drop":
                ccols = [c for c in ccols if c != cs[0]]
            elif nm == "orderBy":
                args = {"cols": list(ccols)}
            elif nm == "toDF":
                args = {"names": [f"c{i}" for i in range(len(ccols))]}
                ccols = list(args["names"])
            elif nm == "select_exprs":
                args = {"pairs": [[c, "x_" + c] for c in ccols]}
                ccols = ["x_" + c for c in ccols]
            d = new()
            steps.append({"o": P, "op": "api", "dst": d, "src": cur, "name": nm, "args": args})
            cur = d
        last = cur
    elif kind == "csv":
        d1, d2, d3 = new(), new(), new()
        steps += [{"o": P, "op": "csv", "dst": d1, "file": "F1", "chain": []},
                  {"o": P, "op": "csv", "dst": d2, "file": "F3", "chain": [["option", "header", True]], "kw": {}},
                  {"o": P, "op": "csv", "dst": d3, "file": "F3", "chain": [["options", {"header": False, "skip": 1}]], "kw": {}},
                  {"o": P, "op": "collect", "src": d2}, {"o": P, "op": "collect", "src": d3}, {"o": P, "op": "columns", "src": d3}]
        last = d1
    else:
        a = create(rnd.choice(["T1", "T2"]))
        b = new()
        steps.append({"o": P, "op": "alias", "dst": b, "src": a, "name": "x"})
        steps.append({"o": P, "op": "view", "src": b, "name": "tv"})
        d = new()
        steps.append({"o": P, "op": "table", "dst": d, "view": "tv"})
        d2 = new()
        steps.append({"o": P, "op": "where", "dst": d2, "src": d, "col": {"q": None, "c": "a"}, "k": 1})
        steps.append({"o": P, "op": "collect", "src": d2})
        last = d
    steps += [{"o": P, "op": "collect", "src": last}, {"o": P, "op": "columns", "src": last}, {"o": P, "op": "sqltext", "src": last}]
    return steps, kind


def py_independent(trace):
    """the domain of the property, decided on the trace: P reads only its own frames and no view name the other work registers"""
    hw = {st["name"] for st in trace if st["o"] == "H" and st["op"] == "view"}
    for st in trace:
        if st["o"] != "P":
            continue
        if any(x[0] != "p" for x in _reads(st)):
            return False
        if st["op"] in ("sql", "table") and st["view"] in hw:
            return False
    return True
