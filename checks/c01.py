"""C01 -- transformation chains give PySpark's sequential result.

T1  translate/c01_facts.py  -> Gen/C01Facts.v   (enum, wrapper predicate, decorators, append/min flags)
Prf coq/props/C01.v         -> cfg_ok / limit_ok instantiation + C01_partial (all op lists, all inputs)
T2  exported sqlglot chain  == model chain up to the verified normal form nf   (per program, all data)
T3  collect() rows on DuckDB == model rows == spec rows                          (per program x table)
"""
from __future__ import annotations

import random

from vlib import core, rel
from vlib.core import strlit, listlit, natlit, boollit
from translate import c01_facts

HEADER = """From SF Require Import Model.ChainCheck.
From Gen Require Import C01Facts.
Open Scope string_scope.
Definition check := ChainCheck.check gen_cfg.
"""

TABLES = {
    "empty": [],
    "t1": [(1, 2, "x"), (2, 1, "y"), (None, 3, "x"), (1, 1, None), (1, 2, "x"), (3, None, "z")],
    "t2": [(0, 0, ""), (-1, 5, "a"), (-1, 5, "a"), (None, None, None), (2, -3, "b"), (4, 4, "a"), (2, 7, "c"), (None, 1, "b")],
}
SCHEMA = "a bigint, b bigint, s string"
COLS0 = ["a", "b", "s"]
INT_COLS0 = {"a", "b"}


class Gen:
    """Typed step/expression generator.  `cols` maps current column name -> 'int' | 'str' | 'bool'."""

    def __init__(self, rnd):
        self.r = rnd

    def int_e(self, cols, depth=2):
        ints = [c for c, t in cols.items() if t == "int"]
        r = self.r
        if depth == 0 or r.random() < 0.3 or not ints:
            if ints and r.random() < 0.75:
                return ("col", r.choice(ints))
            return ("lit", r.choice([0, 1, 2, -1, 3]))
        k = r.random()
        if k < 0.6:
            return ("bin", r.choice(["Add", "Sub", "Mul"]), self.int_e(cols, depth - 1), self.int_e(cols, depth - 1))
        if k < 0.7:
            return ("neg", self.int_e(cols, depth - 1))
        if k < 0.85:
            return ("if", self.bool_e(cols, depth - 1), self.int_e(cols, depth - 1), self.int_e(cols, depth - 1))
        return ("coalesce", self.int_e(cols, depth - 1), ("lit", r.choice([0, 9])))

    def bool_e(self, cols, depth=2):
        r = self.r
        ints = [c for c, t in cols.items() if t == "int"]
        strs = [c for c, t in cols.items() if t == "str"]
        bools = [c for c, t in cols.items() if t == "bool"]
        k = r.random()
        if depth > 0 and k < 0.25:
            return ("bin", r.choice(["And", "Or"]), self.bool_e(cols, depth - 1), self.bool_e(cols, depth - 1))
        if depth > 0 and k < 0.35:
            return ("not", self.bool_e(cols, depth - 1))
        if k < 0.5 and (ints or strs):
            return ("isnull", ("col", r.choice(ints + strs)))
        if k < 0.6 and strs:
            return ("bin", r.choice(["Eq", "Neq", "Lt", "Ge"]), ("col", r.choice(strs)), ("lit", r.choice(["x", "a", "b", ""])))
        if k < 0.65 and bools:
            return ("col", r.choice(bools))
        op = r.choice(["Eq", "Neq", "Lt", "Le", "Gt", "Ge", "NullSafeEq"])
        return ("bin", op, self.int_e(cols, 1), self.int_e(cols, 1))

    def step(self, cols):
        r = self.r
        names = list(cols)
        k = r.random()
        if k < 0.2:
            n = r.randint(1, min(3, len(names)))
            keep = r.sample(names, n)
            items = [(("col", c), c) for c in keep]
            if r.random() < 0.6:
                tgt = r.choice(["a", "b", "c", "d"])
                items = [it for it in items if it[1] != tgt]
                if r.random() < 0.3:
                    items.append((self.bool_e(cols, 1), tgt))
                else:
                    items.append((self.int_e(cols), tgt))
            r.shuffle(items)
            return ("select", items)
        if k < 0.4:
            return ("where", self.bool_e(cols))
        if k < 0.55:
            return self.order_step(cols, total=r.random() < 0.7)
        if k < 0.65:
            return ("limit", r.choice([0, 1, 2, 3, 5, 100]))
        if k < 0.73:
            return ("distinct",)
        if k < 0.85:
            tgt = r.choice(names + ["c", "d"])
            e = self.bool_e(cols, 1) if r.random() < 0.2 else self.int_e(cols)
            return ("withColumn", tgt, e)
        if k < 0.93:
            return ("rename", r.choice(names), r.choice(["c", "d", "e"] + names))
        return ("drop", r.sample(names, 1) + (["zz"] if r.random() < 0.2 else []))

    def order_step(self, cols, total):
        r = self.r
        names = list(cols)
        r.shuffle(names)
        if not total:
            names = names[: r.randint(1, max(1, len(names) - 1))]
        keys = []
        for c in names:
            desc = r.random() < 0.4
            nf = r.choice([None, None, True, False])
            keys.append((("col", c), desc, nf))
        if not total and r.random() < 0.3 and any(t == "int" for t in cols.values()):
            ke = self.int_e(cols, 1)
            if rel.e_cols(ke):   # ORDER BY <constant> is positional in SQL; not generated
                keys = [(ke, r.random() < 0.5, None)] + keys[:1]
        return ("orderBy", keys)


def type_of(e, cols):
    k = e[0]
    if k == "col":
        return cols[e[1]]
    if k == "lit":
        return "bool" if isinstance(e[1], bool) else "int" if isinstance(e[1], int) else "str"
    if k == "bin":
        return "int" if e[1] in ("Add", "Sub", "Mul") else "bool"
    if k in ("not", "isnull"):
        return "bool"
    if k == "neg":
        return "int"
    if k == "if":
        return type_of(e[2], cols)
    if k == "coalesce":
        return type_of(e[1], cols)
    raise ValueError(e)


def cols_after(step, cols):
    """columns (ordered dict name->type) after the step, or None if the step is ill-formed here"""
    k = step[0]
    if k == "select":
        names = [n for _, n in step[1]]
        if len(set(names)) != len(names):
            return None
        return {n: type_of(e, cols) for e, n in step[1]}
    if k == "withColumn":
        new = dict(cols)
        new[step[1]] = type_of(step[2], cols)
        return new
    if k == "rename":
        a, b = step[1], step[2]
        if a not in cols or (b in cols and b != a):
            return None
        return {(b if c == a else c): t for c, t in cols.items()}
    if k == "drop":
        new = {c: t for c, t in cols.items() if c not in step[1]}
        return new or None
    return dict(cols)


def nulls_first(desc, nf):
    return (not desc) if nf is None else nf


def step_coq(step) -> str:
    k = step[0]
    if k == "select":
        return "(UOp (OSelect " + listlit([f"({rel.e_coq(e)}, {strlit(n)})" for e, n in step[1]]) + "))"
    if k == "where":
        return f"(UOp (OWhere {rel.e_coq(step[1])}))"
    if k == "orderBy":
        return "(UOp (OOrderBy " + listlit(
            [f"(mkKey {rel.e_coq(e)} {boollit(d)} {boollit(nulls_first(d, nf))})" for e, d, nf in step[1]]) + "))"
    if k == "limit":
        return f"(UOp (OLimit {natlit(step[1])}))"
    if k == "distinct":
        return "(UOp ODistinct)"
    if k == "withColumn":
        return f"(UWithColumn {strlit(step[1])} {rel.e_coq(step[2])})"
    if k == "rename":
        return f"(URename {strlit(step[1])} {strlit(step[2])})"
    if k == "drop":
        return "(UDrop " + listlit([strlit(c) for c in step[1]]) + ")"
    raise ValueError(step)


def step_str(step) -> str:
    k = step[0]
    if k == "select":
        return "select(" + ", ".join(f"{rel.e_str(e)} as {n}" for e, n in step[1]) + ")"
    if k == "where":
        return f"where({rel.e_str(step[1])})"
    if k == "orderBy":
        return "orderBy(" + ", ".join(
            f"{rel.e_str(e)} {'desc' if d else 'asc'}{'' if nf is None else (' nulls first' if nf else ' nulls last')}"
            for e, d, nf in step[1]) + ")"
    if k == "withColumn":
        return f"withColumn({step[1]}, {rel.e_str(step[2])})"
    return f"{k}({', '.join(map(str, step[1:]))})"


def apply_step(df, step, F):
    k = step[0]
    if k == "select":
        args = []
        for e, n in step[1]:
            if e == ("col", n):
                args.append(n if hash(n) % 2 else F.col(n))
            else:
                args.append(rel.e_sf(e, F).alias(n))
        return df.select(*args)
    if k == "where":
        return df.where(rel.e_sf(step[1], F))
    if k == "orderBy":
        ks = []
        for e, d, nf in step[1]:
            c = rel.e_sf(e, F)
            if nf is None:
                c = c.desc() if d else c.asc()
            elif d:
                c = c.desc_nulls_first() if nf else c.desc_nulls_last()
            else:
                c = c.asc_nulls_first() if nf else c.asc_nulls_last()
            ks.append(c)
        return df.orderBy(*ks)
    if k == "limit":
        return df.limit(step[1])
    if k == "distinct":
        return df.distinct()
    if k == "withColumn":
        return df.withColumn(step[1], rel.e_sf(step[2], F))
    if k == "rename":
        return df.withColumnRenamed(step[1], step[2])
    if k == "drop":
        return df.drop(*step[1])
    raise ValueError(step)


def plan_mode(steps):
    """(mode, truncated steps): sequence comparison only under a total order; an undetermined limit must be last"""
    total = False
    out = []
    cols = {"a": "int", "b": "int", "s": "str"}
    for st in steps:
        k = st[0]
        if k == "orderBy":
            keycols = [e[1] for e, _, _ in st[1] if e[0] == "col"]
            total = set(keycols) >= set(cols)
        elif k == "distinct":
            total = False
        elif k == "limit" and not total:
            out.append(st)
            return ("sub", st[1]), out
        out.append(st)
        cols = cols_after(st, cols)
    return ("seq" if total else "bag", None), out


def make_programs(ctx):
    rnd = random.Random(ctx.seed)
    g = Gen(rnd)
    progs = []
    cols0 = {"a": "int", "b": "int", "s": "str"}

    # bounded-exhaustive: every ordered pair (triple in thorough) of operation shapes from a fixed menu
    def menu(cols):
        names = list(cols)
        ints = [c for c, t in cols.items() if t == "int"]
        m = []
        if ints:
            i0 = ints[0]
            m.append(("select", [(("bin", "Add", ("col", i0), ("lit", 1)), i0)] + [(("col", c), c) for c in names if c != i0][:1]))
            m.append(("where", ("bin", "Gt", ("col", i0), ("lit", 0))))
            m.append(("withColumn", i0, ("bin", "Mul", ("col", i0), ("lit", -1))))
            m.append(("withColumn", "c", ("coalesce", ("col", i0), ("lit", 9))))
        m.append(("select", [(("col", c), c) for c in reversed(names)]))
        m.append(("where", ("isnull", ("col", names[-1]))))
        m.append(("orderBy", [(("col", c), False, None) for c in names]))
        m.append(("orderBy", [(("col", c), True, None) for c in reversed(names)]))
        m.append(("orderBy", [(("col", names[0]), True, True)]))
        m.append(("limit", 2))
        m.append(("limit", 4))
        m.append(("distinct",))
        m.append(("rename", names[0], "e"))
        if len(names) > 1:
            m.append(("drop", [names[0]]))
        return m

    def expand(prefix, cols, depth):
        if depth == 0:
            progs.append(list(prefix))
            return
        for st in menu(cols):
            nc = cols_after(st, cols)
            if nc is None:
                continue
            prefix.append(st)
            progs.append(list(prefix)) if depth > 1 else None
            expand(prefix, nc, depth - 1)
            prefix.pop()

    expand([], cols0, 2 if ctx.tier == "quick" else 3)
    n_exh = len(progs)
    n_rand = 350 if ctx.tier == "quick" else 3000
    maxlen = 6 if ctx.tier == "quick" else 10
    for _ in range(n_rand):
        cols = dict(cols0)
        steps = []
        for _ in range(rnd.randint(1, maxlen)):
            for _try in range(5):
                st = g.step(cols)
                nc = cols_after(st, cols)
                if nc is not None:
                    steps.append(st)
                    cols = nc
                    break
        progs.append(steps)
    # corpus: shapes that failed in the past run first
    corpus = [
        [("orderBy", [(("col", "a"), False, None)]), ("orderBy", [(("col", "b"), False, None), (("col", "a"), False, None), (("col", "s"), False, None)])],
        [("select", [(("bin", "Add", ("col", "a"), ("lit", 1)), "a"), (("col", "b"), "b")]), ("where", ("bin", "Gt", ("col", "a"), ("lit", 1)))],
        [("limit", 3), ("limit", 5), ("limit", 1)],
        [("orderBy", [(("col", "a"), False, None), (("col", "b"), False, None), (("col", "s"), False, None)]), ("limit", 4), ("where", ("bin", "Gt", ("col", "b"), ("lit", 1)))],
        [("distinct",), ("select", [(("col", "a"), "a")]), ("distinct",)],
    ]
    return corpus + progs, n_exh


def signature(steps, flags):
    """shape predicate of a deviation (impl vs spec), used to match known findings"""
    kinds = [s[0] for s in steps]
    for i in range(len(kinds) - 1):
        if kinds[i] == "orderBy" and kinds[i + 1] == "orderBy":
            return "C01/orderBy-after-orderBy"
    if flags.get("raised"):
        return "C01/raises:" + flags.get("exc", "?")
    return "C01/rows-differ:" + ">".join(kinds[-3:])


def run(ctx: core.Ctx):
    # ---- T1
    try:
        text, facts = c01_facts.generate(core.REPO)
        ctx.gen("C01Facts", text, facts)
        t1_ok = True
    except Exception as ex:  # fail-closed translator = broken proof obligation
        ctx.broken("T1:c01_facts", f"{type(ex).__name__}: {ex}")
        t1_ok = False
    # ---- proofs
    proved = False
    if t1_ok:
        proved = ctx.prove(
            [ctx.build + "/gen/C01Facts.v", core.COQ + "/props/C01.v"],
            dep_theories=["Base/Val.v", "Base/Expr.v", "Base/Sort.v", "Sql/Block.v", "Sql/Norm.v",
                          "Model/Chain.v", "Model/ChainProof.v", "Model/ChainCheck.v"])
    if not t1_ok:
        # the case files need Gen.C01Facts: fall back to the facts of the pinned source so that the search can run
        ctx.gen("C01Facts", open(core.VERIF + "/translate/c01_facts_pinned.v").read())
        ctx.coqc(ctx.build + "/gen/C01Facts.v")
    # ---- T2/T3
    from sqlframe.duckdb import DuckDBSession
    import sqlframe.duckdb.functions as F
    from sqlglot import expressions as exp
    session = DuckDBSession()
    try:
        session._conn.execute("PRAGMA threads=1")
    except Exception:
        pass
    progs, n_exh = make_programs(ctx)
    items, metas = [], []
    hist_len, hist_kind, hist_mode, n_raise = {}, {}, {}, 0
    seen = set()
    for steps in progs:
        (mode, lim), steps = plan_mode(steps)
        for tname, rows in TABLES.items():
            key = (repr(steps), tname)
            if key in seen or not steps:
                continue
            seen.add(key)
            exported, impl, exc = "None", "None", None
            try:
                df = session.createDataFrame(rows, SCHEMA)
                for st in steps:
                    df = apply_step(df, st, F)
                try:
                    _, blocks = rel.export_chain(df.expression, exp)
                    exported = f"(Some {blocks})"
                except rel.NotExportable as ne:
                    exported = "None"
                    exc_export = str(ne)
                got = df.collect()
                gcols = list(got[0].__fields__) if got else list(df.columns)
                impl = f"(Some ({listlit([strlit(c) for c in gcols])}, {listlit([rel.row_coq(tuple(r)) for r in got])}))"
            except rel.NotExportable:
                raise
            except Exception as ex:
                exc = f"{type(ex).__name__}"
                n_raise += 1
            cm = {"seq": "CmpSeq", "bag": "CmpBag", "sub": f"(CmpSubOf {natlit(lim or 0)})"}[mode]
            items.append(f"(mkCase {rel.frame_coq(COLS0, rows)} {listlit([step_coq(s) for s in steps])} {cm} {exported} {impl})")
            metas.append({"steps": steps, "table": tname, "mode": mode, "exc": exc, "exported": exported != "None"})
            hist_len[len(steps)] = hist_len.get(len(steps), 0) + 1
            hist_mode[mode] = hist_mode.get(mode, 0) + 1
            for s in steps:
                hist_kind[s[0]] = hist_kind.get(s[0], 0) + 1
    ctx.log(f"{len(items)} cases from {len(progs)} programs ({n_exh} bounded-exhaustive), {n_raise} raised")
    res = ctx.cases("c01", HEADER, items, per_file=200, result_ty="str", fn="check")
    n_t2 = n_dom = n_nontriv = 0
    t2_fail, model_fail = [], []
    for it, m, r in zip(items, metas, res):
        if r is None or len(r) != 6:
            continue
        t2, im, isp, ms, dom, raised = (ch == "1" for ch in r)
        n_t2 += t2
        n_dom += dom
        desc = {"program": [step_str(s) for s in m["steps"]], "table": m["table"], "rows": TABLES[m["table"]],
                "mode": m["mode"], "verdict(t2,impl=model,impl=spec,model=spec,in_domain,raised)": r,
                "exception": m["exc"], "steps_json": m["steps"], "coq_case": it}
        if raised or not isp:
            ctx.deviation(signature(m["steps"], {"raised": raised, "exc": m["exc"]}),
                          "collect() differs from the sequential PySpark meaning" if not raised else f"raises {m['exc']}",
                          desc)
        elif not im:
            model_fail.append(desc)
        elif not t2 and m["exported"]:
            t2_fail.append(desc)
        if proved and dom and not ms and not any(b["name"] == "theorem-vs-evaluation" for b in ctx.brokens):
            ctx.broken("theorem-vs-evaluation", "in-domain case where model and spec evaluate differently: " + it[:400])
        if TABLES[m["table"]] and len(m["steps"]) >= 2:
            n_nontriv += 1
        if len(ctx.samples) < 4 and len(m["steps"]) >= 3 and m["table"] != "empty":
            ctx.sample({"program": desc["program"], "table": m["table"], "verdict": r})
    if model_fail:
        ctx.broken("T3:impl-vs-model", f"{len(model_fail)} cases where collect() equals the spec but not the model; "
                   f"first: {model_fail[0]['program']}", data=model_fail[:5])
    if t2_fail:
        first = t2_fail[0]
        first["nf(exported) vs nf(model)"] = ctx.coq_eval(
            HEADER, f"let k := {first['coq_case']} in let ics := cols (c_input k) in "
                    "let d := compile gen_cfg (desugar_all ics (c_ops k)) (init_df ics) in "
                    "(option_map (nf ics) (c_exported k), nf ics (done d ++ [cur d]))")
        ctx.broken("T2:tree-vs-model", f"{len(t2_fail)} programs whose exported SQL tree differs from the model's normal form; "
                   f"first: {first['program']}", data=t2_fail[:5])
    n_exportable = sum(1 for m in metas if m["exported"])
    ctx.coverage.update({
        "evaluations": len(items), "distinct_nontrivial": n_nontriv,
        "rule": "case = (program, table); programs: every ordered pair (thorough: triple) of 14 operation shapes + random "
                "programs (len<=6 quick, <=10 thorough) from a typed generator; tables incl. empty, NULLs, duplicates, ties; "
                "non-trivial = non-empty table and >= 2 operations; distinct by (program text, table)",
        "programs": len(progs), "bounded_exhaustive_programs": n_exh,
        "t2_structurally_equal": n_t2, "t2_exportable": n_exportable, "in_theorem_domain": n_dom,
        "histogram_program_length": hist_len, "histogram_operation_kind": hist_kind, "histogram_compare_mode": hist_mode,
        "impl_raised": n_raise,
    })
    ctx.assumptions += [
        "Sql.Block.eval_block is my definition of DuckDB's SELECT evaluation on the emitted fragment (validated by T3 only)",
        "Spec (Chain.spec_step) is my definition of PySpark's meaning, validated against PySpark 3.5.9 recordings (oracle/)",
        "DuckDB keeps the order of an ordered CTE through outer filter/projection/LIMIT (threads=1, small tables)",
    ]


def _tup(x):
    return tuple(_tup(y) for y in x) if isinstance(x, list) else x


def replay(ctx: core.Ctx, rp: dict) -> int:
    """re-run the program of a replay file on /repo's current tree and print what it returns"""
    r = rp.get("replay") or (rp.get("no_longer_checks") or [{}])[0].get("data", [{}])[0]
    steps = [_tup(s) for s in r["steps_json"]]
    from sqlframe.duckdb import DuckDBSession
    import sqlframe.duckdb.functions as F
    df = DuckDBSession().createDataFrame([tuple(x) for x in r["rows"]], SCHEMA)
    for st in steps:
        df = apply_step(df, st, F)
    print("program:", [step_str(s) for s in steps])
    print("sql:", df.sql(optimize=False))
    print("collect():", df.collect())
    print("verdict recorded:", r.get("verdict(t2,impl=model,impl=spec,model=spec,in_domain,raised)"))
    return 0
