"""C01 -- transformation chains give PySpark's sequential result.

T1  translate/c01_facts.py  -> Gen/C01Facts.v   (enum, both wrapper predicates, decorators, append/min flags)
Prf coq/props/C01.v         -> cfg_ok / limit_ok / deco_ok / deco_ok_y instantiation + C01_partial (core operations),
                               C01_partial_wide (+ fillna/replace/toDF/dropna), C01_partial_all (+ agg/unpivot/dropDuplicates):
                               all operation lists, all input frames, on decidable domains
T2  exported sqlglot tree (export_stages below: SELECT / GROUP BY / UNION ALL / ROW_NUMBER stages)
                            == model stages up to the verified normal form snf   (per program, all data)
T3  collect() rows on DuckDB == model rows == spec rows; which executed cases lie in each theorem's domain   (per program x table)
"""
from __future__ import annotations

import random

from vlib import core, rel
from vlib.core import strlit, listlit, natlit, boollit
from translate import c01_facts

HEADER = """From SF Require Import Model.ChainStages Model.ChainCheckX.
From Gen Require Import C01Facts.
Open Scope string_scope.
Definition gen_g : gcfg := mkGcfg wrap_needed_group init_wraps_group group_agg_kind order_flag_desc order_flag_nulls_first.
Definition check := check_y gen_cfg gen_g (deco_of decorator_table).
"""

TABLES = {
    "empty": [],
    "t1": [(1, 2, "x"), (2, 1, "y"), (None, 3, "x"), (1, 1, None), (1, 2, "x"), (3, None, "z")],
    "t2": [(0, 0, ""), (-1, 5, "a"), (-1, 5, "a"), (None, None, None), (2, -3, "b"), (4, 4, "a"), (2, 7, "c"), (None, 1, "b")],
}
SCHEMA = "a bigint, b bigint, s string"
COLS0 = ["a", "b", "s"]
INT_COLS0 = {"a", "b"}


class Gen:
    """Typed step/expression generator.  `cols` maps current column name -> 'int' | 'str' | 'bool'."""

    def __init__(self, rnd, extended=False):
        self.r = rnd
        self.extended = extended      # C01's own run: also the shapes added after other checks started to reuse this generator

    def int_e(self, cols, depth=2):
        ints = [c for c, t in cols.items() if t == "int"]
        r = self.r
        if depth == 0 or r.random() < 0.3 or not ints:
            if ints and r.random() < 0.75:
                return ("col", r.choice(ints))
            return ("lit", r.choice([0, 1, 2, -1, 3]))
        k = r.random()
        if k < 0.6:
            return ("bin", r.choice(["Add", "Sub", "Mul"]), self.int_e(cols, depth - 1), self.int_e(cols, depth - 1))
        if k < 0.7:
            return ("neg", self.int_e(cols, depth - 1))
        if k < 0.85:
            return ("if", self.bool_e(cols, depth - 1), self.int_e(cols, depth - 1), self.int_e(cols, depth - 1))
        return ("coalesce", self.int_e(cols, depth - 1), ("lit", r.choice([0, 9])))

    def bool_e(self, cols, depth=2):
        r = self.r
        ints = [c for c, t in cols.items() if t == "int"]
        strs = [c for c, t in cols.items() if t == "str"]
        bools = [c for c, t in cols.items() if t == "bool"]
        k = r.random()
        if depth > 0 and k < 0.25:
            return ("bin", r.choice(["And", "Or"]), self.bool_e(cols, depth - 1), self.bool_e(cols, depth - 1))
        if depth > 0 and k < 0.35:
            return ("not", self.bool_e(cols, depth - 1))
        if k < 0.5 and (ints or strs):
            return ("isnull", ("col", r.choice(ints + strs)))
        if k < 0.6 and strs:
            return ("bin", r.choice(["Eq", "Neq", "Lt", "Ge"]), ("col", r.choice(strs)), ("lit", r.choice(["x", "a", "b", ""])))
        if k < 0.65 and bools:
            return ("col", r.choice(bools))
        op = r.choice(["Eq", "Neq", "Lt", "Le", "Gt", "Ge", "NullSafeEq"])
        return ("bin", op, self.int_e(cols, 1), self.int_e(cols, 1))

    def step(self, cols):
        r = self.r
        names = list(cols)
        k = r.random()
        if k < 0.17:
            n = r.randint(1, min(3, len(names)))
            keep = r.sample(names, n)
            items = [(("col", c), c) for c in keep]
            if r.random() < 0.6:
                tgt = r.choice(["a", "b", "c", "d"])
                items = [it for it in items if it[1] != tgt]
                if r.random() < 0.3:
                    items.append((self.bool_e(cols, 1), tgt))
                else:
                    items.append((self.int_e(cols), tgt))
            r.shuffle(items)
            return ("select", items)
        if k < 0.35:
            e = self.bool_e(cols)
            if self.extended and r.random() < 0.35 and not neg_of_literal(e):
                return ("where", e, "str")          # the same predicate written as SQL text
            return ("where", e)
        if k < 0.48:
            return self.order_step(cols, total=r.random() < 0.7)
        if k < 0.56:
            return ("limit", r.choice([0, 1, 2, 3, 5, 100]))
        if k < 0.63:
            return ("distinct",)
        if k < 0.74:
            tgt = r.choice(names + ["c", "d"])
            e = self.bool_e(cols, 1) if r.random() < 0.2 else self.int_e(cols)
            return ("withColumn", tgt, e)
        if k < 0.79:
            return ("rename", r.choice(names), r.choice(["c", "d", "e"] + names))
        if k < 0.82:
            return ("drop", r.sample(names, 1) + (["zz"] if r.random() < 0.2 else []))
        return self.wide_step(cols)

    def wide_step(self, cols):
        """the composite / wider operations of the property's list"""
        r = self.r
        names = list(cols)
        ints = [c for c, t in cols.items() if t == "int"]
        strs = [c for c, t in cols.items() if t == "str"]
        k = r.random()
        if k < 0.14:
            new = r.sample(["a", "b", "c", "d", "e", "s", "x"], len(names))
            return ("toDF", new)
        if k < 0.32 and (ints or strs):
            kv = {}
            for c in r.sample(ints, r.randint(0, len(ints))):
                kv[c] = r.choice([0, 7, -1])
            if strs and (not kv or r.random() < 0.3):
                kv[r.choice(strs)] = r.choice(["x", "", "q"])
            if self.extended and r.random() < 0.35:
                # a dict value TOGETHER with subset= (PySpark ignores the subset then): strict subset / permutation / superset of the keys
                keys = list(kv)
                sub = r.choice([keys[:max(1, len(keys) - 1)], list(reversed(keys)), keys + [c for c in names if c not in kv][:1]])
                return ("fillna", kv, sub)
            return ("fillna", kv)
        if k < 0.48 and ints:
            tgt = r.sample(ints, r.randint(1, len(ints)))
            pairs = [(r.choice([1, 2, 0, -1]), r.choice([5, 1, 0]))]
            if r.random() < 0.4:
                pairs.append((r.choice([3, 4, 5]), r.choice([9, 1])))
            if len({o for o, _ in pairs}) != len(pairs):
                pairs = pairs[:1]
            return ("replace", tgt, pairs)
        if k < 0.64:
            sub = r.sample(names, r.randint(1, len(names))) if r.random() < 0.6 else []
            n = len(sub) or len(names)
            if r.random() < 0.4:
                return ("dropna", "any", r.randint(1, n), sub)
            return ("dropna", r.choice(["any", "all"]), None, sub)
        if k < 0.74:
            return ("dropDup", r.sample(names, r.randint(1, len(names))))
        if k < 0.86 and len(ints) >= 1:
            vals = r.sample(ints, r.randint(1, len(ints)))
            ids = [c for c in names if c not in vals and r.random() < 0.7]
            if "var" in ids or "val" in ids:
                ids = [c for c in ids if c not in ("var", "val")]
            return ("unpivot", ids, vals, "var", "val")
        keys = r.sample(names, r.randint(0, min(2, len(names))))
        rest = [c for c in ints if c not in keys]
        aggs = []
        for i in range(r.randint(1, 3)):
            fn = r.choice(["sum", "count", "min", "max", "count_star", "avg"])
            if fn == "count_star" or not rest:
                aggs.append(("count_star", "*", f"g{i}"))
            else:
                aggs.append((fn, r.choice(rest), f"g{i}"))
        return ("agg", keys, aggs)

    def order_step(self, cols, total):
        r = self.r
        names = list(cols)
        r.shuffle(names)
        if not total:
            names = names[: r.randint(1, max(1, len(names) - 1))]
        keys = []
        for c in names:
            desc = r.random() < 0.4
            nf = r.choice([None, None, True, False])
            keys.append((("col", c), desc, nf))
        if not total and r.random() < 0.3 and any(t == "int" for t in cols.values()):
            ke = self.int_e(cols, 1)
            if rel.e_cols(ke):   # ORDER BY <constant> is positional in SQL; not generated
                keys = [(ke, r.random() < 0.5, None)] + keys[:1]
        if self.extended and all(e[0] == "col" and nf is None for e, _, nf in keys) and r.random() < 0.4:
            # the same request through the `ascending` argument: orderBy('a', 'b', ascending=[True, False]) / ascending=False
            ks = [(e[1], not d) for e, d, _ in keys]
            same = len({a for _, a in ks}) == 1
            return ("orderByFlags", ks, r.choice(["scalar", "list"]) if same else r.choice(["list", "int"]))
        return ("orderBy", keys)


def type_of(e, cols):
    k = e[0]
    if k == "col":
        return cols[e[1]]
    if k == "lit":
        return "bool" if isinstance(e[1], bool) else "int" if isinstance(e[1], int) else "str"
    if k == "bin":
        return "int" if e[1] in ("Add", "Sub", "Mul") else "bool"
    if k in ("not", "isnull"):
        return "bool"
    if k == "neg":
        return "int"
    if k == "if":
        return type_of(e[2], cols)
    if k == "coalesce":
        return type_of(e[1], cols)
    raise ValueError(e)


def cols_after(step, cols):
    """columns (ordered dict name->type) after the step, or None if the step is ill-formed here"""
    k = step[0]
    if k == "select":
        names = [n for _, n in step[1]]
        if len(set(names)) != len(names):
            return None
        return {n: type_of(e, cols) for e, n in step[1]}
    if k == "withColumn":
        new = dict(cols)
        new[step[1]] = type_of(step[2], cols)
        return new
    if k == "rename":
        a, b = step[1], step[2]
        if a not in cols or (b in cols and b != a):
            return None
        return {(b if c == a else c): t for c, t in cols.items()}
    if k == "drop":
        new = {c: t for c, t in cols.items() if c not in step[1]}
        return new or None
    if k == "orderByFlags":
        names = [n for n, _ in step[1]]
        if not names or len(set(names)) != len(names) or any(n not in cols for n in names):
            return None
        return dict(cols)
    if k == "toDF":
        if len(step[1]) != len(cols) or len(set(step[1])) != len(step[1]):
            return None
        return {n: t for n, t in zip(step[1], cols.values())}
    if k == "fillna":
        if not step[1] or any(c not in cols for c in step[1]) or (len(step) > 2 and any(c not in cols for c in step[2])):
            return None
        for c, v in step[1].items():
            if (cols[c] == "int") != isinstance(v, int):
                return None
        return dict(cols)
    if k == "replace":
        if any(cols.get(c) != "int" for c in step[1]):
            return None
        return dict(cols)
    if k == "dropna":
        if any(c not in cols for c in step[3]):
            return None
        return dict(cols)
    if k == "dropDup":
        return dict(cols) if all(c in cols for c in step[1]) else None
    if k == "unpivot":
        _, ids, vals, var, vl = step
        if any(c not in cols for c in ids + vals) or any(cols[c] != "int" for c in vals) or not vals:
            return None
        if var in ids or vl in ids or var == vl:
            return None
        new = {c: cols[c] for c in ids}
        new[var] = "str"
        new[vl] = "int"
        return new
    if k == "agg":
        _, keys, aggs = step
        if any(c not in cols for c in keys):
            return None
        new = {c: cols[c] for c in keys}
        for fn, c, out in aggs:
            if out in new or (c != "*" and cols.get(c) != "int"):
                return None
            new[out] = "rat" if fn == "avg" else "int"
        return new
    return dict(cols)


def nulls_first(desc, nf):
    return (not desc) if nf is None else nf


AGG_COQ = {"sum": "ASum", "count": "ACount", "min": "AMin", "max": "AMax", "count_star": "ACountStar", "avg": "AAvg"}


def step_coq(step) -> str:
    k = step[0]
    sl = lambda xs: listlit([strlit(x) for x in xs])
    if k == "orderByFlags":
        return "(XOrderFlags " + listlit([f"({strlit(n)}, {boollit(a)})" for n, a in step[1]]) + ")"
    if k == "toDF":
        return f"(XToDF {sl(step[1])})"
    if k == "fillna":
        return "(XFillna " + listlit([f"({strlit(c)}, {rel.val_coq(v)})" for c, v in step[1].items()]) + ")"
    if k == "replace":
        # the scalar form repeats its (old, new) pair once per target column (dataframe.py: [to_replace] * len(columns))
        pairs = step[2] * len(step[1]) if len(step[2]) == 1 else step[2]
        return f"(XReplace {sl(step[1])} " + listlit([f"({rel.val_coq(o)}, {rel.val_coq(n)})" for o, n in pairs]) + ")"
    if k == "dropna":
        th = "None" if step[2] is None else f"(Some {core.zlit(step[2])})"
        return f"(XDropna {boollit(step[1] == 'any')} {th} {sl(step[3])})"
    if k == "dropDup":
        return f"(XDropDup {sl(step[1])})"
    if k == "unpivot":
        return f"(XUnpivot {sl(step[1])} {sl(step[2])} {strlit(step[3])} {strlit(step[4])})"
    if k == "agg":
        return f"(XAgg {sl(step[1])} " + listlit(
            [f"(({AGG_COQ[fn]}, {strlit(c)}), {strlit(out)})" for fn, c, out in step[2]]) + ")"
    return "(XCore " + core_step_coq(step) + ")"


def core_step_coq(step) -> str:
    k = step[0]
    if k == "select":
        return "(UOp (OSelect " + listlit([f"({rel.e_coq(e)}, {strlit(n)})" for e, n in step[1]]) + "))"
    if k == "where":
        return f"(UOp (OWhere {rel.e_coq(step[1])}))"
    if k == "orderBy":
        return "(UOp (OOrderBy " + listlit(
            [f"(mkKey {rel.e_coq(e)} {boollit(d)} {boollit(nulls_first(d, nf))})" for e, d, nf in step[1]]) + "))"
    if k == "limit":
        return f"(UOp (OLimit {natlit(step[1])}))"
    if k == "distinct":
        return "(UOp ODistinct)"
    if k == "withColumn":
        return f"(UWithColumn {strlit(step[1])} {rel.e_coq(step[2])})"
    if k == "rename":
        return f"(URename {strlit(step[1])} {strlit(step[2])})"
    if k == "drop":
        return "(UDrop " + listlit([strlit(c) for c in step[1]]) + ")"
    raise ValueError(step)


def step_str(step) -> str:
    k = step[0]
    if k == "select":
        return "select(" + ", ".join(f"{rel.e_str(e)} as {n}" for e, n in step[1]) + ")"
    if k == "where":
        if len(step) > 2 and step[2] == "str":
            return f"where({e_sql(step[1], top=True)!r})"
        return f"where({rel.e_str(step[1])})"
    if k == "orderBy":
        return "orderBy(" + ", ".join(
            f"{rel.e_str(e)} {'desc' if d else 'asc'}{'' if nf is None else (' nulls first' if nf else ' nulls last')}"
            for e, d, nf in step[1]) + ")"
    if k == "orderByFlags":
        return "orderBy(" + ", ".join(n for n, _ in step[1]) + ", ascending=" + repr(flags_arg(step)) + ")"
    if k == "withColumn":
        return f"withColumn({step[1]}, {rel.e_str(step[2])})"
    if k == "agg":
        return f"groupBy({step[1]}).agg({', '.join(f'{fn}({c}) as {o}' for fn, c, o in step[2])})"
    return f"{k}({', '.join(map(str, step[1:]))})"


SQL_OPS = {"Add": "+", "Sub": "-", "Mul": "*", "Eq": "=", "Neq": "<>", "Lt": "<", "Le": "<=", "Gt": ">", "Ge": ">=",
           "And": "AND", "Or": "OR", "NullSafeEq": "<=>"}


def neg_of_literal(e) -> bool:
    """`- 1` in SQL text is read back as the literal -1, not as a negation: such predicates are not written as text"""
    return isinstance(e, tuple) and ((e[0] == "neg" and e[1][0] == "lit") or any(neg_of_literal(x) for x in e[1:]))


def e_sql(e, top=False) -> str:
    """Spark SQL text of an expression, fully parenthesised below the top level and BARE at the top level (so that a
    top-level OR / NOT / BETWEEN ... AND arrives unparenthesised, as a user writes it in where("...") )"""
    k = e[0]
    if k == "col":
        return e[1]
    if k == "lit":
        v = e[1]
        if isinstance(v, bool):
            return "true" if v else "false"
        if isinstance(v, int):
            return str(v) if v >= 0 else f"({v})"
        if v is None:
            return "NULL"
        return "'" + str(v).replace("'", "''") + "'"
    if k == "bin":
        if top and e[1] == "And" and e[2][0] == "bin" and e[3][0] == "bin" and e[2][1] == "Ge" and e[3][1] == "Le" \
                and e[2][2] == e[3][2] and e[2][2][0] == "col" and e[2][3][0] == "lit" and e[3][3][0] == "lit":
            return f"{e_sql(e[2][2])} BETWEEN {e_sql(e[2][3])} AND {e_sql(e[3][3])}"
        t = f"{e_sql(e[2])} {SQL_OPS[e[1]]} {e_sql(e[3])}"
    elif k == "not":
        t = f"NOT {e_sql(e[1])}"
    elif k == "neg":
        t = f"- {e_sql(e[1])}"
    elif k == "isnull":
        t = f"{e_sql(e[1])} IS NULL"
    elif k == "if":
        return f"CASE WHEN {e_sql(e[1])} THEN {e_sql(e[2])} ELSE {e_sql(e[3])} END"
    elif k == "coalesce":
        return f"COALESCE({e_sql(e[1])}, {e_sql(e[2])})"
    else:
        raise ValueError(e)
    return t if top else f"({t})"


def flags_arg(step):
    """the `ascending` argument of an orderByFlags step: one bool for all keys, a list of bools, or a list of 0/1"""
    flags = [a for _, a in step[1]]
    form = step[2] if len(step) > 2 else "list"
    if form == "scalar" and len(set(flags)) == 1:
        return flags[0]
    if form == "int":
        return [1 if a else 0 for a in flags]
    return flags


def apply_step(df, step, F):
    k = step[0]
    if k == "select":
        args = []
        for e, n in step[1]:
            if e == ("col", n):
                args.append(n if hash(n) % 2 else F.col(n))
            else:
                args.append(rel.e_sf(e, F).alias(n))
        return df.select(*args)
    if k == "where":
        if len(step) > 2 and step[2] == "str":      # the predicate as SQL text: where("a = 2 OR b IS NULL")
            return df.where(e_sql(step[1], top=True))
        return df.where(rel.e_sf(step[1], F))
    if k == "orderBy":
        ks = []
        for e, d, nf in step[1]:
            c = rel.e_sf(e, F)
            if nf is None:
                c = c.desc() if d else c.asc()
            elif d:
                c = c.desc_nulls_first() if nf else c.desc_nulls_last()
            else:
                c = c.asc_nulls_first() if nf else c.asc_nulls_last()
            ks.append(c)
        return df.orderBy(*ks)
    if k == "orderByFlags":
        return df.orderBy(*[n for n, _ in step[1]], ascending=flags_arg(step))
    if k == "limit":
        return df.limit(step[1])
    if k == "distinct":
        return df.distinct()
    if k == "withColumn":
        return df.withColumn(step[1], rel.e_sf(step[2], F))
    if k == "rename":
        return df.withColumnRenamed(step[1], step[2])
    if k == "drop":
        return df.drop(*step[1])
    if k == "toDF":
        return df.toDF(*step[1])
    if k == "fillna":
        kv = step[1]
        if len(step) > 2:          # dict value + subset=: the dict decides which columns are filled
            return df.na.fill(dict(kv), subset=list(step[2])) if hash(repr(kv)) % 2 else df.fillna(dict(kv), subset=list(step[2]))
        vals = set(kv.values())
        if len(vals) == 1 and hash(repr(kv)) % 3 == 0:
            return df.fillna(next(iter(vals)), subset=list(kv))
        if hash(repr(kv)) % 3 == 1:
            return df.na.fill(dict(kv))
        return df.fillna(dict(kv))
    if k == "replace":
        tgt, pairs = step[1], step[2]
        if len(pairs) == 1:
            return df.replace(pairs[0][0], pairs[0][1], subset=tgt)
        return df.replace({o: n for o, n in pairs}, subset=tgt)
    if k == "dropna":
        _, how, thresh, sub = step
        kw = {}
        if sub:
            kw["subset"] = sub
        if thresh is not None:
            kw["thresh"] = thresh
        return df.dropna(how=how, **kw)
    if k == "dropDup":
        return df.dropDuplicates(step[1])
    if k == "unpivot":
        return df.unpivot(step[1], step[2], step[3], step[4])
    if k == "agg":
        _, keys, aggs = step
        exprs = []
        for fn, c, out in aggs:
            e = F.count("*") if fn == "count_star" else getattr(F, fn)(c)
            exprs.append(e.alias(out))
        return df.groupBy(*keys).agg(*exprs)
    raise ValueError(step)


# ---- exporter: sqlglot tree of a chain over the whole alphabet -> Coq `list stage` (fail-closed) --------------

AGG_NODES = {"Sum": "ASum", "Min": "AMin", "Max": "AMax", "Avg": "AAvg"}


def x_agg(item, exp):
    """an aliased aggregate of a bare column -> ((fn, column), alias)"""
    if not isinstance(item, exp.Alias):
        raise rel.NotExportable("aggregate item without alias")
    a = item.this
    t = type(a).__name__
    if isinstance(a, exp.Count):
        if a.args.get("expressions"):
            raise rel.NotExportable("count with extra arguments")
        if isinstance(a.this, exp.Star):
            return f"((ACountStar, {strlit('*')}), {strlit(item.alias)})"
        if isinstance(a.this, exp.Column) and not a.this.table:
            return f"((ACount, {strlit(a.this.name)}), {strlit(item.alias)})"
        raise rel.NotExportable("count argument")
    if t in AGG_NODES and isinstance(a.this, exp.Column) and not a.this.table and set(k for k, v in a.args.items() if v) == {"this"}:
        return f"(({AGG_NODES[t]}, {strlit(a.this.name)}), {strlit(item.alias)})"
    raise rel.NotExportable(f"aggregate node {t}")


def x_from_prev(sel, exp, prev_name):
    frm = sel.args.get("from")
    if frm is None or not isinstance(frm.this, exp.Table) or frm.this.name != prev_name:
        raise rel.NotExportable(f"FROM is not the previous CTE ({prev_name})")
    if sel.args.get("joins"):
        raise rel.NotExportable("join")


def x_where(sel, exp, cte_names):
    where = sel.args.get("where")
    return [rel.x_expr(w, exp, cte_names) for w in rel.flatten_and(where.this, exp)] if where else []


def only_args(sel, allowed):
    for k, v in sel.args.items():
        if v and k not in allowed:
            raise rel.NotExportable(f"select arg {k}")


def x_stage(node, exp, prev_name, cte_names):
    """one CTE (or the main query) -> list of Coq stage terms"""
    if isinstance(node, exp.Union):
        def branches(u):
            if isinstance(u, exp.Union):
                if type(u) is not exp.Union or u.args.get("distinct") is not False:
                    raise rel.NotExportable("set operation other than UNION ALL")
                for k, v in u.args.items():
                    if v and k not in ("this", "expression", "distinct", "with"):
                        raise rel.NotExportable(f"union arg {k}")
                return branches(u.this) + branches(u.expression)
            return [u]
        parts = []
        for b in branches(node):
            if not isinstance(b, exp.Select):
                raise rel.NotExportable("union branch is not a SELECT")
            only_args(b, {"expressions", "from"})
            x_from_prev(b, exp, prev_name)
            parts.append(listlit([rel.x_item(i, exp, cte_names) for i in b.expressions]))
        return ["(SU " + listlit(parts) + ")"]
    if not isinstance(node, exp.Select):
        raise rel.NotExportable(f"CTE body {type(node).__name__}")
    grp = node.args.get("group")
    if grp is not None or any(isinstance(i, exp.Alias) and isinstance(i.this, exp.AggFunc) for i in node.expressions):
        only_args(node, {"expressions", "from", "where", "group", "order", "limit", "with"})
        x_from_prev(node, exp, prev_name)
        keys = []
        if grp is not None:
            for k, v in grp.args.items():
                if v and k != "expressions":
                    raise rel.NotExportable(f"group arg {k}")
            for kx in grp.expressions:
                if not isinstance(kx, exp.Column) or kx.table:
                    raise rel.NotExportable("GROUP BY key is not a bare column")
                keys.append(kx.name)
        items = list(node.expressions)
        for kname, it in zip(keys, items):
            # the key columns come first in the select list, un-aliased or aliased to themselves
            c = it.this if isinstance(it, exp.Alias) else it
            if not isinstance(c, exp.Column) or c.name != kname or it.alias_or_name != kname:
                raise rel.NotExportable("select list does not start with the GROUP BY keys")
        if len(items) < len(keys):
            raise rel.NotExportable("select list shorter than the GROUP BY keys")
        aggs = [x_agg(it, exp) for it in items[len(keys):]]
        names = keys + [it.alias for it in items[len(keys):]]
        out = [f"(SG {listlit(x_where(node, exp, cte_names))} {listlit([strlit(k) for k in keys])} {listlit(aggs)})"]
        if node.args.get("order") or node.args.get("limit"):
            # ORDER BY / LIMIT of a grouped SELECT apply to its result: read as a pass-through block over it
            tail = node.copy()
            tail.set("group", None)
            tail.set("where", None)
            tail.set("expressions", [exp.column(n) for n in names])
            out.append("(SB " + rel.x_select(tail, exp, prev_name, cte_names) + ")")
        return out
    last = node.expressions[-1] if node.expressions else None
    if isinstance(last, exp.Alias) and isinstance(last.this, exp.Window):
        only_args(node, {"expressions", "from", "where", "with"})
        x_from_prev(node, exp, prev_name)
        w = last.this
        fn = w.this
        if not (isinstance(fn, exp.RowNumber) or (isinstance(fn, exp.Anonymous) and str(fn.this).upper() == "ROW_NUMBER"
                                                   and not fn.expressions)):
            raise rel.NotExportable("window function is not ROW_NUMBER()")
        for k, v in w.args.items():
            if v and k not in ("this", "partition_by", "order") and not (k == "over" and str(v).upper() == "OVER"):
                raise rel.NotExportable(f"window arg {k}")
        part = []
        for c in w.args.get("partition_by") or []:
            if not isinstance(c, exp.Column) or c.table:
                raise rel.NotExportable("PARTITION BY key is not a bare column")
            part.append(c.name)
        order = w.args.get("order")
        okeys = [o.this.name for o in order.expressions
                 if isinstance(o, exp.Ordered) and isinstance(o.this, exp.Column) and not o.args.get("desc")] if order else []
        if okeys != part or (order and len(order.expressions) != len(part)):
            raise rel.NotExportable("window ORDER BY is not the partition key")   # every row of a partition must tie
        items = [rel.x_item(i, exp, cte_names) for i in node.expressions[:-1]]
        return [f"(SW {listlit(x_where(node, exp, cte_names))} {listlit(items)} {listlit([strlit(c) for c in part])} {strlit(last.alias)})"]
    return ["(SB " + rel.x_select(node, exp, prev_name, cte_names) + ")"]


def export_stages(expression, exp):
    """df.expression of a single-input chain over the whole alphabet -> Coq `list stage` term"""
    ctes = list(expression.ctes)
    if not ctes:
        raise rel.NotExportable("no CTE (DataFrame never left INIT)")
    names = rel.x_values_block(ctes[0].this, exp)
    cte_names = [c.alias for c in ctes]
    stages = ["(SB (pass_block " + listlit([strlit(n) for n in names]) + "))"]
    prev = ctes[0].alias
    for c in ctes[1:]:
        stages += x_stage(c.this, exp, prev, cte_names)
        prev = c.alias
    main = expression.copy()
    main.set("with", None)
    stages += x_stage(main, exp, prev, cte_names)
    return listlit(stages)


def has_or(e) -> bool:
    return isinstance(e, tuple) and ((e[0] == "bin" and e[1] == "Or") or any(has_or(x) for x in e[1:]))


N_CORPUS = 9
ORDER_WITNESS = None   # the corpus program that exhibits the known engine-reordering finding keeps sequence mode


def plan_mode(steps):
    """(mode, truncated steps): sequence comparison only under a total order; an undetermined limit must be last.
    DuckDB's OR-filter does not keep the order of its input (known finding C01/engine-reorders-...): outside the one
    corpus witness such a filter is treated as order-destroying, so that the finding is reported once, by its witness,
    and cannot explain away other deviations."""
    total = False
    out = []
    cols = {"a": "int", "b": "int", "s": "str"}
    for st in steps:
        k = st[0]
        if k == "orderBy":
            keycols = [e[1] for e, _, _ in st[1] if e[0] == "col"]
            total = set(keycols) >= set(cols)
        elif k == "orderByFlags":
            total = {n for n, _ in st[1]} >= set(cols)
        elif k in ("distinct", "unpivot", "agg"):
            total = False
        elif k == "where" and has_or(st[1]) and steps is not ORDER_WITNESS:
            total = False
        elif k == "dropDup":
            out.append(st)
            return ("dedup", st[1]), out
        elif k == "limit" and not total:
            out.append(st)
            return ("sub", st[1]), out
        out.append(st)
        cols = cols_after(st, cols)
    return ("seq" if total else "bag", None), out


def make_programs(ctx, extended=False):
    """extended=False: the programs other checks (C12, the PySpark recorder) have always received from this function;
    extended=True (C01's own run): + corpus entries, menu shapes and generator variants added later"""
    rnd = random.Random(ctx.seed)
    g = Gen(rnd, extended)
    progs = []
    cols0 = {"a": "int", "b": "int", "s": "str"}

    # bounded-exhaustive: every ordered pair (triple in thorough) of operation shapes from a fixed menu
    def menu(cols):
        names = list(cols)
        ints = [c for c, t in cols.items() if t == "int"]
        m = []
        if ints:
            i0 = ints[0]
            m.append(("select", [(("bin", "Add", ("col", i0), ("lit", 1)), i0)] + [(("col", c), c) for c in names if c != i0][:1]))
            m.append(("where", ("bin", "Gt", ("col", i0), ("lit", 0))))
            m.append(("withColumn", i0, ("bin", "Mul", ("col", i0), ("lit", -1))))
            m.append(("withColumn", "c", ("coalesce", ("col", i0), ("lit", 9))))
        m.append(("select", [(("col", c), c) for c in reversed(names)]))
        m.append(("where", ("isnull", ("col", names[-1]))))
        if extended and ctx.tier == "quick":      # (thorough: corpus + random programs carry this shape; the triples stay inside the time envelope)
            # a predicate written as SQL text with a top-level OR (it arrives unparenthesised)
            m.append(("where", ("bin", "Or", ("isnull", ("col", names[-1])),
                                ("bin", "Eq", ("col", names[0]), ("lit", 2 if cols[names[0]] == "int" else "x"))), "str"))
        m.append(("orderBy", [(("col", c), False, None) for c in names]))
        m.append(("orderBy", [(("col", c), True, None) for c in reversed(names)]))
        m.append(("orderBy", [(("col", names[0]), True, True)]))
        if extended:
            # direction given through the `ascending` argument (bare names): every key descending / mixed flags
            # (thorough tier, triples: only the mixed form, to stay inside the time envelope)
            if ctx.tier == "quick":
                m.append(("orderByFlags", [(c, False) for c in names], "scalar"))
            m.append(("orderByFlags", [(c, i % 2 == 1) for i, c in enumerate(reversed(names))], "list"))
        m.append(("limit", 2))
        m.append(("limit", 4))
        m.append(("distinct",))
        m.append(("rename", names[0], "e"))
        if len(names) > 1:
            m.append(("drop", [names[0]]))
        # the composite / wider operations of the property's list
        m.append(("toDF", [n + "_" for n in names]))
        if ints:
            m.append(("fillna", {ints[0]: 0}))
            if extended and len(ints) > 1 and ctx.tier == "quick":
                m.append(("fillna", {ints[0]: 0, ints[1]: 7}, [ints[1]]))
            m.append(("replace", [ints[0]], [(1, 7)]))
            m.append(("unpivot", [c for c in names if c not in ints][:1], ints[:2], "var", "val"))
            m.append(("agg", [names[-1]] if names[-1] not in ints[:1] else [], [("sum", ints[0], "g0"), ("count_star", "*", "g1")]))
        m.append(("dropna", "any", None, []))
        m.append(("dropna", "all", None, names[:2]))
        m.append(("dropna", "any", 1, names[-2:]))
        m.append(("dropDup", names[:1]))
        return m

    def expand(prefix, cols, depth):
        if depth == 0:
            progs.append(list(prefix))
            return
        for st in menu(cols):
            nc = cols_after(st, cols)
            if nc is None:
                continue
            prefix.append(st)
            progs.append(list(prefix)) if depth > 1 else None
            expand(prefix, nc, depth - 1)
            prefix.pop()

    expand([], cols0, 2 if ctx.tier == "quick" else 3)
    n_exh = len(progs)
    n_rand = (230 if extended else 260) if ctx.tier == "quick" else (2300 if extended else 3000)
    maxlen = 6 if ctx.tier == "quick" else 10
    for _ in range(n_rand):
        cols = dict(cols0)
        steps = []
        for _ in range(rnd.randint(1, maxlen)):
            for _try in range(5):
                st = g.step(cols)
                nc = cols_after(st, cols)
                if nc is not None:
                    steps.append(st)
                    cols = nc
                    break
        progs.append(steps)
    # corpus: shapes that failed in the past run first
    corpus = [
        [("orderBy", [(("col", "a"), False, None)]), ("orderBy", [(("col", "b"), False, None), (("col", "a"), False, None), (("col", "s"), False, None)])],
        [("select", [(("bin", "Add", ("col", "a"), ("lit", 1)), "a"), (("col", "b"), "b")]), ("where", ("bin", "Gt", ("col", "a"), ("lit", 1)))],
        [("limit", 3), ("limit", 5), ("limit", 1)],
        [("orderBy", [(("col", "a"), False, None), (("col", "b"), False, None), (("col", "s"), False, None)]), ("limit", 4), ("where", ("bin", "Gt", ("col", "b"), ("lit", 1)))],
        [("distinct",), ("select", [(("col", "a"), "a")]), ("distinct",)],
        # DuckDB's OR-filter emits the rows of each disjunct in turn: order of an ordered CTE is lost (known finding)
        ORDER_WITNESS_PROGRAM,
        [("fillna", {"a": 0}), ("where", ("bin", "Eq", ("col", "a"), ("lit", 0)))],
        [("replace", ["a"], [(1, 7)]), ("agg", ["a"], [("count_star", "*", "n")])],
        [("orderBy", [(("col", "a"), False, None), (("col", "b"), False, None), (("col", "s"), False, None)]), ("toDF", ["b", "a", "s"])],
    ]
    if extended:
        corpus += [
        # dropna's helper column collides with an input column of the same name (known finding)
        [("rename", "a", "num_nulls"), ("dropna", "any", None, [])],
        # dropna(thresh=0) keeps every row in PySpark; sqlframe's guard raises (known finding)
        [("dropna", "any", 0, ["a"])],
        # dropDuplicates' helper column replaces an input column of the same name and is then dropped (known finding)
        [("rename", "b", "row_num"), ("dropDup", ["a"])],
        # inside the all-alphabet theorem's domain
        [("where", ("bin", "Gt", ("col", "b"), ("lit", 0))), ("dropna", "any", None, ["a", "s"]), ("toDF", ["x", "y", "z"]),
         ("unpivot", ["z"], ["x", "y"], "var", "val"), ("where", ("not", ("isnull", ("col", "val")))),
         ("agg", ["z", "var"], [("sum", "val", "g0"), ("count_star", "*", "g1")]),
         ("agg", [], [("max", "g1", "m")]), ("fillna", {"m": 0})],
        [("dropna", "all", None, []), ("dropDup", ["s"])],
        # inside the wide theorem's domain: dropna / toDF at several positions, dropna directly followed by
        # where / fillna / dropna / distinct (all written into the block that still reads num_nulls)
        [("where", ("bin", "Gt", ("col", "b"), ("lit", 0))), ("dropna", "any", None, ["a", "s"]), ("toDF", ["x", "y", "z"]),
         ("orderBy", [(("col", "y"), True, False), (("col", "x"), False, True), (("col", "z"), False, None)]), ("limit", 3)],
        [("dropna", "all", 2, []), ("where", ("isnull", ("col", "s"))), ("fillna", {"s": "q"}), ("dropna", "all", None, ["a"]),
         ("dropna", "any", None, []), ("distinct",), ("toDF", ["num_nulls", "b", "c"]), ("rename", "num_nulls", "a")],
        # an ORDER BY expression written into the SELECT that redefines a column it mentions reads the SELECT's input (known finding)
        [("withColumn", "a", ("bin", "Mul", ("col", "a"), ("lit", -1))),
         ("orderBy", [(("bin", "Add", ("col", "a"), ("lit", 0)), False, None), (("col", "b"), False, None), (("col", "s"), False, None), (("col", "a"), False, None)])],
        # the same hazard when the orderBy directly follows another orderBy (it replaces it in the still-open SELECT) and the
        # redefinition is two steps back (found by the thorough tier; raises BinderException on DuckDB: s is a string in the input)
        [("select", [(("col", "a"), "a"), (("col", "b"), "b"), (("col", "s"), "s"),
                     (("bin", "Mul", ("bin", "Add", ("lit", 2), ("lit", 3)), ("bin", "Sub", ("col", "a"), ("lit", -1))), "c")]),
         ("select", [(("bin", "Add", ("col", "a"), ("lit", 3)), "b"), (("col", "a"), "a"), (("col", "s"), "s")]),
         ("select", [(("col", "s"), "s"), (("col", "a"), "a"), (("col", "b"), "b"), (("isnull", ("col", "a")), "d")]),
         ("select", [(("col", "s"), "s"), (("col", "a"), "a")]),
         ("withColumn", "s", ("neg", ("neg", ("col", "a")))),
         ("orderBy", [(("col", "s"), False, None), (("col", "a"), False, True)]),
         ("orderBy", [(("bin", "Add", ("col", "s"), ("lit", -1)), False, None), (("col", "a"), False, None)]),
         ("distinct",),
         ("withColumn", "a", ("bin", "Lt", ("bin", "Mul", ("col", "a"), ("col", "s")), ("col", "s")))],
        # fillna with a dict value and subset= (strict subset / permutation / superset of the keys): the dict decides
        [("fillna", {"a": 0, "b": 7}, ["b"])],
        [("fillna", {"a": 0, "b": 7}, ["b", "a"]), ("where", ("bin", "Eq", ("col", "a"), ("lit", 0)))],
        [("where", ("isnull", ("col", "s"))), ("fillna", {"b": 5, "s": "q"}, ["s", "b", "a"])],
        # predicates given as SQL text: top-level OR / NOT / BETWEEN as the 2nd / 3rd filter of one SELECT, after dropna,
        # mixed with Column-built predicates
        [("where", ("bin", "Eq", ("col", "a"), ("lit", 2)), "str"),
         ("where", ("bin", "Or", ("bin", "Eq", ("col", "b"), ("lit", 1)), ("bin", "Eq", ("col", "s"), ("lit", "x"))), "str")],
        [("where", ("bin", "Or", ("bin", "Eq", ("col", "b"), ("lit", 1)), ("bin", "Eq", ("col", "s"), ("lit", "x"))), "str"),
         ("where", ("bin", "Eq", ("col", "a"), ("lit", 1)))],
        [("dropna", "any", None, []), ("where", ("bin", "Or", ("bin", "Eq", ("col", "b"), ("lit", 5)), ("bin", "Eq", ("col", "s"), ("lit", "x"))), "str")],
        [("where", ("bin", "Gt", ("col", "b"), ("lit", 0))), ("where", ("not", ("bin", "Eq", ("col", "a"), ("lit", 1))), "str"),
         ("where", ("bin", "And", ("bin", "Ge", ("col", "b"), ("lit", 1)), ("bin", "Le", ("col", "b"), ("lit", 2))), "str"),
         ("where", ("bin", "Or", ("isnull", ("col", "s")), ("bin", "Lt", ("col", "a"), ("lit", 3))), "str")],
        # descending keys asked for through `ascending=`: NULLs of a descending key come last (Spark), total order
        [("orderByFlags", [("a", False), ("b", True), ("s", False)], "list")],
        [("orderByFlags", [("s", False), ("b", False), ("a", False)], "scalar"), ("select", [(("col", "a"), "a"), (("col", "s"), "s"), (("col", "b"), "b")])],
        [("where", ("bin", "Gt", ("col", "b"), ("lit", 0))), ("orderByFlags", [("a", False), ("s", True), ("b", False)], "int"), ("limit", 4)],
        ]
    global ORDER_WITNESS, N_CORPUS
    ORDER_WITNESS = ORDER_WITNESS_PROGRAM
    N_CORPUS = len(corpus)
    return corpus + progs, n_exh


ORDER_WITNESS_PROGRAM = [("orderBy", [(("col", "s"), False, False), (("col", "a"), False, None), (("col", "b"), False, None)]),
         ("select", [(("col", "a"), "a"), (("bin", "Mul", ("lit", -3), ("neg", ("col", "a"))), "c"), (("col", "s"), "s")]),
         ("where", ("bin", "Or", ("isnull", ("col", "a")),
                    ("bin", "Eq", ("bin", "Mul", ("col", "c"), ("col", "c")), ("bin", "Add", ("col", "c"), ("col", "c")))))]




def redefined_by(step, cols_before) -> set:
    """names whose value after a select-class step is not the column of that name before it (the step writes the open
    SELECT's list; an ORDER BY expression written into the same SELECT resolves these names to the SELECT's INPUT)"""
    k = step[0]
    old = list(cols_before)
    if k == "select":
        return {n for e, n in step[1] if e != ("col", n)}
    if k == "withColumn":
        return {step[1]}
    if k == "rename":
        return {step[2]} if step[2] != step[1] else set()
    if k == "toDF":
        return {n for i, n in enumerate(step[1]) if i >= len(old) or old[i] != n}
    if k == "fillna":
        return set(step[1])
    if k == "replace":
        return set(step[1])
    return set()


def signature(steps, flags):
    """shape predicate of a deviation (impl vs spec), used to match known findings"""
    kinds = ["orderBy" if s[0] == "orderByFlags" else s[0] for s in steps]     # the same method, other argument form
    cols = {"a": "int", "b": "int", "s": "str"}
    for st in steps:
        if st[0] == "dropna" and "num_nulls" in cols:
            return "C01/dropna-on-frame-with-column-named-num_nulls"
        if st[0] == "dropDup" and "row_num" in cols:
            return "C01/dropDuplicates-on-frame-with-column-named-row_num"
        if st[0] == "dropna" and st[2] is not None and st[2] < 1 and flags.get("raised") and flags.get("exc") == "RuntimeError":
            return "C01/dropna-thresh-below-1-raises"
        cols = cols_after(st, cols) or cols
    # root cause first: an orderBy whose key is an EXPRESSION over a column that the still-open SELECT (re)defines.
    # `redef` = names the open SELECT gives another meaning than its input; the open SELECT is followed with the
    # implementation's own rule (a new SELECT is opened when the new clause ranks below the last one, or for SELECT
    # after SELECT); ORDER BY / LIMIT / a second orderBy are written into the same SELECT and keep `redef`.
    RANK = {"where": 2, "orderBy": 6, "orderByFlags": 6, "limit": 7, "dropna": 1}
    cols = {"a": "int", "b": "int", "s": "str"}
    last, redef = 0, set()
    for st in steps:
        k = st[0]
        if k == "orderBy":
            mentioned = set().union(*[rel.e_cols(e) for e, _, _ in st[1] if e[0] != "col"] or [set()])
            if last <= 6 and mentioned & redef:
                return "C01/orderBy-expression-key-reads-input-of-redefining-select"
        if k in ("unpivot", "agg", "dropDup"):
            last, redef = 5, set()                     # they end in a fresh pass-through SELECT tagged SELECT
        else:
            new = RANK.get(k, 5)
            if new < last or (new == last == 5):
                redef = set()                          # the open SELECT is frozen: the new one starts as a pass-through
            if new == 5:
                redef = redef | redefined_by(st, cols)
            if k == "dropna":
                redef = set()                          # dropna freezes what it finds and leaves a pass-through list
            last = new
        cols = cols_after(st, cols) or cols
    for i in range(len(kinds) - 1):
        if kinds[i + 1] == "toDF" and "orderBy" in kinds[: i + 1]:
            return "C01/toDF-after-orderBy-retargets-order"
    for i in range(len(kinds) - 1):
        if kinds[i] == "orderBy" and kinds[i + 1] == "orderBy":
            return "C01/orderBy-after-orderBy"
    if flags.get("raised"):
        return "C01/raises:" + flags.get("exc", "?")
    if flags.get("mode") == "seq" and flags.get("same_bag") and "orderBy" in kinds:
        after = kinds[len(kinds) - 1 - kinds[::-1].index("orderBy") + 1:]
        if "where" in after or "dropna" in after:
            return "C01/engine-reorders-rows-in-filter-above-ordered-cte"
        return "C01/order-lost:" + ">".join(after[-3:])
    return "C01/rows-differ:" + ">".join(kinds[-3:])


def run(ctx: core.Ctx):
    # ---- T1
    try:
        text, facts = c01_facts.generate(core.REPO)
        ctx.gen("C01Facts", text, facts)
        t1_ok = True
    except Exception as ex:  # fail-closed translator = broken proof obligation
        ctx.broken("T1:c01_facts", f"{type(ex).__name__}: {ex}")
        t1_ok = False
    # ---- proofs
    proved = False
    if t1_ok:
        proved = ctx.prove(
            [ctx.build + "/gen/C01Facts.v", core.COQ + "/props/C01.v"],
            dep_theories=["Base/Val.v", "Base/Expr.v", "Base/Sort.v", "Sql/Block.v", "Sql/Norm.v",
                          "Model/Chain.v", "Model/ChainProof.v", "Model/ChainOrder.v", "Model/ChainCheck.v", "Model/ChainG.v", "Model/ChainExt.v", "Model/ChainExtProof.v", "Model/ChainStages.v",
                          "Model/ChainCheckX.v"])
    if not t1_ok:
        # the case files need Gen.C01Facts: fall back to the facts of the pinned source so that the search can run
        ctx.gen("C01Facts", open(core.VERIF + "/translate/c01_facts_pinned.v").read())
        ctx.coqc(ctx.build + "/gen/C01Facts.v")
    # ---- T2/T3
    from sqlframe.duckdb import DuckDBSession
    import sqlframe.duckdb.functions as F
    from sqlglot import expressions as exp
    session = DuckDBSession()
    try:
        session._conn.execute("PRAGMA threads=1")
    except Exception:
        pass
    import sqlglot
    executed = []                      # SQL texts handed to the engine
    run_sql = session._execute

    def logging_execute(sql, *a, **k):
        executed.append(sql)
        return run_sql(sql, *a, **k)
    session._execute = logging_execute
    progs, n_exh = make_programs(ctx, extended=True)
    items, metas = [], []
    hist_len, hist_kind, hist_mode, n_raise = {}, {}, {}, 0
    seen = set()
    n_corpus_exh = N_CORPUS + n_exh
    for pi, steps in enumerate(progs):
        (mode, lim), steps = plan_mode(steps)
        for tname, rows in TABLES.items():
            key = (repr(steps), tname)
            if key in seen or not steps:
                continue
            if tname == "empty" and N_CORPUS <= pi < n_corpus_exh and len(steps) > 1:
                continue      # bounded-exhaustive pairs run on the two non-empty tables; singles also on the empty one
            seen.add(key)
            exported, impl, exc = "None", "None", None
            try:
                df = session.createDataFrame(rows, SCHEMA)
                for st in steps:
                    df = apply_step(df, st, F)
                del executed[:]
                got = df.collect()
                try:
                    # T2 judges the TEXT that was executed: it is read back with the engine dialect's grammar, so that
                    # what the printed text means (operator precedence, missing parentheses) is compared with the model
                    exported = f"(Some {export_stages(sqlglot.parse_one(executed[-1], dialect='duckdb'), exp)})"
                except (rel.NotExportable, sqlglot.errors.SqlglotError, IndexError):
                    exported = "None"
                gcols = list(got[0].__fields__) if got else list(df.columns)
                impl = f"(Some ({listlit([strlit(c) for c in gcols])}, {listlit([rel.row_coq(tuple(r)) for r in got])}))"
            except rel.NotExportable:
                raise
            except Exception as ex:
                exc = f"{type(ex).__name__}"
                n_raise += 1
            cm = {"seq": "XSeq", "bag": "XBag", "sub": f"(XSubOf {natlit(lim if isinstance(lim, int) else 0)})",
                  "dedup": "(XDedup " + listlit([strlit(c) for c in (lim if isinstance(lim, list) else [])]) + ")"}[mode]
            items.append(f"(mkYCase {rel.frame_coq(COLS0, rows)} {listlit([step_coq(s) for s in steps])} {cm} {exported} {impl})")
            metas.append({"steps": steps, "table": tname, "mode": mode, "exc": exc, "exported": exported != "None"})
            hist_len[len(steps)] = hist_len.get(len(steps), 0) + 1
            hist_mode[mode] = hist_mode.get(mode, 0) + 1
            for s in steps:
                hist_kind[s[0]] = hist_kind.get(s[0], 0) + 1
    ctx.log(f"{len(items)} cases from {len(progs)} programs ({n_exh} bounded-exhaustive), {n_raise} raised")
    res = ctx.cases("c01", HEADER, items, per_file=200, result_ty="str", fn="check")
    n_t2 = n_dom = n_nontriv = n_wdom = n_wdom_agree = n_ydom = n_ydom_agree = n_model = 0
    hist_wdom = {}
    devs = []
    t2_fail, model_fail = [], []
    for it, m, r in zip(items, metas, res):
        if r is None or len(r) != 8:
            continue
        same_bag = r[5] == "1"
        wdom = r[6] == "1"
        ydom = r[7] == "1"
        n_wdom += wdom
        n_ydom += ydom
        for kd in {s_[0] for s_ in m["steps"]}:
            hist_wdom.setdefault(kd, [0, 0, 0])
            hist_wdom[kd][0] += wdom
            hist_wdom[kd][1] += ydom
            hist_wdom[kd][2] += 1
        t2 = {"1": True, "0": False, "2": None}[r[0]]
        im = {"1": True, "0": False, "2": None}[r[1]]
        isp, dom, raised = (ch == "1" for ch in r[2:5])
        n_t2 += bool(t2)
        n_dom += dom
        desc = {"program": [step_str(s) for s in m["steps"]], "table": m["table"], "rows": TABLES[m["table"]],
                "mode": m["mode"], "verdict(t2,impl=model,impl=spec,in_core_domain,raised,same_bag,in_wide_domain,in_all_alphabet_domain; 2=n/a)": r,
                "exception": m["exc"], "steps_json": m["steps"], "coq_case": it}
        if wdom and isp and not raised and im is True:
            n_wdom_agree += 1
        if ydom and isp and not raised and im is True:
            n_ydom_agree += 1
        n_model += im is not None
        if raised or not isp:
            devs.append((len(m["steps"]), len(TABLES[m["table"]]), len(devs),
                         signature(m["steps"], {"raised": raised, "exc": m["exc"], "same_bag": same_bag, "mode": m["mode"]}),
                         "collect() differs from the sequential PySpark meaning" if not raised else f"raises {m['exc']}",
                         desc))
        elif im is False:
            model_fail.append(desc)
        elif t2 is False:
            t2_fail.append(desc)
        if TABLES[m["table"]] and len(m["steps"]) >= 2:
            n_nontriv += 1
        if len(ctx.samples) < 4 and len(m["steps"]) >= 3 and m["table"] != "empty":
            ctx.sample({"program": desc["program"], "table": m["table"], "verdict": r})
    for _, _, _, sig, what, desc in sorted(devs, key=lambda d: d[:3]):   # shortest program / smallest table first
        ctx.deviation(sig, what, desc)
    if model_fail:
        ctx.broken("T3:impl-vs-model", f"{len(model_fail)} cases where collect() equals the spec but not the model; "
                   f"first: {model_fail[0]['program']}", data=model_fail[:5])
    if t2_fail:
        first = t2_fail[0]
        first["snf(exported) vs snf(model)"] = ctx.coq_eval(
            HEADER, f"let k := {first['coq_case']} in let ics := cols (yc_input k) in "
                    "(option_map (snf ics) (yc_exported k), "
                    "option_map (fun Y => snf ics (all_stages Y)) (run_y gen_cfg gen_g (deco_of decorator_table) (init_y ics) (yc_ops k)))")
        ctx.broken("T2:tree-vs-model", f"{len(t2_fail)} programs whose exported SQL tree differs from the model's normal form; "
                   f"first: {first['program']}", data=t2_fail[:5])
    # ---- spec conformance: the Coq spec (spec_xrun) against answers recorded from PySpark 3.5.9
    import json as _json, os as _os
    rec_path = _os.path.join(core.VERIF, "oracle", "c01_pyspark.jsonl")
    n_rec = n_rec_bad = 0
    if _os.path.exists(rec_path):
        ritems, rmeta = [], []
        rec_lines = open(rec_path).read().splitlines()
        if ctx.tier == "quick":   # a seeded third of the recordings in the quick tier, all of them in the thorough tier
            rec_lines = [l for i, l in enumerate(rec_lines) if (i + ctx.seed) % 3 == 0]
        for line in rec_lines:
            rc = _json.loads(line)
            steps = [_fix_step(_tup(st)) for st in rc["steps"]]
            lim = rc["lim"]
            cm = {"seq": "XSeq", "bag": "XBag", "sub": f"(XSubOf {natlit(lim if isinstance(lim, int) else 0)})",
                  "dedup": "(XDedup " + listlit([strlit(c) for c in (lim if isinstance(lim, list) else [])]) + ")"}[rc["mode"]]
            impl = f"(Some ({listlit([strlit(c) for c in rc['cols']])}, {listlit([rel.row_coq(tuple(r)) for r in rc['result']])}))"
            ritems.append(f"(mkYCase {rel.frame_coq(COLS0, TABLES[rc['table']])} {listlit([step_coq(st) for st in steps])} {cm} None {impl})")
            rmeta.append(rc)
        rres = ctx.cases("c01rec", HEADER, ritems, per_file=200, result_ty="str", fn="check")
        bad = []
        for rc, r in zip(rmeta, rres):
            if r is None:
                continue
            n_rec += 1
            if r[2] != "1":
                n_rec_bad += 1
                bad.append({"steps": rc["steps"], "table": rc["table"], "mode": rc["mode"], "pyspark": rc["result"], "verdict": r})
        if bad:
            ctx.broken("spec-conformance", f"{len(bad)} recorded PySpark results differ from the Coq spec; first: "
                       f"{bad[0]['steps']} on {bad[0]['table']}", data=bad[:8])
    n_exportable = sum(1 for m in metas if m["exported"])
    ctx.coverage.update({
        "evaluations": len(items), "distinct_nontrivial": n_nontriv,
        "rule": "case = (program, table); programs: a corpus of past failures and in-domain witnesses + every ordered pair (thorough: triple) of 23 operation shapes + random "
                "programs (len<=6 quick, <=10 thorough) from a typed generator; tables incl. empty, NULLs, duplicates, ties; "
                "non-trivial = non-empty table and >= 2 operations; distinct by (program text, table)",
        "programs": len(progs), "bounded_exhaustive_programs": n_exh,
        "t2_structurally_equal": n_t2, "t2_exportable": n_exportable, "in_theorem_domain": n_dom,
        "in_wide_theorem_domain": n_wdom, "in_wide_theorem_domain_and_impl_eq_model_eq_spec": n_wdom_agree,
        "in_all_alphabet_theorem_domain": n_ydom, "in_all_alphabet_theorem_domain_and_impl_eq_model_eq_spec": n_ydom_agree,
        "cases_with_a_model_answer": n_model,
        "theorem_domains_by_operation_kind(cases containing the kind: in C01_partial_wide's domain, in C01_partial_all's domain, total)": hist_wdom,
        "histogram_program_length": hist_len, "histogram_operation_kind": hist_kind, "histogram_compare_mode": hist_mode,
        "impl_raised": n_raise, "pyspark_recordings_checked": n_rec, "pyspark_recordings_disagree": n_rec_bad,
    })
    ctx.assumptions += [
        "Sql.Block.eval_block is my definition of DuckDB's SELECT evaluation on the emitted fragment (validated by T3 only)",
        "ChainStages.eval_group / eval_union / eval_window are my definitions of DuckDB's GROUP BY with aggregates, UNION ALL of "
        "projections of one CTE and ROW_NUMBER() OVER (PARTITION BY k ORDER BY k) (validated by T3 only); they fix one representative "
        "of what the engine may return (group order, branch order, the row numbered 1): results after these operations are compared "
        "as multisets / as a valid dropDuplicates (C01_unpivot_stage, C01_dropDuplicates_any_pick state what is independent of the choice)",
        "Spec (Chain.spec_step) is my definition of PySpark's meaning, validated against PySpark 3.5.9 recordings (oracle/)",
        "DuckDB keeps the order of an ordered CTE through outer filter/projection/LIMIT (threads=1, small tables)",
    ]


def _tup(x):
    return tuple(_tup(y) for y in x) if isinstance(x, list) else x


def _fix_step(st):
    """JSON round-trip turns the list-valued arguments of a step into tuples; restore lists where steps use them"""
    k = st[0]
    if k in ("select",):
        return (k, [(e, n) for e, n in st[1]])
    if k == "orderBy":
        return (k, [tuple(x) for x in st[1]])
    if k == "orderByFlags":
        return (k, [tuple(x) for x in st[1]], st[2])
    if k in ("drop", "toDF", "dropDup"):
        return (k, list(st[1]))
    if k == "fillna" and len(st) > 2:
        return (k, st[1], list(st[2]))
    if k == "replace":
        return (k, list(st[1]), [tuple(x) for x in st[2]])
    if k == "dropna":
        return (k, st[1], st[2], list(st[3]))
    if k == "unpivot":
        return (k, list(st[1]), list(st[2]), st[3], st[4])
    if k == "agg":
        return (k, list(st[1]), [tuple(x) for x in st[2]])
    return st


def replay(ctx: core.Ctx, rp: dict) -> int:
    """re-run the program of a replay file on /repo's current tree and print what it returns"""
    r = rp.get("replay") or (rp.get("no_longer_checks") or [{}])[0].get("data", [{}])[0]
    steps = [_fix_step(_tup(s)) for s in r["steps_json"]]
    from sqlframe.duckdb import DuckDBSession
    import sqlframe.duckdb.functions as F
    df = DuckDBSession().createDataFrame([tuple(x) for x in r["rows"]], SCHEMA)
    for st in steps:
        df = apply_step(df, st, F)
    print("program:", [step_str(s) for s in steps])
    print("sql:", df.sql(optimize=False))
    print("collect():", df.collect())
    print("verdict recorded:", r.get("verdict(t2,impl=model,impl=spec,in_core_domain,raised,same_bag,in_wide_domain,in_all_alphabet_domain; 2=n/a)")
          or r.get("verdict(t2,impl=model,impl=spec,in_core_domain,raised,same_bag,in_wide_domain; 2=n/a)")
          or r.get("verdict(t2,impl=model,impl=spec,in_domain,raised,same_bag; 2=n/a)"))
    return 0
