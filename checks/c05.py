"""C05 -- Column expressions denote the tree the user wrote, under SQL three-valued logic.

T1  translate/c05_facts.py -> Gen/C05Facts.v (per-operator class / receiver side / paren / str-is-literal, unary
    paren, isNull/isNotNull/between/like-family shapes, function names; helper bodies pinned by AST hash)
Prf coq/props/C05.v: cfg_ok gen_cfg (vm_compute) + C05_partial (all trees of the class, all rows) +
    C05_roundtrip_all (all safe SQL trees) + C05_refuted_* witnesses + ~C05_full
T2  per sampled tree: (a) SQL text of the model's token stream == text sqlframe really sent to DuckDB;
    (b) DuckDB's own parse (json_serialize_sql) of that text == the model's reparse prediction (incl. syntax errors)
T3  per sampled tree x row pool: values of df.select(expr) and rows kept by df.where(expr) vs the Coq 3VL
    evaluator (model of the engine) and vs the Coq PySpark evaluator (spec); spec vs PySpark 3.5.9 recordings
"""
from __future__ import annotations

import json
import os
import random
import re
from fractions import Fraction

from vlib import core
from translate import c05_facts
from checks import c05_trees as T

HEADER = ("From SF Require Import C05.Check.\nFrom Gen Require Import C05Facts.\nOpen Scope string_scope.\n"
          "Definition envs : list env := " + core.listlit([T.env_coq(r) for r in T.ROWS]) + ".\n"
          "Definition check := Check.check gen_cfg envs.\n")
ORACLE = os.path.join(core.VERIF, "oracle", "c05_spark.jsonl")
PINNED_FACTS = os.path.join(core.VERIF, "translate", "c05_facts_pinned.v")


# ---------------------------------------------------------------------------------------------- implementation
class Proxy:
    """DB-API connection wrapper that remembers the statements sqlframe sends (no source hook)"""

    def __init__(self, conn, log):
        self._c, self._log = conn, log

    def __getattr__(self, n):
        return getattr(self._c, n)

    def execute(self, q, *a, **k):
        self._log.append(q)
        return self._c.execute(q, *a, **k)

    def cursor(self):
        return Proxy(self._c.cursor(), self._log)


class Impl:
    def __init__(self):
        import duckdb
        from sqlframe.duckdb import DuckDBSession
        import sqlframe.duckdb.functions as F
        self.F = F
        self.log = []
        self.session = DuckDBSession()
        self.session._connection = Proxy(self.session._conn, self.log)
        # the pool lives in a DuckDB table (a VALUES-backed DataFrame costs ~4x more per statement in sqlframe itself)
        raw = self.session._conn._c if isinstance(self.session._conn, Proxy) else self.session._conn
        raw.execute("CREATE OR REPLACE TABLE c05pool (id bigint, a bigint, b bigint, s varchar, t varchar, "
                    "p boolean, q boolean, l bigint[], d double)")
        raw.executemany("INSERT INTO c05pool VALUES (?,?,?,?,?,?,?,?,?)", [list(r) for r in T.ROWS])
        self.df = self.session.table("c05pool")
        self.plain = duckdb.connect()
        self.n_queries = 0

    def build(self, t):
        return T.to_col(t, self.F)

    def select(self, cols):
        """cols: list of Column -> (texts, per-column value lists) ; raises the engine's exception"""
        del self.log[:]
        sel = self.df.select("id", *[c.alias(f"r{i}") for i, c in enumerate(cols)])
        rows = sel.collect()
        self.n_queries += 1
        sql = self.log[-1]
        texts = split_select(sql, len(cols))
        rows = sorted(rows, key=lambda r: r[0])
        if [r[0] for r in rows] != [r[0] for r in T.ROWS]:
            raise RuntimeError("select changed the row set")
        return texts, [[r[i + 1] for r in rows] for i in range(len(cols))]

    def where(self, col):
        del self.log[:]
        rows = self.df.where(col).select("id").collect()
        self.n_queries += 1
        return sorted(r[0] for r in rows), self.log[-1]

    def parse(self, text):
        r = json.loads(self.plain.execute("select json_serialize_sql(?)", ["SELECT " + text]).fetchone()[0])
        if r.get("error"):
            return "ERR"
        return canon_json(r["statements"][0]["node"]["select_list"][0])


def helper_probes(impl: Impl) -> list:
    """what the builder model assumes of the low-level helpers (Column.__init__, _lit, column_expression, copy,
    functions.col / lit), checked on the real objects: -> list of failed probes"""
    from sqlframe.base.column import Column
    from sqlglot import expressions as exp
    F, bad = impl.F, []

    def sql(c):
        return c.expression.sql(dialect="duckdb")

    lits = [(None, "NULL"), (True, "TRUE"), (False, "FALSE"), (0, "0"), (1, "1"), (-1, "-1"), (2, "2"),
            ("a", "'a'"), ("", "''"), ("ab", "'ab'")]
    for v, want in lits:
        for name, mk in (("F.lit", F.lit), ("Column._lit", Column._lit)):
            try:
                got = sql(mk(v))
            except Exception as ex:
                got = "raises " + type(ex).__name__
            if got != want:
                bad.append(f"{name}({v!r}) -> {got}, modelled {want}")
        if not isinstance(v, str):
            try:
                got = sql(Column(v))
            except Exception as ex:
                got = "raises " + type(ex).__name__
            if got != want:
                bad.append(f"Column({v!r}) -> {got}, modelled {want}")
    for n in T.COLS + ["l"]:
        try:
            c = F.col(n)
            if not (isinstance(c.expression, exp.Column) and sql(c) == n):
                bad.append(f"F.col({n!r}) -> {sql(c)}")
        except Exception as ex:
            bad.append(f"F.col({n!r}) raises {type(ex).__name__}")
    try:
        a = F.col("a")
        if Column(a).expression is not a.expression:
            bad.append("Column(<Column>) does not reuse the expression")
        al = (a + 1).alias("z")
        if not isinstance(al.expression, exp.Alias) or al.column_expression.sql(dialect="duckdb") != "(a + 1)":
            bad.append("alias()/column_expression: " + sql(al))
        cp = al.copy()
        if cp.expression is al.expression or sql(cp) != sql(al):
            bad.append("copy() is not an independent equal copy")
    except Exception as ex:
        bad.append(f"Column/alias/copy probe raises {type(ex).__name__}: {ex}")
    return bad


def split_select(sql: str, n: int):
    m = re.search(r'SELECT "id" AS "id", (.*) FROM "t\w+"$', sql, re.S)
    if not m:
        raise RuntimeError("unexpected statement shape: " + sql[-200:])
    rest, out = m.group(1), []
    for i in range(n):
        tag = f' AS "r{i}"'
        j = rest.index(tag)
        out.append(rest[:j])
        rest = rest[j + len(tag):]
        if rest.startswith(", "):
            rest = rest[2:]
    if rest:
        raise RuntimeError("select list not consumed: " + rest[:80])
    return out


def err_class(ex) -> str:
    n = type(ex).__name__
    if n == "ParserException":
        return "ERR"
    if n == "CatalogException":
        return "UNKNOWNFN"
    return "EXC:" + n


# ---------------------------------------------------------------------------------------------- DuckDB parse -> canonical
CMPN = {"COMPARE_EQUAL": "Eq", "COMPARE_NOTEQUAL": "Neq", "COMPARE_LESSTHAN": "Lt", "COMPARE_LESSTHANOREQUALTO": "Le",
        "COMPARE_GREATERTHAN": "Gt", "COMPARE_GREATERTHANOREQUALTO": "Ge", "COMPARE_NOT_DISTINCT_FROM": "Nse"}
FUN2 = {"+": "Add", "-": "Sub", "*": "Mul", "/": "Div", "%": "Mod", "~~": "Like", "~~*": "ILike"}
TYN = {"VARCHAR": "TEXT", "INTEGER": "INT"}


class Unknown(Exception):
    pass


def canon_json(n, ctx=None) -> str:
    """DuckDB's parse tree in the format of Check.show (fail-closed on node kinds the model does not have)"""
    cl, ty = n.get("class"), n.get("type")
    if cl == "COLUMN_REF":
        return n["column_names"][-1]
    if cl == "CONSTANT":
        v = n["value"]
        if v["is_null"]:
            return "N"
        tid = v["type"]["id"]
        if tid in ("INTEGER", "BIGINT", "SMALLINT", "TINYINT", "HUGEINT"):
            return "i" + str(v["value"])
        if tid == "VARCHAR":
            return "s" + v["value"]
        if tid == "BOOLEAN":
            return "bT" if v["value"] else "bF"
        raise Unknown("constant of type " + tid)
    if cl == "CAST":
        ch = n["child"]
        tid = n["cast_type"]["id"]
        if tid == "BOOLEAN" and ch.get("class") == "CONSTANT" and not ch["value"]["is_null"] and ch["value"]["value"] in ("t", "f"):
            return "bT" if ch["value"]["value"] == "t" else "bF"
        return f"Cast[{TYN.get(tid, tid)}]({canon_json(ch)})"
    if cl == "COMPARISON":
        if ty in CMPN:
            return f"{CMPN[ty]}({canon_json(n['left'])},{canon_json(n['right'])})"
        if ty == "COMPARE_DISTINCT_FROM":
            return f"Not(Nse({canon_json(n['left'])},{canon_json(n['right'])}))"
        raise Unknown(ty)
    if cl == "CONJUNCTION":
        name = {"CONJUNCTION_AND": "And", "CONJUNCTION_OR": "Or"}[ty]
        return name + "(" + ",".join(canon_json(c) for c in n["children"]) + ")"
    if cl == "OPERATOR":
        ch = n["children"]
        if ty == "OPERATOR_NOT":
            return f"Not({canon_json(ch[0])})"
        if ty == "OPERATOR_IS_NULL":
            return f"IsNull({canon_json(ch[0])})"
        if ty == "OPERATOR_IS_NOT_NULL":
            return f"Not(IsNull({canon_json(ch[0])}))"
        if ty == "COMPARE_IN":
            return "In(" + ",".join(canon_json(c) for c in ch) + ")"
        if ty == "COMPARE_NOT_IN":
            return "Not(In(" + ",".join(canon_json(c) for c in ch) + "))"
        if ty == "ARRAY_EXTRACT":
            return f"Item({canon_json(ch[0])},{canon_json(ch[1])})"
        raise Unknown(ty)
    if cl == "BETWEEN":
        return f"Between({canon_json(n['input'])},{canon_json(n['lower'])},{canon_json(n['upper'])})"
    if cl == "CASE":
        parts = []
        for k in n["case_checks"]:
            parts += [canon_json(k["when_expr"]), canon_json(k["then_expr"])]
        return "Case(" + ",".join(parts + [canon_json(n["else_expr"])]) + ")"
    if cl == "FUNCTION":
        f, ch = n["function_name"], n["children"]
        if f in FUN2 and len(ch) == 2:
            return f"{FUN2[f]}({canon_json(ch[0])},{canon_json(ch[1])})"
        if f == "-" and len(ch) == 1:
            return f"Neg({canon_json(ch[0])})"
        if f == "!~~" and len(ch) == 2:
            return f"Not(Like({canon_json(ch[0])},{canon_json(ch[1])}))"
        if f == "array_extract" and len(ch) == 2:
            return f"Item({canon_json(ch[0])},{canon_json(ch[1])})"
        if re.fullmatch(r"[a-z_]+", f) and len(ch) in (2, 3):
            return f.upper() + "(" + ",".join(canon_json(c) for c in ch) + ")"
        raise Unknown("function " + f)
    raise Unknown(str(cl) + "/" + str(ty))


# ---------------------------------------------------------------------------------------------- values
def impl_val(v) -> str:
    if v is None:
        return "N"
    if isinstance(v, bool):
        return "bT" if v else "bF"
    if isinstance(v, int):
        return "i" + str(v)
    if isinstance(v, str):
        return "s" + v
    if isinstance(v, float):
        return "f" + repr(v)
    try:
        import decimal
        if isinstance(v, decimal.Decimal):
            return "f" + repr(float(v))
    except Exception:
        pass
    return "?" + repr(v)


def num_of(s: str):
    if s.startswith("i"):
        return Fraction(int(s[1:]))
    if s.startswith("r"):
        n, d = s[1:].split("/")
        return Fraction(int(n), int(d))
    if s.startswith("f"):
        return float(s[1:])
    return None


def val_eq(model: str, impl: str) -> bool:
    if model == impl:
        return True
    a, b = num_of(model), num_of(impl)
    if a is None or b is None:
        return False
    fa, fb = float(a), float(b)
    return abs(fa - fb) <= 1e-9 * (1 + abs(fa))


def vals_eq(model: list, impl: list):
    """compare per row, skipping rows outside the domain ('#'); returns index of first difference or None"""
    for i, (m, x) in enumerate(zip(model, impl)):
        if m == "#":
            continue
        if not val_eq(m, x):
            return i
    return None


# ---------------------------------------------------------------------------------------------- signatures
CLOSED_KINDS = {"leaf", "arith", "logic", "neg", "call", "when", "cast", "item"}
NAMES = {"cmp": "comparison", "nse": "eqNullSafe", "isnull": "isNull", "isnotnull": "isNotNull", "not": "not",
         "between": "between", "isin": "isin", "like": "like", "rlogic": "reflected-and-or", "arith": "arithmetic",
         "logic": "and-or", "neg": "neg", "item": "getItem", "call": "call", "when": "when", "cast": "cast", "leaf": "leaf"}


def marker_sigs(marker: str) -> list:
    """'cmp(nse,leaf)' -> ['C05/eqNullSafe-operand-of-comparison'] : one candidate per operand that is not closed"""
    m = re.fullmatch(r"(\w+)\((.*)\)", marker)
    parent, ops = m.group(1), m.group(2).split(",")
    opened = [o for o in ops if o not in CLOSED_KINDS]
    if not opened:
        return [f"C05/unsafe-{NAMES.get(parent, parent)}({','.join(ops)})"]
    return [f"C05/{NAMES.get(o, o)}-operand-of-{NAMES.get(parent, parent)}" for o in dict.fromkeys(opened)]


def has_kind(t, k):
    return t[0] == k or any(has_kind(c, k) for c in T.children(t))


BETWEEN_UNALIAS = False     # set from the regenerated facts: between takes its bounds with .column_expression


def alias_kept(t):
    """positions where sqlframe takes `.expression` (an Alias node survives): outside the modelled fragment"""
    out = []
    if BETWEEN_UNALIAS:
        return out
    k = t[0]
    AL = ("alias", "when")      # F.when(...) results carry an automatic alias (the @meta decorator)
    if k == "between":
        out += ["between-bound"] * sum(1 for x in (t[2], t[3]) if x[0] in AL)
    for c in T.children(t):
        out += alias_kept(c)
    return out


def signatures(t, markers):
    sigs = ["C05/alias-kept-in-" + p for p in alias_kept(t)] + [x for m in markers for x in marker_sigs(m)]
    if has_kind(t, "endswith"):
        sigs.append("C05/endswith-unknown-function")
    if has_kind(t, "getitemcol"):
        sigs.append("C05/getItem-column-index-not-offset")
    return sigs


# ---------------------------------------------------------------------------------------------- trees of a run
CORPUS = [
    ("bin", "==", ("bin", "==", ("col", "a"), ("py", 1)), ("bin", "==", ("col", "b"), ("py", 2))),
    ("bin", "==", ("nse", ("col", "p"), ("col", "q")), ("col", "p")),
    ("isnull", ("bin", "==", ("col", "a"), ("col", "b"))),
    ("isnull", ("not", ("col", "p"))),
    ("isnull", ("isnotnull", ("col", "a"))),
    ("bin", "*", ("neg", ("bin", "+", ("col", "a"), ("col", "b"))), ("rbin", "-", 1, ("col", "a"))),
    # a NOT-prefixed result as LEFT operand of a comparison is value-neutral alone, but its scope swallows what follows
    ("isnotnull", ("bin", "==", ("isnotnull", ("col", "p")), ("lit", False))),
    ("isnull", ("bin", "==", ("not", ("col", "q")), ("lit", False))),
    ("bin", "&", ("bin", "|", ("col", "p"), ("bin", "<", ("col", "a"), ("py", 1))), ("not", ("bin", "&", ("col", "p"), ("col", "q")))),
]


def double_cast(t):
    """cast(x, ty).cast(ty): sqlglot's exp.cast drops the second one (idempotent; outside the modelled fragment)"""
    if t[0] == "cast":
        a = t[1]
        while a[0] == "alias":
            a = a[1]
        if a[0] == "cast" and a[2] == t[2]:
            return True
    return any(double_cast(c) for c in T.children(t))


# SQL-string predicates in Spark's lexical conventions (double-quoted string literal, back-quoted identifier, backslash
# escape), given as text to F.expr(...) and df.where(...): each must behave like the Column-built tree beside it
_A, _S, _T = ("col", "a"), ("col", "s"), ("col", "t")
SQL_STRINGS = [
    ('s = "a"', ("bin", "==", _S, ("py", "a"))),
    ('`a` > 0 AND `s` = "ab"', ("bin", "&", ("bin", ">", _A, ("py", 0)), ("bin", "==", _S, ("py", "ab")))),
    ("s = 'a' OR t = 'x\\'y'", ("bin", "|", ("bin", "==", _S, ("py", "a")), ("bin", "==", _T, ("py", "zz")))),
    ('NOT (`t` <=> "")', ("not", ("nse", _T, ("py", "")))),
    ('a > 0 OR s = "a"', ("bin", "|", ("bin", ">", _A, ("py", 0)), ("bin", "==", _S, ("py", "a")))),
    ('a BETWEEN 0 AND 1 AND `s` IN ("a", "ab")', ("bin", "&", ("between", _A, ("py", 0), ("py", 1)), ("isin", _S, ["a", "ab"]))),
]


def make_trees(ctx):
    rnd = random.Random(ctx.seed)
    g = T.Gen(rnd)
    exh = T.exhaustive(2)
    n_rand = 1500 if ctx.tier == "quick" else 12000
    rand = []
    for i in range(n_rand):
        ty = rnd.choice(["bool", "bool", "bool", "int", "str", "num"])
        d = rnd.choice([2, 3, 3, 4, 4]) if ctx.tier == "quick" else rnd.choice([2, 3, 4, 4, 5])
        rand.append(g.gen(ty, d))
    # witnesses of known and of repaired findings stay in the corpus that runs first
    corpus = list(CORPUS)
    import glob
    for f in sorted(glob.glob(os.path.join(core.VERIF, "findings", "C05-*.json"))):
        try:
            corpus.append(T.from_json(json.load(open(f))["replay"]["tree"]))
        except Exception:
            pass
    seen, out = set(), []
    for src, ts in (("corpus", corpus), ("exhaustive", exh), ("random", rand)):
        for t in ts:
            k = repr(t)
            if k not in seen and not double_cast(t):
                seen.add(k)
                out.append((src, t))
    return out, len(exh)


def build_shared(impl: Impl, ctx):
    """shared sub-expression programs: ONE Column object per sub-tree, reused in several larger expressions; all of
    them are built here, before anything is evaluated.  -> list of (tree as written, Column | exception, program)"""
    out = []
    progs = T.shared_programs(random.Random(ctx.seed + 1), 40 if ctx.tier == "quick" else 400)
    for u, ctxs in progs:
        try:
            X = impl.build(u)
        except Exception as ex:
            X = ex
        for k, c in enumerate(ctxs):
            tree = T.subst(c, u)
            if double_cast(tree):
                continue
            try:
                col = X if isinstance(X, Exception) else T.to_col(c, impl.F, hole=X)
            except Exception as ex:
                col = ex
            out.append((tree, col, {"shared_subtree": u, "contexts": ctxs, "use": k}))
    return out


def run_impl(impl: Impl, trees, ctx, prebuilt=None):
    """-> list of dict(text, vals | err)"""
    res = [None] * len(trees)
    cols = []
    for i, t in enumerate(trees):
        try:
            if prebuilt and i in prebuilt:
                if isinstance(prebuilt[i], Exception):
                    raise prebuilt[i]
                cols.append(prebuilt[i])
                continue
            cols.append(impl.build(t))
        except Exception as ex:
            cols.append(None)
            res[i] = {"text": None, "err": "BUILD:" + type(ex).__name__, "detail": str(ex)[:200]}
    def one(i):
        try:
            texts, vals = impl.select([cols[i]])
            res[i] = {"text": texts[0], "vals": [impl_val(v) for v in vals[0]]}
        except Exception as ex:
            text = None
            if impl.log:
                try:
                    text = split_select(impl.log[-1], 1)[0]
                except Exception:
                    text = None
            res[i] = {"text": text, "err": err_class(ex), "detail": str(ex)[:200]}

    def batch(chunk):
        if len(chunk) == 1:
            return one(chunk[0])
        try:
            texts, vals = impl.select([cols[i] for i in chunk])
            for i, tx, vs in zip(chunk, texts, vals):
                res[i] = {"text": tx, "vals": [impl_val(v) for v in vs]}
        except Exception:
            h = len(chunk) // 2
            batch(chunk[:h])
            batch(chunk[h:])

    idx = [i for i in range(len(trees)) if cols[i] is not None]
    for k in range(0, len(idx), 32):
        batch(idx[k:k + 32])
    return res, cols


def norm_text(s: str) -> str:
    return re.sub(r'[\s"]', "", s)


# ---------------------------------------------------------------------------------------------- run
def run(ctx: core.Ctx):
    # ---- T1
    t1_ok = True
    try:
        text, facts = c05_facts.generate(core.REPO)
        ctx.gen("C05Facts", text, facts)
        global BETWEEN_UNALIAS
        BETWEEN_UNALIAS = any(f.get("name") == "between_unalias" and f.get("value") for f in facts)
    except Exception as ex:
        ctx.broken("T1:c05_facts", f"{type(ex).__name__}: {ex}")
        t1_ok = False
    # ---- proofs
    proved = False
    gen_v = ctx.build + "/gen/C05Facts.v"
    if t1_ok:
        proved = ctx.prove([gen_v, core.COQ + "/props/C05.v"],
                           dep_theories=["Base/Val.v", "C05/Syntax.v", "C05/Parse.v", "C05/ParseProof.v", "C05/RoundTrip.v",
                                         "C05/Sem.v", "C05/Build.v", "C05/Class.v", "C05/Safe.v", "C05/Main.v", "C05/Check.v"])
    refuted = prove_refutations(ctx) if t1_ok else {}
    if not os.path.exists(ctx.build + "/gen/C05Facts.vo"):
        # the case files need Gen.C05Facts: fall back to the facts of the pinned source so that the search can run
        ctx.gen("C05Facts", open(PINNED_FACTS).read())
        ctx.coqc(gen_v)
    # ---- implementation
    impl = Impl()
    probes = helper_probes(impl)
    if probes:
        ctx.broken("T1:helper-probes", f"{len(probes)} assumptions of the builder model about Column.__init__/_lit/"
                   f"column_expression/copy/functions.col/lit fail; first: {probes[0]}", data=probes[:10])
    trees_src, n_exh = make_trees(ctx)
    shared = build_shared(impl, ctx)          # built completely before the first statement is sent
    prebuilt, programs = {}, {}
    for tree, col, prog in shared:
        prebuilt[len(trees_src)] = col
        programs[len(trees_src)] = prog
        trees_src.append(("shared", tree))
    sqltext = {}
    for text, tree in SQL_STRINGS:
        try:
            col = impl.F.expr(text)
        except Exception as ex:
            col = ex
        prebuilt[len(trees_src)] = col
        sqltext[len(trees_src)] = text
        trees_src.append(("sqlstring", tree))
    trees = [t for _, t in trees_src]
    res, cols = run_impl(impl, trees, ctx, prebuilt)
    ctx.log(f"{len(trees)} trees ({n_exh} bounded-exhaustive to depth 2), {impl.n_queries} select statements")
    # DuckDB's own parse of the real text
    parses = []
    for r in res:
        if r.get("text") is None:
            parses.append(None)
            continue
        try:
            parses.append(impl.parse(r["text"]))
        except Unknown as u:
            parses.append("UNKNOWN-NODE:" + str(u))
    ctx.log("DuckDB parses done")
    # ---- model
    out = ctx.cases("c05", HEADER, [T.to_coq(t) for t in trees], per_file=60, result_ty="str", fn="check")
    fields = [o.split(";") if o is not None else None for o in out]
    ctx.log("model evaluated")
    # where() on a subsample of boolean trees (every tree of depth <= 1, the corpus, every 4th other)
    n_where = 0
    for i, ((src, t), r, f) in enumerate(zip(trees_src, res, fields)):
        if f is None or "vals" not in r or not all(v in ("N", "bT", "bF") for v in r["vals"]):
            continue
        if not (src in ("corpus", "sqlstring") or T.depth(t) <= 1 or i % 4 == 0):
            continue
        try:
            r["where"] = impl.where(sqltext.get(i, cols[i]))[0]     # a SQL-string predicate goes to where() as text
            if i in sqltext:
                # ... and as the SECOND filter after another where(): the rows must be those of first AND (predicate)
                del impl.log[:]
                first = impl.F.col("b").isNotNull()
                rows2 = impl.df.where(first).where(sqltext[i]).select("id").collect()
                r["where2"] = sorted(x[0] for x in rows2)
                r["where2_sql"] = impl.log[-1] if impl.log else None
        except Exception as ex:
            r["where_err"] = err_class(ex)
        n_where += 1
    ctx.log(f"where() on {n_where} trees")
    # ---- compare
    ids = [row[0] for row in T.ROWS]
    stats = dict(t2_text_equal=0, t2_parse_equal=0, in_class=0, regrouped=0, regrouped_value_equal=0, syntax_error=0,
                 impl_eq_model=0, impl_eq_spec=0, evaluations=0, nontrivial=0)
    hist_depth, hist_kind, hist_src, hist_sig = {}, {}, {}, {}
    confirmed = set()       # markers seen deviating on a tree that has exactly that one marker
    devs = []
    for idx, ((src, t), r, ps, f) in enumerate(zip(trees_src, res, parses, fields)):
        if f is None or len(f) != 8:
            continue
        mtext, mparse, intended, flags, mvals, svals, markers, prim = f
        mvals = svals if mvals == "=" else mvals
        in_class, safe, known, rt = (c == "1" for c in flags)
        markers = [m for m in markers.split("+") if m]
        spec = svals.split("~")
        hist_depth[T.depth(t)] = hist_depth.get(T.depth(t), 0) + 1
        hist_src[src] = hist_src.get(src, 0) + 1
        for k, n in T.kinds_in(t).items():
            hist_kind[k] = hist_kind.get(k, 0) + n
        desc = {"tree": t, "python": T.to_src(t), "sql_sent": r.get("text"), "sql_model": mtext,
                "duckdb_parse": ps, "model_parse": mparse, "intended_tree": intended, "flags(in_class,safe,known,roundtrip)": flags,
                "pyspark_values(spec)": svals, "unsafe_subtrees": markers}
        if idx in sqltext:
            desc["sql_string"] = sqltext[idx]        # given as text to F.expr(...) and df.where(...); `tree` is its Column-built equivalent
        if idx in programs:
            desc["shared_program"] = programs[idx]   # the Column object of shared_subtree was built once and reused
        stats["evaluations"] += len(spec)
        if any(v == "N" for v in spec) and len(set(spec)) > 1 and T.depth(t) >= 1:
            stats["nontrivial"] += 1
        if in_class:
            stats["in_class"] += 1
            pr = prim.split("~")
            mv, sv = mvals.split("~"), svals.split("~")
            same_on_agree = len(mv) == len(sv) and all(a == b for a, b, f in zip(mv, sv, pr) if f == "-")
            if not (safe and known and rt and mparse == intended and same_on_agree) and proved:
                ctx.broken("theorem-vs-evaluation", "tree of the class on which the executable model disagrees with C05_partial: " + T.to_src(t), desc)
        # not in the modelled fragment, judged against the spec only: "x AS z" inside an expression; predicates given as SQL text
        ak = bool(alias_kept(t)) or src == "sqlstring"
        stats["outside_model"] = stats.get("outside_model", 0) + ak
        # -- T2: text and parse
        if r.get("text") is not None and not ak:
            if norm_text(r["text"]) == norm_text(mtext):
                stats["t2_text_equal"] += 1
            else:
                devs.append(("T2:text-vs-model", desc))
            if ps == mparse:
                stats["t2_parse_equal"] += 1
            else:
                devs.append(("T2:parse-vs-model", desc))
        regrouped = mparse not in ("ERR", intended)
        stats["regrouped"] += regrouped
        stats["syntax_error"] += mparse == "ERR"
        # -- T3: implementation vs model of the engine
        if ak:
            desc["engine_error" if "err" in r else "engine_values"] = r.get("err") or "~".join(r["vals"])
        elif "err" in r:
            desc["engine_error"] = r["err"] + ": " + r.get("detail", "")
            model_err = "ERR" if mparse == "ERR" else mvals if mvals == "UNKNOWNFN" else None
            if r["err"] == model_err or (regrouped and r["err"].startswith("EXC:")):
                stats["impl_eq_model"] += 1
            else:
                devs.append(("T3:impl-vs-model", desc))
        else:
            desc["engine_values"] = "~".join(r["vals"])
            if mparse == "ERR" or mvals == "UNKNOWNFN":
                devs.append(("T3:impl-vs-model", desc))
            elif regrouped:
                pass        # the regrouped tree may be ill-typed (implicit casts are not modelled); judged against the spec only
            elif vals_eq([("#" if "n" in f else m) for m, f in zip(mvals.split("~"), prim.split("~"))], r["vals"]) is None:
                # rows where a negative substring position falls before the string are skipped: DuckDB 1.2.2 itself answers
                # differently for constant and for column input there (its ASCII and Unicode paths disagree)
                stats["impl_eq_model"] += 1
            else:
                devs.append(("T3:impl-vs-model", desc))
        # -- implementation vs spec (the property)
        bad = None
        chained_bad = False
        prim_sigs = []
        if "err" in r:
            if any(v != "#" for v in spec):
                bad = "raises " + r["err"]
        else:
            k = vals_eq(spec, r["vals"])
            if k is not None:
                diff_rows = [i for i, (m, x) in enumerate(zip(spec, r["vals"])) if m != "#" and not val_eq(m, x)]
                pr = prim.split("~")
                if all(pr[i] != "-" for i in diff_rows):       # every differing row is one where the engine's primitive
                    prim_sigs = []                             # itself differs from Spark's (tree preserved)
                    if any("c" in pr[i] for i in diff_rows):
                        prim_sigs.append("C05/cast-fraction-to-integer-rounds")
                    if any("s" in pr[i] for i in diff_rows):
                        prim_sigs.append("C05/substr-start-zero")
                    if any("n" in pr[i] for i in diff_rows):
                        prim_sigs.append("C05/substr-negative-start-before-string")
                desc["row_index"] = k
                bad = f"select: row {T.ROWS[k]} gives {r['vals'][k]}, PySpark gives {spec[k]}"
            elif "where" in r:
                want = [i for i, v in zip(ids, spec) if v == "bT"]
                dom = {i for i, v in zip(ids, spec) if v != "#"}
                got = [i for i in r["where"] if i in dom]
                if got != want:
                    bad = f"where keeps ids {got}, PySpark keeps {want}"
                desc["where_ids"] = r["where"]
                if bad is None and "where2" in r:
                    has_b = {row[0] for row in T.ROWS if row[2] is not None}
                    want2 = [i for i in want if i in has_b]
                    got2 = [i for i in r["where2"] if i in dom]
                    if got2 != want2:
                        bad = (f"df.where(col('b').isNotNull()).where({sqltext[idx]!r}) keeps ids {got2}, "
                               f"PySpark keeps {want2}")
                        desc["chained_where_sql"] = r.get("where2_sql")
                        chained_bad = True
            elif "where_err" in r:
                bad = "where raises " + r["where_err"]
        if bad is None:
            stats["impl_eq_spec"] += 1
            if regrouped:
                stats["regrouped_value_equal"] += 1
        else:
            sigs = prim_sigs + signatures(t, markers)
            if src == "sqlstring":
                sigs = ["C05/sql-string-predicate-as-second-where-regrouped" if chained_bad
                        else "C05/sql-string-predicate-differs-from-column-tree"]
            if len(set(sigs)) == 1:
                confirmed.add(sigs[0])
            devs.append(("DEV", (t, sigs, bad, desc)))
        if len(ctx.samples) < 5 and T.depth(t) >= 3:
            ctx.sample({"python": T.to_src(t), "sql": r.get("text"), "parse": ps, "in_class": in_class})
    # ---- verdicts
    first, brok = {}, {}
    for kind, d in devs:
        if kind == "DEV":
            t, sigs, bad, desc = d
            pick = next((s for s in sigs if s in confirmed), sigs[0] if sigs else "C05/value-differs:" + t[0])
            if in_theorem_class(desc) and not (sigs and sigs[0] in PRIM_SIGS):
                pick = "C05/in-class-tree-deviates:" + t[0]
            hist_sig[pick] = hist_sig.get(pick, 0) + 1
            if pick not in first or T.size(t) < T.size(first[pick][0]):
                first[pick] = (t, bad, desc)
        else:
            brok.setdefault(kind, []).append(d)
    for key, v in brok.items():
        v = sorted(v, key=lambda d: len(d["python"]))
        ctx.broken(key, f"{len(v)} trees; smallest: {v[0]['python']}", data=v[:5])
    for key, (t, bad, desc) in first.items():
        ctx.deviation(key, f"{T.to_src(t)}: {bad}", desc)
    for sig, ok in refuted.items():
        if not ok and sig in first:
            ctx.broken("refuted-vs-observed", f"{sig}: the model of the current source no longer exhibits the defect, "
                       f"but the implementation still does: {T.to_src(first[sig][0])}", first[sig][2])
    ctx.coverage["refutation_witnesses"] = refuted
    ctx.coverage["deviation_examples"] = {k: {"python": T.to_src(t), "sql": d.get("sql_sent"), "what": bad, "unsafe_subtrees": d["unsafe_subtrees"], "tree": t, "row_index": d.get("row_index", 0)}
                                          for k, (t, bad, d) in sorted(first.items())}
    # ---- spec vs PySpark recordings
    n_rec = n_rec_ok = 0
    if os.path.exists(ORACLE):
        recs = [json.loads(l) for l in open(ORACLE)]
        if ctx.tier == "quick":
            recs = recs[:400]
        rtrees = [T.from_json(r["tree"]) for r in recs]
        o2 = ctx.cases("c05o", HEADER, [T.to_coq(t) for t in rtrees], per_file=60, result_ty="str", fn="check")
        badrec = []
        for rec, t, o in zip(recs, rtrees, o2):
            if o is None or rec.get("err"):
                continue
            n_rec += 1
            spec = o.split(";")[5].split("~")
            if vals_eq(spec, rec["vals"]) is None:
                n_rec_ok += 1
            else:
                k = vals_eq(spec, rec["vals"])
                badrec.append({"python": T.to_src(t), "row": T.ROWS[k], "coq_spec": spec[k], "pyspark": rec["vals"][k]})
        if badrec:
            ctx.broken("spec-vs-pyspark", f"{len(badrec)} recorded trees where the Coq Spec (ueval) differs from PySpark 3.5.9; "
                       f"first: {badrec[0]}", data=badrec[:5])
    else:
        ctx.broken("oracle-missing", ORACLE + " not found")
    ctx.coverage.update({
        "evaluations": stats["evaluations"], "distinct_nontrivial": stats["nontrivial"],
        "rule": "case = tree x 30 pool rows (NULL, 0, 1, -1, 2; '', 'a', 'ab'; true, false; arrays); evaluations = tree-row pairs; "
                "non-trivial tree = depth >= 1, at least one row evaluates to NULL and not all rows agree; distinct by tree text",
        "trees": len(trees), "bounded_exhaustive_trees": n_exh, "shared_subexpression_uses": len(shared), "where_checked": n_where,
        "t2_text_equal": stats["t2_text_equal"], "t2_parse_equal": stats["t2_parse_equal"],
        "in_theorem_class": stats["in_class"], "outside_modelled_fragment(alias kept)": stats.get("outside_model", 0), "regrouped_by_engine": stats["regrouped"],
        "regrouped_but_value_equal_on_pool": stats["regrouped_value_equal"], "syntax_errors": stats["syntax_error"],
        "impl_eq_model": stats["impl_eq_model"], "impl_eq_spec": stats["impl_eq_spec"],
        "pyspark_recordings_checked": n_rec, "pyspark_recordings_agree": n_rec_ok,
        "histogram_depth": hist_depth, "histogram_node_kind": hist_kind, "histogram_source": hist_src,
        "histogram_deviation_signature": hist_sig,
    })
    ctx.log(f"in class {stats['in_class']}, regrouped {stats['regrouped']} (value-equal {stats['regrouped_value_equal']}), "
            f"syntax errors {stats['syntax_error']}, deviations {sum(hist_sig.values())} in {len(hist_sig)} shapes")
    ctx.assumptions += [
        "Parse.pexpr (operator-precedence reading with the table of Syntax.v) is my definition of how DuckDB 1.2.2's grammar groups "
        "the emitted tokens; validated on every run against DuckDB's own parser (json_serialize_sql), never proved",
        "Sem.seval is my definition of DuckDB's scalar evaluation on well-typed trees (no implicit casts, exact arithmetic, "
        "no overflow, division by zero excluded); validated by T3 on the value pool",
        "Build.ueval is my definition of PySpark 3.5 (non-ANSI) evaluation, validated against recordings of PySpark 3.5.9 (oracle/c05_spark.jsonl)",
        "lexing of identifiers, numbers and quoted strings is not modelled (one token per leaf); sqlglot's DuckDB generator is "
        "modelled by Syntax.print and compared with the real text on every sampled tree",
        "helpers pinned by AST hash (Column.__init__, _lit, invoke_expression_over_column, when/otherwise/isin/cast/alias/getItem, "
        "functions.col/lit/when, element_at_using_brackets) behave as modelled in Build.build",
    ]
    ctx.trusted += ["translate/c05_facts.py (symbolic executor + AST-hash pins), checks/c05.py comparator, DuckDB json_serialize_sql as parse oracle"]


REFUTED_V = os.path.join(core.COQ, "props", "C05_refuted.v")


def prove_refutations(ctx) -> dict:
    """coq/props/C05_refuted.v holds one chunk per known finding the model can express: a witness tree + row with
    `bad gen_cfg row tree = true` (vm_compute) and the corollary ~C05_full.  Each chunk is compiled on its own:
    a chunk that no longer compiles means the defect is gone from the model of the current source (e.g. repaired
    upstream) -- that is not an alarm by itself; run() cross-checks it against what the implementation does."""
    out = {}
    if not os.path.exists(REFUTED_V):
        return out
    txt = open(REFUTED_V).read()
    header, *chunks = re.split(r"\(\* ---- signature: (\S+) \*\)\n", txt)
    for sig, body in zip(chunks[0::2], chunks[1::2]):
        name = "C05R_" + re.sub(r"\W", "_", sig.split("/", 1)[1])
        path = ctx.gen(name, header + body)
        gate = core.grep_gate([path])
        n = core.count_obligations(path)
        ctx.obligations += n
        if gate:
            ctx.broken("axiom-gate:" + name, "; ".join(gate[:3]))
            continue
        rc, o, err, dt, cmd = ctx.coqc(path)
        ctx.checker_cmds.append(cmd)
        out[sig] = rc == 0
        if rc == 0:
            ctx.discharged += n
            for blk in core.parse_assumptions(o):
                ctx.assumptions_printed.append(f"{name}: {blk}")
        else:
            ctx.obligations -= n          # not an obligation of this source tree any more
            ctx.log(f"refutation witness for {sig} no longer holds of the model of this source tree")
    return out


PRIM_SIGS = ("C05/sql-string-predicate-differs-from-column-tree", "C05/sql-string-predicate-as-second-where-regrouped", "C05/cast-fraction-to-integer-rounds", "C05/substr-start-zero", "C05/substr-negative-start-before-string")


def in_theorem_class(desc) -> bool:
    return desc["flags(in_class,safe,known,roundtrip)"][0] == "1"


# ---------------------------------------------------------------------------------------------- replay
def replay(ctx: core.Ctx, rp: dict) -> int:
    """re-run the tree of a replay file on the current source tree and print what the engine answers"""
    r = rp.get("replay") or (rp.get("no_longer_checks") or [{}])[0].get("data", [{}])[0]
    t = T.from_json(r["tree"])
    print("python  :", T.to_src(t))
    print("expected:", r.get("pyspark_values(spec)"), "(PySpark values per pool row; # = outside the domain)")
    impl = Impl()
    try:
        sp = r.get("shared_program")
        if sp:
            u = T.from_json(sp["shared_subtree"])
            X = impl.build(u)
            built = [T.to_col(T.from_json(c), impl.F, hole=X) for c in sp["contexts"]]   # all uses first, as in the run
            col = built[sp["use"]]
            print("shared  :", T.to_src(u), "built once and reused in", len(built), "expressions; this is use", sp["use"])
        elif r.get("sql_string"):
            print("sql text:", r["sql_string"], "(given to F.expr; the tree above is its Column-built equivalent)")
            col = impl.F.expr(r["sql_string"])
        else:
            col = impl.build(t)
        texts, vals = impl.select([col])
        got = "~".join(impl_val(v) for v in vals[0])
        print("sql     :", texts[0])
        print("duckdb parse:", impl.parse(texts[0]), "| intended:", r.get("intended_tree"))
        print("got     :", got)
        k = vals_eq((r.get("pyspark_values(spec)") or "").split("~"), got.split("~"))
        print("verdict :", "agrees with PySpark on the pool" if k is None else f"differs at row {T.ROWS[k]}")
        return 0 if k is None else 1
    except Exception as ex:
        print("sql     :", impl.log[-1] if impl.log else None)
        print("raises  :", type(ex).__name__, str(ex)[:300])
        return 1
