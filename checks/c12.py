"""C12 -- the same pipeline means the same thing on every supported engine  (PARTIAL: level `other`).

T1  translate/c12_facts.py -> Gen/C12Facts.v  per-engine session/DataFrame/GroupedData facts, the dialect plumbing call sites,
                                              the function table and each engine module's filter, get_func_from_session
Prf coq/props/C12.v        -> C12_partial = (a) engine independence of the relational core (+ C01 semantics per engine)
                                            (b) every statement in the execution dialect, df.sql(dialect=X), result names
                                            (c) dispatch total on exports, one-hot `_is_<engine>` flags
T3  checks/c12_worker.py (one process per engine, real session class, stub drivers, RECORDING cursor = dialect reader:
    sqlglot parses the statement in the engine's dialect, re-renders (fixed point), transpiles to DuckDB with identifiers made
    case-sensitive where the dialect is, executes) -- EVIDENCE, not proof:
      * C01 pipelines: engine tree == model (T2), engine rows/cols == model == spec, engine ~ DuckDB session (Coq computes)
      * df.sql(dialect=X) for rotating X: same comparison
      * actions: number of statements per action == model, every statement parses and is a fixed point
      * function sample per engine vs the DuckDB session; dispatch and exports vs the Coq model; session facts vs the Coq model
"""
from __future__ import annotations

import json
import os
import random
import re
import subprocess
import sys
from concurrent.futures import ThreadPoolExecutor

from vlib import core, rel
from vlib.core import strlit, listlit, natlit
from translate import c01_facts, c12_facts
from checks import c01

ENGINES = ["bigquery", "snowflake", "postgres", "databricks", "spark", "redshift", "duckdb"]
CTOR = c12_facts.CTOR
HEADER = """From SF Require Import C12.EngineCheck.
From Gen Require Import C01Facts C12Facts.
Open Scope string_scope.
Open Scope list_scope.
Definition cfgE := cfg_of engine_facts core_df core_group gen_cfg.
(* names are compared up to the DOCUMENTED sanitising (only BigQuery), not up to whatever the session classes say today *)
Definition nmE (E : engine) : string -> string := if engine_eqb E Bigquery then sanitize base_facts else (fun s => s).
(* verdicts are computed with the engine's cfg; when an engine has none (it overrides a core method -- reported separately as a
   broken tie) the base cfg is used so that the search still finds a concrete failing input *)
Definition check (p : engine * ecase) : string :=
  echeck (match cfgE (fst p) with Some c => Some c | None => Some gen_cfg end) (deco_of decorator_table) (nmE (fst p)) (snd p).
"""
HEADER_FACTS = """From SF Require Import C12.EngineCheck.
From Gen Require Import C01Facts C12Facts.
Open Scope string_scope.
Open Scope list_scope.
Definition b2 (b : bool) : string := if b then "1" else "0".
Definition nat_s (n : nat) : string := String.concat "" (repeat "i" n).
Definition session_line (E : engine) : string :=
  String.concat ";" [in_default base_facts engine_facts E; out_default base_facts engine_facts E;
                     exec_default base_facts engine_facts E;
                     String.concat "" (map (fun X => b2 (flag base_facts engine_facts E X)) all_engines);
                     nm base_facts engine_facts E "max(a)"].
Definition cfg_line (E : engine) : string :=
  match cfg_of engine_facts core_df core_group gen_cfg E with Some _ => "1" | None => "0" end.
Definition count_line (p : engine * string) : string :=
  match run_act plumbing_facts (fst p) aval aeval 8 (snd p) with Some l => nat_s (List.length l) | None => "?" end.
Definition exports_line (E : engine) : string := String.concat "," (exports func_facts E).
Definition dres_s (r : dres) : string :=
  match r with Found n => "Found:" ++ n | ErrAttribute => "ErrAttribute" | ErrNotImplemented => "ErrNotImplemented" | ErrImport => "ErrImport" end.
Definition dispatch_line (p : engine * string) : string :=
  String.concat ";" (map (fun fb => dres_s (dispatch func_facts (default_sess base_facts engine_facts (fst p)) (snd p) fb)) [true; false]).
"""

# shapes the dialect READER (sqlglot read-back + DuckDB) cannot judge: (engine or "*", predicate on the error/diff text, why)
READER_LIMITS: list = []

SAMPLE_FUNCS = None  # filled from the worker's table


def pick_engines(ctx):
    if ctx.tier != "quick":
        return list(ENGINES)
    others = [e for e in ENGINES if e != "duckdb"]
    k = ctx.seed % len(others)
    rot = others[k:] + others[:k]
    return ["duckdb"] + rot[:3]


EXTRA_CALLS = {   # C12's own templates for engine-sensitive functions checks/c17_cases.py has none for (same token language)
    "to_timestamp_ntz": [[{"c": "tss"}, {"l": "yyyy-MM-dd HH:mm:ss"}]],
    "bround": [[{"c": "x"}, {"v": 1}]],
    "format_number": [[{"c": "x"}, {"v": 2}]],
    "next_day": [[{"c": "d"}, {"v": "Mon"}]],
    "substring_index": [[{"c": "s"}, {"v": ","}, {"v": 2}]],
    "map_concat": [[{"e": "F.create_map(F.lit('k'), 'i')"}, {"e": "F.create_map(F.lit('m'), 'j')"}]],
    "to_number": [[{"c": "ds"}, {"l": "9999-99-99"}]],
}


CAST_OTHER = {"bigint": "double", "int": "bigint", "double": "decimal(24,8)", "string": "varchar(100)", "date": "timestamp",
              "timestamp": "string", "boolean": "boolean"}


def shaped_variants(calls, sensitive, tier):
    """Argument SHAPES for the engine-sensitive functions: every column-name argument of a template is also passed as
      cast    a Column cast to ANOTHER type          F.col(c).cast(<other>)
      nested  the result of another function         F.coalesce(F.col(c), F.col(c)) / F.to_timestamp(F.col(c)) for dates
      alias   an aliased Column                      F.col(c).alias('zz')
    one argument position at a time.  Engine-specific alternatives inspect their operands (is it already a Cast? a Column? an
    int?), so a plain column name does not exercise them.  The comparison is engine session vs DuckDB session on the same call,
    so it does not matter that a shape changes the value."""
    from checks import c17_cases as K
    types = dict(K.SCHEMA)
    out = []
    per_fn = {}
    for c in calls:
        if c["fn"] not in sensitive or c.get("tag") == "shape":
            continue
        per_fn[c["fn"]] = per_fn.get(c["fn"], 0) + 1
        if tier == "quick" and per_fn[c["fn"]] > 1:
            continue                      # quick tier: the first template of each function; thorough: all
        for pos, a in enumerate(c["args"]):
            col = a.get("c")
            ty = types.get(col)
            if ty is None or ty.startswith("array"):
                continue
            shapes = {"cast": f"F.col('{col}').cast('{CAST_OTHER[ty]}')",
                      "nested": f"F.to_timestamp(F.col('{col}'))" if ty == "date" else f"F.coalesce(F.col('{col}'), F.col('{col}'))",
                      "alias": f"F.col('{col}').alias('zz')"}
            for sh, src in shapes.items():
                args = [dict(x) for x in c["args"]]
                args[pos] = {"e": src}
                out.append({"id": f"{c['id']}@{pos}:{sh}", "fn": c["fn"], "mode": c["mode"], "args": args, "kwargs": c["kwargs"], "tag": "shape"})
    return out


def function_calls(info, tier="thorough"):
    """-> (call specs, engine-sensitive function names, sensitive functions without a template)"""
    from checks import c17_cases as K
    calls = [c for c in K.all_calls()]
    for fn, tpls in sorted(EXTRA_CALLS.items()):
        for n, args in enumerate(tpls):
            calls.append({"id": f"{fn}#c12-{n}", "fn": fn, "mode": "row", "args": args, "kwargs": {}, "tag": "c12-extra"})
    sensitive = set((info or {}).get("sensitive", []))
    if not sensitive:          # translator failed: drive everything
        sensitive = {c["fn"] for c in calls}
    known = {c for e, d in load_baseline().items() for c in d}
    # (when the translator failed, `sensitive` is everything: keep only the variants the recorded baseline knows)
    calls += [c for c in shaped_variants(calls, sensitive, tier) if info or not known or c["id"] in known]
    templated = {c["fn"] for c in calls}
    not_templated = {f: K.NOT_EXERCISED.get(f, "no typed template (private helper, environment-dependent or schema-typed input)")
                     for f in sorted(sensitive - templated)}
    return calls, sensitive | {"Column.getItem"}, not_templated


def solo_ids(calls):
    """per engine: the calls to drive one per statement -- those the recorded baseline does NOT expect to be clean there (rejected,
    unsupported on DuckDB, a recorded non-fixed-point text) or does not know; the others are driven several per statement and
    redone singly whenever their statement misbehaves"""
    outcomes, text = load_baseline(), load_baseline("text")
    res = {}
    duck_bad = {c for e in outcomes for c, o in outcomes[e].items() if o == "duck-unsupported"}
    for e in ENGINES:
        oc = outcomes.get(e, {})
        res[e] = [c["id"] for c in calls
                  if c["id"] in text.get(e, {}) or c["id"] in duck_bad
                  or (e != "duckdb" and oc.get(c["id"]) not in ("agree", "names-differ", "differ"))]
    return res


def run_worker(engine, req):
    env = dict(os.environ)
    env["PYTHONPATH"] = core.VERIF + ":" + core.REPO
    env["PYTHONHASHSEED"] = "0"
    p = subprocess.run([core.PY, "-m", "checks.c12_worker", engine], input=json.dumps(req), cwd=core.VERIF,
                       stdout=subprocess.PIPE, stderr=subprocess.PIPE, text=True, env=env, timeout=1500)
    try:
        return json.loads(p.stdout)
    except Exception:
        return {"engine": engine, "fatal": (p.stderr or p.stdout)[-2500:]}


def pyval(v):
    """jsonable value of the worker -> python value comparable across engines (floats rounded)"""
    if isinstance(v, dict):
        if "r" in v:
            return ("float", v["r"])
        if "d" in v:
            return ("date", v["d"][:10] if len(v["d"]) > 10 and v["d"][11:] in ("00:00:00",) else v["d"])
        if "m" in v:
            return ("map", tuple(sorted((repr(pyval(k)), repr(pyval(x))) for k, x in v["m"])))
        if "b" in v:
            return ("bytes", v["b"])
        return ("other", json.dumps(v, sort_keys=True))
    if isinstance(v, list):
        return tuple(pyval(x) for x in v)
    return v


def coq_v(v):
    if isinstance(v, dict):
        if "r" in v and v["r"] != "nan":
            return rel.val_coq(float(v["r"]))
        raise rel.NotExportable(f"value {v}")
    if isinstance(v, list):
        raise rel.NotExportable(f"value {v}")
    return rel.val_coq(v)


def coq_rows(rows):
    return listlit([listlit([coq_v(v) for v in r]) for r in rows])


def coq_result(cols, rows):
    if cols is None or rows is None:
        return "None"
    return f"(Some ({listlit([strlit(c) for c in cols])}, {coq_rows(rows)}))"


_WORD = re.compile(r"[A-Za-z_][A-Za-z_0-9]*|\d+|'[^']*'|\S")


def invalid_shape(stmt: dict) -> str:
    """shape predicate of a statement that does not parse / is not a fixed point (used as the finding signature)"""
    if not stmt.get("parse"):
        err = stmt.get("error") or ""
        sql = stmt.get("sql") or ""
        if "RegexpLike" in err and re.search(r"[ (,]~ ?[\"(`]", sql):
            return "does-not-parse:prefix-tilde-read-as-regex-match"
        m = re.match(r"parse:(\w+)", err)
        return "does-not-parse:" + (m.group(1) if m else "unknown")
    a, b = stmt.get("sql") or "", stmt.get("rerendered") or ""
    unq = lambda t: re.sub(r"INTERVAL '(\d+)'", r"INTERVAL \1", t)
    if unq(a) == unq(b):
        return "not-fixed-point:interval-literal-quoting"
    up = lambda t: re.sub(r"EXTRACT\((\w+) FROM", lambda m: "EXTRACT(" + m.group(1).upper() + " FROM", t)
    if up(unq(a)) == up(unq(b)):
        return "not-fixed-point:extract-unit-letter-case"
    ta, tb = _WORD.findall(a), _WORD.findall(b)
    for x, y in zip(ta, tb):
        if x != y:
            return f"not-fixed-point:{x[:14]}>{y[:14]}"
    return "not-fixed-point:length"


ALIASING_STEPS = ("select", "withColumn", "rename", "toDF", "agg", "unpivot", "fillna", "replace", "drop", "dropna", "dropDup")


def case_sensitive_dialect(dialect: str) -> bool:
    """does the dialect resolve QUOTED identifiers case-sensitively (Snowflake, Postgres, ...)?  Read from sqlglot."""
    from sqlglot.dialects.dialect import Dialect, NormalizationStrategy
    try:
        return Dialect.get_or_raise(dialect).NORMALIZATION_STRATEGY in (NormalizationStrategy.UPPERCASE, NormalizationStrategy.LOWERCASE)
    except Exception:
        return False


def alias_case_clauses(sql: str, dialect: str) -> list:
    """ROOT CAUSE of the display-alias defect, read off the emitted statement: the clauses (order/where/group/having) of a
    SELECT that name an identifier K while the select list of the SAME SELECT carries an alias A with lower(K) = lower(A), K <> A
    (and K is not itself an alias there).  On a dialect that resolves quoted identifiers case-sensitively K then denotes the
    input column, or nothing at all, instead of the output column the program's orderBy/where meant."""
    import sqlglot
    from sqlglot import exp
    try:
        tree = sqlglot.parse_one(sql, read=dialect)
    except Exception:
        return []
    hits = []
    for sel in tree.find_all(exp.Select):
        aliases = {e.alias for e in sel.expressions if isinstance(e, exp.Alias)}
        if not aliases:
            continue
        low = {}
        for a in aliases:
            low.setdefault(a.lower(), set()).add(a)
        for clause in ("order", "where", "group", "having"):
            node = sel.args.get(clause)
            if node is None:
                continue
            for col in node.find_all(exp.Column):
                if col.find_ancestor(exp.Select) is not sel:
                    continue
                k = col.name
                if k not in aliases and low.get(k.lower()):
                    hits.append(clause)
    return sorted(set(hits))


def aliases_then_orders(steps) -> bool:
    """shape predicate on the PROGRAM: a step that gives an output column its name (select/withColumn/rename/toDF/agg/...)
    followed, later, by an orderBy (the clause the compiler writes into the open SELECT without wrapping)"""
    seen = False
    for s in steps:
        if s[0] in ALIASING_STEPS:
            seen = True
        elif s[0] == "orderBy" and seen:
            return True
    return False


def display_alias_case(dialect: str, steps, stmts) -> str | None:
    """signature of the display-alias letter-case defect when program shape AND emitted statement show its root cause
    (whatever the symptom: statement rejected, or silently ordered by the input column)"""
    if not case_sensitive_dialect(dialect) or (steps is not None and not aliases_then_orders(steps)):
        return None
    clauses = []
    for st in stmts or []:
        if st.get("sql"):
            clauses += alias_case_clauses(st["sql"], dialect)
    if not clauses:
        return None
    if "order" in clauses:
        return f"C12/{dialect}/order-by-key-vs-display-alias-case"
    return f"C12/{dialect}/{'+'.join(sorted(set(clauses)))}-key-vs-display-alias-case"


def classify_core(engine, steps, ent, verdict):
    """-> (kind, signature, what) for an engine-vs-DuckDB disagreement on a relational-core case (None = agree)"""
    es, ed, dom, eraised, draised = (ch == "1" for ch in verdict[2:])
    if draised:
        return None, None, None          # the DuckDB session itself failed: C01's business, nothing to compare with
    err = ent.get("exc") or ""
    stmts = ent.get("statements") or []
    bad = [s for s in stmts if not s["parse"] or not s["fixed_point"]]
    if bad:
        return "deviation", f"C12/{engine}/core:{invalid_shape(bad[0])}", \
            "a relational-core statement does not parse in the execution dialect / re-rendering its parse changes it"
    if eraised or not ed:
        sig = display_alias_case(engine, steps, stmts)
        if sig:
            return "deviation", sig, ("a clause of the final SELECT names the dialect-normalised identifier while the select list of the same SELECT "
                                      "was re-aliased to the display name of another letter case: "
                                      + ("the engine rejects the statement" if eraised else "the key binds to the input column, rows come in another order"))
    if eraised:
        kind = err.split(":")[2] if err.count(":") >= 2 else "unknown"
        return "deviation", f"C12/{engine}/statement-rejected:{kind}", \
            "the engine (dialect reader) rejects the statement while the DuckDB session answers"
    if not ed:
        return "deviation", f"C12/{engine}/rows-or-names-differ:" + ">".join(s[0] for s in steps[-3:]), \
            "rows / column order / names differ from the DuckDB session"
    return None, None, None


def run(ctx: core.Ctx):
    ctx.level = "other"
    # ---- T1
    info = None
    try:
        text, facts, info = c12_facts.generate(core.REPO)
        ctx.gen("C12Facts", text, facts)
        t1_ok = True
    except Exception as ex:
        ctx.broken("T1:c12_facts", f"{type(ex).__name__}: {ex}")
        t1_ok = False
    try:
        text1, facts1 = c01_facts.generate(core.REPO)
        ctx.gen("C01Facts", text1, [f for f in facts1 if f["name"] in ("wrap_needed_df", "kind_of", "limit_merge")])
        c01_ok = True
    except Exception as ex:
        # C12 needs only the clause configuration and the decorator table of Gen.C01Facts: regenerate that part from c01_facts'
        # own component translators; only if THAT fails is C12's tie broken (the rest of c01_facts is C01's to report)
        try:
            ctx.gen("C01Facts", c12_facts.c01_core_text(core.REPO),
                    [{"name": "C01Facts (core part only)", "note": f"c01_facts.generate failed elsewhere: {type(ex).__name__}: {ex}"}])
            ctx.log(f"note: translate/c01_facts.generate failed in a part C12 does not use ({ex}); clause configuration regenerated from its components")
            c01_ok = True
        except Exception as ex2:
            ctx.broken("T1:c01_facts", f"{type(ex2).__name__}: {ex2}")
            c01_ok = False
            ctx.gen("C01Facts", open(core.VERIF + "/translate/c01_facts_pinned.v").read())
    # ---- proofs
    proved = False
    deps = ["Base/Val.v", "Base/Expr.v", "Base/Sort.v", "Sql/Block.v", "Sql/Norm.v", "Model/Chain.v", "Model/ChainProof.v",
            "Model/ChainCheck.v", "C12/Engines.v", "C12/EngineCheck.v"]
    if t1_ok:
        proved = ctx.prove([ctx.build + "/gen/C01Facts.v", ctx.build + "/gen/C12Facts.v", core.COQ + "/props/C12.v"],
                           dep_theories=deps)
    else:
        pinned = core.VERIF + "/translate/c12_facts_pinned.v"
        ctx.coqc(ctx.build + "/gen/C01Facts.v")
        if os.path.exists(pinned):
            ctx.gen("C12Facts", open(pinned).read())
            ctx.coqc(ctx.build + "/gen/C12Facts.v")
    facts_compiled = os.path.exists(ctx.build + "/gen/C12Facts.vo")

    # ---- T3: requests
    rnd = random.Random(ctx.seed)
    engines = pick_engines(ctx)
    progs, n_exh = c01.make_programs(ctx)
    corpus, exh, rand = progs[:5], progs[5:5 + n_exh], progs[5 + n_exh:]
    n_e, n_r = (16, 24) if ctx.tier == "quick" else (100, 200)
    chosen = corpus + rnd.sample(exh, min(n_e, len(exh))) + rnd.sample(rand, min(n_r, len(rand)))
    programs, tables_for, sql_dialects, plans = [], {}, {}, {}
    tnames = list(c01.TABLES)
    for pid, steps in enumerate(chosen):
        (mode, lim), steps = c01.plan_mode(steps)
        if not steps:
            continue
        plans[pid] = (mode, lim, steps)
        programs.append([pid, steps])
        tables_for[str(pid)] = ["t1"] + ([tnames[pid % len(tnames)]] if tnames[pid % len(tnames)] != "t1" else ["t2"]) \
            if ctx.tier == "quick" else tnames
        if pid % (4 if ctx.tier == "quick" else 2) == 0:
            sql_dialects[str(pid)] = [ENGINES[(pid // 2 + k) % len(ENGINES)] for k in range(2)]
    action_programs = [[pid, steps] for pid, steps in programs[:3 if ctx.tier == "quick" else 12]]
    fn_names = sorted((info or {}).get("functions", {})) if info else []
    # function calls: every typed template (all engine-sensitive functions -- those that read the session, an alternative or
    # another dispatched function, T1 -- and the rest) on all seven engines, in both tiers (about 15 s)
    calls, sensitive, not_templated = function_calls(info, ctx.tier)
    # the relational-core programs run on DuckDB + 3 rotating engines in the quick tier -- on all of them when a proof / T1 item broke
    core_engines = engines if proved else list(ENGINES)
    if not proved and ctx.tier == "quick":
        ctx.log("a proof / T1 item broke: escalating the relational-core programs to all engines")
    base_req = {"tables": {k: [list(r) for r in v] for k, v in c01.TABLES.items()}, "calls": calls, "solo_ids": solo_ids(calls),
                "dispatch_names": fn_names + ["no_such_function_c12"], "programs": [], "tables_for": {}, "sql_dialects": {},
                "action_programs": []}
    core_req = dict(base_req, programs=programs, tables_for=tables_for, sql_dialects=sql_dialects, action_programs=action_programs)
    ctx.log(f"core engines {core_engines}; {len(programs)} programs ({len(corpus)} corpus, {n_e} of {n_exh} bounded-exhaustive, {n_r} random); "
            f"{len(calls)} function calls on all {len(ENGINES)} engines")
    with ThreadPoolExecutor(max_workers=min(8, len(ENGINES))) as ex:
        results = dict(zip(ENGINES, ex.map(lambda e: run_worker(e, core_req if e in core_engines else base_req), ENGINES)))
    engines = core_engines
    ctx.coverage["functions_not_templated"] = not_templated
    for e, r in results.items():
        if "fatal" in r:
            ctx.broken(f"T3:worker:{e}", r["fatal"][-1500:])
    results = {e: r for e, r in results.items() if "fatal" not in r}
    duck = results.get("duckdb")
    if duck is None:
        return
    ctx.log("workers done")

    # ---- T3a: session facts, action counts, exports, dispatch  (model's answers computed by Coq)
    if facts_compiled:
        check_facts(ctx, results, info, fn_names)
    # ---- T3b: relational-core cases (Coq computes the verdicts)
    items, metas = [], []
    duck_by = {(c["pid"], c["table"]): c for c in duck["cases"]}
    hist_engine, hist_len, hist_kind, hist_mode = {}, {}, {}, {}
    for e, r in results.items():
        for c in r["cases"]:
            mode, lim, steps = plans[c["pid"]]
            d = duck_by.get((c["pid"], c["table"]))
            rows = c01.TABLES[c["table"]]
            cm = {"seq": "XSeq", "bag": "XBag", "sub": f"(XSubOf {natlit(lim if isinstance(lim, int) else 0)})",
                  "dedup": "(XDedup " + listlit([strlit(x) for x in (lim if isinstance(lim, list) else [])]) + ")"}[mode]
            exported = f"(Some {c['exported']})" if c.get("exported") else "None"
            try:
                impl = coq_result(c["cols"], c["rows"])
                dref = coq_result(d["cols"], d["rows"]) if d else "None"
            except rel.NotExportable as ne:
                ctx.broken("T3:value-not-exportable", str(ne))
                continue
            base = f"{rel.frame_coq(c01.COLS0, rows)} {listlit([c01.step_coq(s) for s in steps])} {cm}"
            items.append(f"({CTOR[e]}, mkECase {base} {exported} {impl} {dref})")
            metas.append({"engine": e, "via": "collect", "ent": c, "steps": steps, "mode": mode, "table": c["table"]})
            hist_engine[e] = hist_engine.get(e, 0) + 1
            hist_len[len(steps)] = hist_len.get(len(steps), 0) + 1
            hist_mode[mode] = hist_mode.get(mode, 0) + 1
            for s in steps:
                hist_kind[s[0]] = hist_kind.get(s[0], 0) + 1
            for x, sr in (c.get("sql") or {}).items():
                try:
                    impl_x = coq_result(sr.get("cols"), sr.get("rows")) if not sr.get("error") else "None"
                except rel.NotExportable:
                    continue
                items.append(f"({CTOR[e]}, mkECase {base} {exported} {impl_x} {dref})")
                metas.append({"engine": e, "via": "df.sql(dialect=" + x + ")", "dialect": x, "ent": dict(sr, exc=sr.get("error"), statements=[
                    {"parse": sr["parse"], "fixed_point": sr["fixed_point"], "sql": sr.get("text"), "rerendered": sr.get("rerendered")}]),
                              "steps": steps, "mode": mode, "table": c["table"]})
                hist_engine["df.sql:" + x] = hist_engine.get("df.sql:" + x, 0) + 1
    res = ctx.cases("c12", HEADER, items, per_file=60 if ctx.tier == "quick" else 150, result_ty="str", fn="check") if facts_compiled and items else []
    n_t2 = n_nontriv = n_agree = 0
    t2_fail, model_fail, reader_notes = [], [], []
    for it, m, r in zip(items, metas, res):
        if r is None or len(r) != 7 or "?" in r:
            if r is not None and "?" in r and not any(b["name"] == "T3:engine-has-no-cfg:" + m["engine"] for b in ctx.brokens):
                ctx.broken("T3:engine-has-no-cfg:" + m["engine"], f"{m['engine']}: cfg_of is None (the engine package overrides a core method)")
            continue
        t2 = {"1": True, "0": False, "2": None}[r[0]]
        em = {"1": True, "0": False, "2": None}[r[1]]
        es, ed, dom, eraised, draised = (ch == "1" for ch in r[2:])
        n_t2 += bool(t2)
        eng = m.get("dialect", m["engine"])
        desc = {"engine": m["engine"], "via": m["via"], "program": [c01.step_str(s) for s in m["steps"]], "table": m["table"],
                "rows": c01.TABLES[m["table"]], "mode": m["mode"],
                "verdict(t2,engine=model,engine=spec,engine~duck,in_domain,engine_raised,duck_raised)": r,
                "engine_columns": m["ent"].get("cols"), "engine_rows": m["ent"].get("rows"), "engine_exception": m["ent"].get("exc"),
                "statements": [{k: s.get(k) for k in ("sql", "parse", "fixed_point", "error", "rerendered")} for s in (m["ent"].get("statements") or [])],
                "steps_json": m["steps"]}
        kind, sig, what = classify_core(eng, m["steps"], m["ent"], r)
        if kind == "deviation":
            ctx.deviation(sig, f"[{m['engine']} {m['via']}] {what}", desc)
        else:
            n_agree += ed
            if m["via"] == "collect" and t2 is False:
                t2_fail.append(desc)
            if ed and es and em is False:
                model_fail.append(desc)
        if c01.TABLES[m["table"]] and len(m["steps"]) >= 2:
            n_nontriv += 1
        if len(ctx.samples) < 4 and len(m["steps"]) >= 3 and m["table"] != "empty" and m["engine"] != "duckdb":
            ctx.sample({"engine": m["engine"], "via": m["via"], "program": desc["program"], "table": m["table"], "verdict": r,
                        "statement": (desc["statements"] or [{}])[0].get("sql")})
    if t2_fail:
        ctx.broken("T2:engine-tree-vs-model", f"{len(t2_fail)} cases whose engine-session tree differs from the model's normal form; "
                   f"first: {t2_fail[0]['engine']} {t2_fail[0]['program']}", data=t2_fail[:4])
    if model_fail:
        ctx.broken("T3:impl-vs-model", f"{len(model_fail)} cases where the engine equals the spec but not the model; "
                   f"first: {model_fail[0]['engine']} {model_fail[0]['program']}", data=model_fail[:4])

    # ---- T3c: alias-case probes and function sample, engine vs DuckDB session (Python comparison; evidence only)
    probe_res = compare_probes(ctx, results, duck)
    fn_res = compare_functions(ctx, results, duck, sensitive if info else None)
    # ---- T3d: actions
    act_res = check_actions(ctx, results, plans)

    ctx.coverage.update({
        "evaluations": len(items) + fn_res["calls"] + probe_res["compared"] + act_res["actions"],
        "distinct_nontrivial": n_nontriv,
        "rule": "case = (engine or df.sql dialect, program, table); programs = C01's corpus + a seeded sample of its bounded-exhaustive pairs "
                "and typed random programs; non-trivial = non-empty table and >= 2 operations; plus function-sample, probe and action runs",
        "engines_this_run": engines, "programs": len(programs), "core_cases": len(items), "core_agree_with_duckdb": n_agree,
        "t2_engine_tree_equals_model": n_t2,
        "histogram_engine": hist_engine, "histogram_program_length": hist_len, "histogram_operation_kind": hist_kind,
        "histogram_compare_mode": hist_mode,
        "function_calls": fn_res, "alias_case_probes": probe_res, "actions": act_res,
        "session_init_statements_not_judged": {e: [s["sql"][:60] for s in r["session"]["init_statements"]] for e, r in results.items()
                                               if r["session"]["init_statements"]},
        "explanation": "PARTIAL. Proved (Coq, all engines/programs/sessions/action sequences): engine independence of the relational core, "
                       "dialect plumbing, function dispatch -- over facts regenerated from /repo. NOT proved: that a rendered statement parses in and "
                       "denotes the same rows on the real engines; that half is T3 evidence through sqlglot as dialect reader + DuckDB.",
    })
    sigs = {}
    for d in ctx.deviations:
        sigs[d["signature"]] = sigs.get(d["signature"], 0) + 1
    ctx.log("deviation signatures: " + json.dumps(sigs, sort_keys=True))
    ctx.coverage["deviation_signatures"] = sigs
    ctx.assumptions += [
        "the dialect READER (sqlglot parse in the engine's dialect, transpile to DuckDB, identifiers case-encoded where the dialect resolves "
        "quoted identifiers case-sensitively) stands in for BigQuery/Snowflake/Postgres/Databricks/Spark/Redshift; it is evidence, never a premise of a theorem",
        "Sql.Block.eval_block / Chain.spec_step as in C01",
        "hand-built statement strings are composed only of literal text and of the renders (_to_sql / df.sql) of the same method (plumbing model)",
        "catalog / reader / UDF code paths are outside the plumbing model (only DataFrame and writer actions are modelled)",
    ]
    ctx.trusted += ["translate/c12_facts.py (fail-closed ast translator; its output is also compared with the live session classes in T3a)"]


# --------------------------------------------------------------------------------------------------

def check_facts(ctx, results, info, fn_names):
    engs = list(results)
    # session lines
    lines = ctx.cases("c12s", HEADER_FACTS, [CTOR[e] for e in engs], result_ty="str", fn="session_line")
    order = c12_facts.ENGINES
    for e, line in zip(engs, lines):
        if line is None:
            continue
        s = results[e]["session"]
        flags = "".join("1" if s["flags"][x] else "0" for x in order)
        real = ";".join([s["input"], s["output"], s["execution"], flags, s["sanitize"]])
        if real != line:
            ctx.broken("T3:session-facts", f"{e}: live session class says {real}, generated facts say {line}")
    cl = ctx.cases("c12c", HEADER_FACTS, [CTOR[e] for e in engs], result_ty="str", fn="cfg_line")
    for e, line in zip(engs, cl):
        if line == "0":
            ctx.broken("T3:engine-has-no-cfg:" + e, f"{e}: cfg_of is None (the engine package overrides a core method)")
    # statement counts per action
    acts = ["collect", "count", "head", "first", "isEmpty", "show", "explain", "createOrReplaceTempView", "saveAsTable"]
    pairs = [(e, a) for e in engs for a in acts]
    counts = ctx.cases("c12a", HEADER_FACTS, [f"({CTOR[e]}, {strlit(a)})" for e, a in pairs], result_ty="str", fn="count_line")
    model = {p: (None if c is None or c == "?" else len(c)) for p, c in zip(pairs, counts)}
    for e in engs:
        results[e]["model_counts"] = {a: model[(e, a)] for a in acts}
    # exports
    exps = ctx.cases("c12e", HEADER_FACTS, [CTOR[e] for e in engs], result_ty="str", fn="exports_line")
    for e, line in zip(engs, exps):
        if line is None:
            continue
        m, real = set(line.split(",")) - {""}, set(results[e]["exported"])
        if m != real:
            ctx.broken("T3:exports", f"{e}: module exports differ from the model: only in module {sorted(real - m)[:8]}, only in model {sorted(m - real)[:8]}")
    # dispatch
    names = fn_names + ["no_such_function_c12"]
    pairs = [(e, n) for e in engs for n in names]
    dl = ctx.cases("c12d", HEADER_FACTS, [f"({CTOR[e]}, {strlit(n)})" for e, n in pairs], per_file=700, result_ty="str", fn="dispatch_line")
    bad = []
    for (e, n), line in zip(pairs, dl):
        if line is None:
            continue
        real = ";".join(results[e]["dispatch"].get(f"{n}|{fb}", "?") for fb in (1, 0))
        if real != line:
            bad.append((e, n, real, line))
    if bad:
        ctx.broken("T3:dispatch", f"{len(bad)} (engine, name) pairs where get_func_from_session differs from the model; first: {bad[0]}", data=bad[:10])
    ctx.coverage["dispatch_pairs_compared"] = len(pairs)


def compare_probes(ctx, results, duck):
    dref = {p["probe"]: p for p in duck["probes"]}
    out = {"compared": 0, "agree": 0, "differ": {}}
    for e, r in results.items():
        if e == "duckdb":
            continue
        # the DOCUMENTED sanitising table (props/C12.v documented_sanitising): only BigQuery rewrites ( and ) in generated names
        sanitize = (lambda n: n.replace("(", "_").replace(")", "_")) if e == "bigquery" else (lambda n: n)
        for p in r["probes"]:
            d = dref[p["probe"]]
            if d["exc"]:
                continue
            out["compared"] += 1
            same = (not p["exc"] and [c.lower() for c in p["cols"]] == [sanitize(c).lower() for c in d["cols"]]
                    and [pyval(x) for x in p["rows"]] == [pyval(x) for x in d["rows"]])
            if same:
                out["agree"] += 1
                continue
            out["differ"].setdefault(e, []).append(p["probe"])
            desc = {"engine": e, "probe": p["probe"], "table": "t1", "rows": c01.TABLES["t1"], "engine_columns": p["cols"],
                    "engine_rows": p["rows"], "engine_exception": p["exc"], "duckdb_columns": d["cols"], "duckdb_rows": d["rows"],
                    "statements": [{k: s.get(k) for k in ("sql", "parse", "fixed_point", "error")} for s in p["statements"]]}
            if any(not s["parse"] or not s["fixed_point"] for s in p["statements"]):
                ctx.deviation(f"C12/{e}/probe-statement-invalid:{p['probe']}", "statement does not parse / is not a fixed point", desc)
            elif display_alias_case(e, None, p["statements"]):
                ctx.deviation(display_alias_case(e, None, p["statements"]),
                              f"[{e}] a clause of the final SELECT names the dialect-normalised identifier while the select list carries the "
                              f"display-name alias of another letter case ({p['probe']})", desc)
            else:
                ctx.deviation(f"C12/{e}/probe-differs:{p['probe']}", "differs from the DuckDB session", desc)
    return out


RANK = {"agree": 3, "names-differ": 2, "differ": 1, "rejected": 1, "duck-unsupported": 0, None: 0}
_IDENT = re.compile(r"^\w+$")


def _cv(v, unordered=False):
    """canonical value of c17_cases.canon -> comparable python value (floats to 9 significant digits)"""
    if isinstance(v, dict):
        if "f" in v:
            if v["f"] == "nan":
                return ("f", "nan")
            x = float.fromhex(v["f"])
            return ("f", float(f"{x:.9g}"))
        if "dec" in v:
            return ("f", float(f"{float(v['dec']):.9g}"))
        if "ts" in v:
            return ("ts", v["ts"])
        if "date" in v:
            return ("ts", v["date"] + " 00:00:00.000000")
        return ("o", json.dumps(v, sort_keys=True))
    if isinstance(v, list):
        xs = [_cv(x) for x in v]
        return tuple(sorted(xs, key=repr)) if unordered else tuple(xs)
    if isinstance(v, bool):
        return v
    if isinstance(v, int):
        return ("f", float(f"{float(v):.9g}")) if abs(v) < 2 ** 53 else v
    return v


def function_outcome(f, d) -> str:
    """agree | names-differ | differ | rejected | duck-unsupported : the engine session's values (through the dialect reader) and
    the result column name vs the DuckDB session's.  Names are compared only when both are plain identifiers (an alias sqlframe or
    the caller gave); the text an engine invents for an unaliased expression is not the reader's to judge."""
    from checks import c17_cases as K
    if d is None or d["exc"]:
        return "duck-unsupported"
    if f["exc"]:
        return "rejected"
    un = f["fn"] in K.UNORDERED
    if [_cv(x, un) for x in f["values"]] != [_cv(x, un) for x in d["values"]]:
        return "differ"
    a, b = f.get("name") or "", d.get("name") or ""
    if _IDENT.match(a) and _IDENT.match(b) and a.lower() != b.lower():
        return "names-differ"
    return "agree"


def load_baseline(key="outcomes"):
    path = os.path.join(core.VERIF, "oracle", "c12_function_baseline.json")
    try:
        with open(path) as fh:
            return json.load(fh).get(key, {})
    except OSError:
        return {}


def text_shape(f):
    """None when every statement of the call parses and is a fixed point, else the shape of the first one that is not"""
    bad = [s for s in f["statements"] if not s["parse"] or not s["fixed_point"]]
    if bad and not (f["exc"] or "").startswith("build:"):
        return invalid_shape(bad[0]), bad[0]
    return None, None


UNDEC = "undecided(reader cannot judge; same in the recorded baseline)"


def compare_functions(ctx, results, duck, sensitive=None):
    baseline = load_baseline()
    text_base = load_baseline("text")
    known_ids = {c for e2, d2 in baseline.items() for c in d2}
    dref = {f["id"]: f for f in duck["functions"]}
    out = {"text_shapes": {}, "calls": 0, "compared": 0, "agree": 0, "per_engine": {}, UNDEC: [], "not_in_baseline": [], "not_supported_on_duckdb": 0}
    for e, r in results.items():
        pe = {"calls": 0, "agree": 0, "names-differ": 0, "rejected": 0, "differ": 0}
        for f in r["functions"]:
            d = dref.get(f["id"])
            pe["calls"] += 1
            out["calls"] += 1
            shape, bad = text_shape(f)
            if shape:
                rec = text_base.get(e, {}).get(f["id"])
                if f["id"] not in known_ids:
                    out["not_in_baseline"].append({"engine": e, "call": f["id"], "outcome": "text:" + shape})
                    continue
                kind = "does-not-parse" if shape.startswith("does-not-parse") else "not-a-fixed-point"
                # known only as far as the recorded table says so: same engine, same call, same shape of difference
                sig = f"C12/{e}/function-text:recorded-{kind}" if rec == shape else f"C12/{e}/function-text-regression:{f['fn']}:{shape}"
                out["text_shapes"].setdefault(e, {}).setdefault(shape, 0)
                out["text_shapes"][e][shape] += 1
                ctx.deviation(sig, f"[{e}] {f['id']}: the statement " + ("does not parse" if kind == "does-not-parse" else "is not a fixed point of parse+render")
                              + f" in the {e} dialect ({shape}" + ("" if rec == shape else f"; recorded on the unchanged tree: {rec or 'valid fixed point'}") + ")",
                              {"engine": e, "function": f["fn"], "call": f["id"], "statement": bad.get("sql"),
                               "rerendered": bad.get("rerendered"), "error": bad.get("error"), "shape": shape, "recorded_shape": rec})
            if e == "duckdb":
                continue
            o = function_outcome(f, d)
            if o == "duck-unsupported":
                out["not_supported_on_duckdb"] += 1
                continue
            out["compared"] += 1
            pe[o] = pe.get(o, 0) + 1
            out["agree"] += o == "agree"
            b = baseline.get(e, {}).get(f["id"])
            if b is None:
                if o != "agree":
                    out["not_in_baseline"].append({"engine": e, "call": f["id"], "outcome": o})
                continue
            if RANK[o] < RANK[b]:
                # on the unchanged tree this call agreed with the DuckDB session through the same reader
                ctx.deviation(f"C12/{e}/function-regression:{f['fn']}",
                              f"[{e}] {f['id']}: " + {"rejected": "the engine (dialect reader) now rejects the statement",
                                                      "differ": "the values now differ from the DuckDB session's",
                                                      "names-differ": "the result column is now named differently than on the DuckDB session"}[o]
                              + f" (recorded baseline of the unchanged tree: {b})",
                              {"engine": e, "function": f["fn"], "call": f["id"], "engine_exception": f["exc"], "engine_values": f["values"],
                               "duckdb_values": d["values"], "engine_name": f.get("name"), "duckdb_name": d.get("name"),
                               "statement": (f["statements"] or [{}])[-1].get("sql"), "tree_same_as_duckdb_session": f.get("tree") == d.get("tree")})
            elif o != "agree":
                out[UNDEC].append({"engine": e, "call": f["id"], "outcome": o, "exception": (f["exc"] or "")[:120]})
        out["per_engine"][e] = pe
    # ---- emitted text of the engine-specific branches vs the recorded one (T1-like tie; values may still agree through the reader)
    expr_base = load_baseline("expr")
    changed = {}
    for e, r in results.items():
        rec = expr_base.get(e, {})
        for f in r["functions"]:
            if sensitive is not None and f["fn"] not in sensitive:
                continue
            was, now = rec.get(f["id"]), f.get("expr")
            if was is not None and now is not None and was != now:
                changed.setdefault((e, f["fn"]), []).append({"call": f["id"], "recorded": was, "now": now})
    out["emitted_text_compared"] = sum(len(expr_base.get(e, {})) for e in results)
    out["emitted_text_changed"] = {f"{e}:{fn}": len(v) for (e, fn), v in sorted(changed.items())}
    for n, ((e, fn), v) in enumerate(sorted(changed.items())):
        if n >= 12:
            ctx.broken("T1:emitted-text:more", f"{len(changed) - 12} more (function, engine) pairs whose emitted text changed", data=out["emitted_text_changed"])
            break
        ctx.broken(f"T1:emitted-text:{e}:{fn}",
                   f"F.{fn} on {e}: the text its engine branch emits changed for {len(v)} recorded call(s); first {v[0]['call']}: "
                   f"recorded `{v[0]['recorded'][:160]}` now `{v[0]['now'][:160]}` (the dialect reader may not be able to tell the two apart; "
                   f"re-record oracle/c12_function_baseline.json only if the change is intended and right for {e})", data=v[:6])
    out["undecided_count"] = len(out[UNDEC])
    out[UNDEC] = out[UNDEC][:60]
    return out


def check_actions(ctx, results, plans):
    out = {"actions": 0, "count_equals_model": 0, "statements": 0}
    for e, r in results.items():
        mc = r.get("model_counts", {})
        for a in r["actions"]:
            out["actions"] += 1
            out["statements"] += len(a["statements"])
            desc = {"engine": e, "action": a["action"], "exception": a["exc"],
                    "statements": [{k: s.get(k) for k in ("sql", "parse", "fixed_point", "error", "rerendered")} for s in a["statements"]]}
            steps = plans[a["pid"]][2]
            desc["program"] = [c01.step_str(x) for x in steps]
            desc["steps_json"] = steps
            desc["table"] = "t1"
            bad = [s for s in a["statements"] if not s["parse"] or not s["fixed_point"]]
            if bad:
                ctx.deviation(f"C12/{e}/action:{invalid_shape(bad[0])}", f"[{e}] {a['action']}(): statement does not parse / is not a fixed point", desc)
                continue
            if a["exc"] and not a["exc"].startswith("NotImplementedError"):
                sig = display_alias_case(e, steps, a["statements"])
                if sig:
                    ctx.deviation(sig, f"[{e}] {a['action']}(): a clause of the final SELECT names the normalised identifier, the select list the "
                                       f"display alias of another letter case", desc)
                else:
                    ctx.deviation(f"C12/{e}/action-raises:{a['action']}", f"[{e}] {a['action']}() raises {a['exc'][:80]}", desc)
                continue
            exp = mc.get(a["action"])
            if a["action"] in mc and exp is not None and not a["exc"]:
                # the model ignores conditions inside a method, so it over-approximates: every statement that reaches the cursor
                # must come from a modelled site
                if exp == len(a["statements"]):
                    out["count_equals_model"] += 1
                elif len(a["statements"]) > exp or (exp > 0 and not a["statements"]):
                    ctx.broken("T3:action-statement-count", f"{e}.{a['action']}: {len(a['statements'])} statements reached the cursor, the model says {exp}", data=desc)
    return out


def replay(ctx: core.Ctx, rp: dict) -> int:
    """re-run the case of a replay file on /repo's current tree through the engine's real session class"""
    r = rp.get("replay") or rp
    engine = r["engine"]
    tables = {k: [list(x) for x in v] for k, v in c01.TABLES.items()}
    if "steps_json" in r:
        req = {"tables": tables, "programs": [[0, r["steps_json"]]], "tables_for": {"0": [r["table"]]}, "sql_dialects": {}}
        if r.get("via", "collect").startswith("df.sql"):
            req["sql_dialects"] = {"0": [r["via"][len("df.sql(dialect="):-1]]}
    else:
        fns = set(r.get("functions") or ([r["function"]] if "function" in r else []))
        calls, _, _ = function_calls(None)
        req = {"tables": tables, "programs": [], "tables_for": {},
               "calls": [c for c in calls if c["id"] == r.get("call") or (not r.get("call") and c["fn"] in fns)]}
    for e in (engine, "duckdb"):
        res = run_worker(e, req)
        if "fatal" in res:
            print(res["fatal"])
            return 2
        print(f"== {e}")
        for c in res["cases"]:
            print("columns:", c["cols"], "rows:", c["rows"], "exception:", c["exc"])
            for s in c["statements"]:
                print("  statement:", s["sql"])
                print("  parses:", s["parse"], "fixed point:", s["fixed_point"], "reader error:", s["error"])
            for x, sr in (c.get("sql") or {}).items():
                print(f"  df.sql(dialect={x}):", sr.get("cols"), sr.get("rows"), sr.get("error"))
        for f in res.get("functions", []):
            print(f["id"], "name:", f.get("name"), "values:", f.get("values"), "exception:", f["exc"])
            for st in f["statements"]:
                print("  statement:", st["sql"])
                print("  parses:", st["parse"], "fixed point:", st["fixed_point"], "re-rendered:", st.get("rerendered"), "reader error:", st["error"])
        if "probe" in r:
            for p in res["probes"]:
                if p["probe"] == r["probe"]:
                    print("probe", p["probe"], "columns:", p["cols"], "rows:", p["rows"], "exception:", p["exc"])
                    for s in p["statements"]:
                        print("  statement:", s["sql"])
    print("recorded verdict:", r.get("verdict(t2,engine=model,engine=spec,engine~duck,in_domain,engine_raised,duck_raised)"))
    return 0
