"""C13 -- temp views and session.sql interoperate faithfully with DataFrames (DuckDBSession).

T1  translate/c13_facts.py -> Gen/C13Facts.v  (add-if-absent schema cache; what createOrReplaceTempView stores and
                                               under which key; reader.table looks at temp views first; shape of the splice)
Prf coq/props/C13.v        -> splice_sound (all query trees / registries / environments), register_lookup,
                              rereg_last_wins, earlier_frames_unchanged (all histories), refutation witnesses
T3  histories (<= 6 steps quick) of register / re-register / table / sql / where / join-back / observe over up to 3 view
    names with case variants x generated SELECTs (projection, filter, join, aggregate, CTE, sub-query):
      implementation (fresh DuckDBSession per history, checks/c13_worker.py)
        == Coq model machine (C13/Session.v)             [ctx.cases]
        == Coq value-semantics spec                       [ctx.cases]
        == DuckDB's own answer with every DataFrame materialised as a temp table on a separate connection
"""
from __future__ import annotations

import json
import os
import random
import re
import subprocess

from vlib import core, rel
from vlib.core import strlit, listlit, natlit, boollit
from translate import c13_facts

HEADER = """From SF Require Import C13.ViewsCheck.
From Gen Require Import C13Facts.
Open Scope string_scope.
Definition check := ViewsCheck.check gen_cfg.
"""

# Wrap.v carries splice/freeze/session.sql soundness and the package C13_proved
DEPS = ["Base/Val.v", "Base/Expr.v", "Base/Sort.v", "Sql/Block.v", "Sql/Norm.v",
        "C13/Query.v", "C13/Splice.v", "C13/Session.v", "C13/Wrap.v", "C13/ViewsCheck.v"]

BASE = {
    "frames": [
        {"cols": ["a", "b"], "types": ["int", "int"], "rows": [[1, 2], [3, 4], [None, 5], [1, 2], [2, None]]},
        {"cols": ["a", "s"], "types": ["int", "str"], "rows": [[1, "x"], [3, "y"], [3, "z"], [None, "w"]]},
        {"cols": ["k", "c"], "types": ["int", "int"], "rows": [[1, 10], [2, 20], [2, 21]]},
        {"cols": ["b", "a"], "types": ["int", "int"], "rows": [[7, 1], [8, 3]]},
        {"cols": ["a", "b"], "types": ["int", "int"], "rows": []},
    ],
    "tables": {"bt": {"cols": ["a", "q"], "types": ["int", "int"], "rows": [[1, 100], [5, 6], [None, 7]]}},
}

SIG_STALE = "C13/stale-schema-cache-after-reregistering-with-different-columns"
SIG_HIJACK = "C13/user-cte-named-like-registered-view-is-hijacked"
SIG_CAPTURE = "C13/user-cte-name-captures-cte-embedded-in-view-chain"
SIG_STAR = "C13/select-star-over-uncached-table-keeps-star-column"
SIG_DUPCTE = "C13/identical-select-texts-in-one-query-give-duplicate-cte-name"
SIG_ALIASREF = "C13/select-alias-shadowing-an-input-column-is-expanded-into-where-while-schema-cache-empty"
SIG_ALIAS = "C13/column-alias-equal-to-a-cte-name-is-renamed-to-the-cte-hash"
SIG_REJOIN = "C13/joining-a-self-join-with-its-own-operand-again-multiplies-rows"
SIG_SELFREF = "C13/view-shadowing-the-table-it-reads-is-spliced-into-its-own-chain"
SIG_UNRESOLVED = "C13/unqualified-column-over-uncached-table-unresolvable-once-schema-cache-nonempty"


# ---- expressions ---------------------------------------------------------------------------------------

def e_sql(e) -> str:
    k = e[0]
    if k == "col":
        return e[1]
    if k == "lit":
        v = e[1]
        if v is None:
            return "NULL"
        if isinstance(v, str):
            return "'" + v + "'"
        return str(v) if v >= 0 else f"({v})"
    if k == "bin":
        sym = {"Add": "+", "Sub": "-", "Mul": "*", "Eq": "=", "Neq": "<>", "Lt": "<", "Le": "<=", "Gt": ">", "Ge": ">=",
               "And": "AND", "Or": "OR"}[e[1]]
        return f"({e_sql(e[2])} {sym} {e_sql(e[3])})"
    if k == "not":
        return f"(NOT {e_sql(e[1])})"
    if k == "isnull":
        return f"({e_sql(e[1])} IS NULL)"
    if k == "coalesce":
        return f"COALESCE({e_sql(e[1])}, {e_sql(e[2])})"
    if k == "if":
        return f"CASE WHEN {e_sql(e[1])} THEN {e_sql(e[2])} ELSE {e_sql(e[3])} END"
    raise ValueError(e)


def e_type(e, cols):
    k = e[0]
    if k == "col":
        return cols[e[1]]
    if k == "lit":
        return "str" if isinstance(e[1], str) else "int"
    if k == "bin":
        return "int" if e[1] in ("Add", "Sub", "Mul") else "bool"
    if k in ("not", "isnull"):
        return "bool"
    if k == "coalesce":
        return e_type(e[1], cols)
    if k == "if":
        return e_type(e[2], cols)
    raise ValueError(e)


class EGen:
    def __init__(self, rnd):
        self.r = rnd

    def int_e(self, cols, depth=1):
        r = self.r
        ints = [c for c, t in cols.items() if t == "int"]
        if depth == 0 or not ints or r.random() < 0.4:
            if ints and r.random() < 0.8:
                return ("col", r.choice(ints))
            return ("lit", r.choice([0, 1, 2, 3, -1]))
        k = r.random()
        if k < 0.6:
            return ("bin", r.choice(["Add", "Sub", "Mul"]), self.int_e(cols, depth - 1), self.int_e(cols, depth - 1))
        if k < 0.8:
            return ("coalesce", self.int_e(cols, depth - 1), ("lit", r.choice([0, 9])))
        return ("if", self.bool_e(cols, 0), self.int_e(cols, depth - 1), self.int_e(cols, depth - 1))

    def bool_e(self, cols, depth=1):
        r = self.r
        ints = [c for c, t in cols.items() if t == "int"]
        strs = [c for c, t in cols.items() if t == "str"]
        k = r.random()
        if depth > 0 and k < 0.2:
            return ("bin", r.choice(["And", "Or"]), self.bool_e(cols, depth - 1), self.bool_e(cols, depth - 1))
        if depth > 0 and k < 0.28:
            return ("not", self.bool_e(cols, depth - 1))
        if k < 0.45 and (ints or strs):
            e = ("isnull", ("col", r.choice(ints + strs)))
            return ("not", e) if r.random() < 0.5 else e
        if k < 0.58 and strs:
            return ("bin", r.choice(["Eq", "Neq", "Lt", "Ge"]), ("col", r.choice(strs)), ("lit", r.choice(["x", "y", "w", ""])))
        return ("bin", r.choice(["Eq", "Neq", "Lt", "Le", "Gt", "Ge"]), self.int_e(cols, 1), self.int_e(cols, 0))


# ---- queries -------------------------------------------------------------------------------------------
# sq   = ("sel", frm, [where], None | [(expr, alias)], distinct) | ("agg", frm, [where], [(col, alias)], [(fn, col, alias)])
# frm  = ("name", n) | ("unit",) | ("sub", sq) | ("join", l, la, r, ra, on)
# query= {"ctes": [(name, sq)], "main": sq}

def from_sql(f, joined=False):
    k = f[0]
    if k == "name":
        return f[1]
    if k == "sub":
        return "(" + sq_sql(f[1]) + ")" + ("" if joined else " AS s0")
    if k == "join":
        return f"{from_sql(f[1], True)} AS {f[2]} JOIN {from_sql(f[3], True)} AS {f[4]} ON {e_sql(f[5])}"
    raise ValueError(f)


def sq_sql(q) -> str:
    if q[0] == "sel":
        _, f, w, items, dist = q
        s = "SELECT " + ("DISTINCT " if dist else "")
        s += "*" if items is None else ", ".join(f"{e_sql(e)} AS {a}" for e, a in items)
    else:
        _, f, w, keys, aggs = q
        parts = [f"{c} AS {a}" for c, a in keys]
        parts += [("COUNT(*)" if fn == "count" else f"SUM({c})") + f" AS {a}" for fn, c, a in aggs]
        s = "SELECT " + ", ".join(parts)
    if f[0] != "unit":
        s += " FROM " + from_sql(f)
    if w:
        s += " WHERE " + " AND ".join(e_sql(x) for x in w)
    if q[0] == "agg" and q[3]:
        s += " GROUP BY " + ", ".join(c for c, _ in q[3])
    return s


def query_sql(q) -> str:
    s = ""
    if q["ctes"]:
        s = "WITH " + ", ".join(f"{n} AS ({sq_sql(b)})" for n, b in q["ctes"]) + " "
    return s + sq_sql(q["main"])


def from_coq(f) -> str:
    k = f[0]
    if k == "name":
        return f"(FName {strlit(f[1])})"
    if k == "unit":
        return "(FVal (mkFrame [] [[]]))"
    if k == "sub":
        return f"(FSub {sq_coq(f[1])})"
    if k == "join":
        return f"(FJoin {from_coq(f[1])} {strlit(f[2])} {from_coq(f[3])} {strlit(f[4])} {rel.e_coq(f[5])})"
    raise ValueError(f)


def sq_coq(q) -> str:
    if q[0] == "sel":
        _, f, w, items, dist = q
        it = "None" if items is None else "(Some " + listlit([f"({rel.e_coq(e)}, {strlit(a)})" for e, a in items]) + ")"
        return f"(QSel {from_coq(f)} {listlit([rel.e_coq(x) for x in w])} {it} {boollit(dist)})"
    _, f, w, keys, aggs = q
    ks = listlit([f"({strlit(c)}, {strlit(a)})" for c, a in keys])
    ag = listlit([f"({'ACountStar' if fn == 'count' else '(ASum ' + strlit(c) + ')'}, {strlit(a)})" for fn, c, a in aggs])
    return f"(QAgg {from_coq(f)} {listlit([rel.e_coq(x) for x in w])} {ks} {ag})"


def query_coq(q) -> str:
    return "(mkQuery " + listlit([f"({strlit(n)}, {sq_coq(b)})" for n, b in q["ctes"]]) + " " + sq_coq(q["main"]) + ")"


def selfref_cte(q) -> bool:
    """some CTE (transitively) reads a CTE name of the same list that leads back to it: DuckDB's treatment of such lists when
    the cycle is not reached from the main SELECT is not part of the engine model"""
    names = [n.lower() for n, _ in q["ctes"]]
    deps = {n.lower(): {m.lower() for m in sq_names(b) if m.lower() in names} for n, b in q["ctes"]}
    for n in names:
        seen, todo = set(), [n]
        while todo:
            for m in deps.get(todo.pop(), ()):
                if m == n:
                    return True
                if m not in seen:
                    seen.add(m)
                    todo.append(m)
    return False


def from_names(f):
    k = f[0]
    if k == "name":
        return [f[1]]
    if k == "sub":
        return sq_names(f[1])
    if k == "join":
        return from_names(f[1]) + from_names(f[3])
    return []


def sq_names(q):
    return from_names(q[1])


# ---- history generator ---------------------------------------------------------------------------------

VARIANTS = {"v": ["v", "V"], "w": ["w", "W"], "u": ["u", "U"], "bt": ["bt", "BT", "Bt"]}


class HGen:
    """Generates one history and, alongside, what the value semantics says about columns, plus the shape flags the
    signatures of known findings are made of."""

    def __init__(self, rnd, maxlen, add_if_absent=True, skip_own=False, user_only=False, tables_only=False,
                 hash_user=False, dedupe=False):
        # the T1 facts about session.sql / replace_id_value: a finding's shape is a candidate signature only while the
        # source still has the defective shape
        self.skip_own, self.user_only, self.tables_only = skip_own, user_only, tables_only
        self.hash_user, self.dedupe = hash_user, dedupe
        self.r = rnd
        self.eg = EGen(rnd)
        self.maxlen = maxlen
        self.add_if_absent = add_if_absent    # the T1 fact: how the schema cache treats a key it already has

    def new(self):
        r = self.r
        self.heap = [{"cols": dict(zip(f["cols"], f["types"])), "ok": True, "embedded": set(), "star": False, "taint": None,
                      "reads": set(), "joined": set()} for f in BASE["frames"]]
        self.views = {}          # key -> {"cols", "embedded", "star", "taint"}
        self.cache = {}          # key -> column names in the schema cache (add-if-absent)
        self.keys = r.choice([["v", "w", "u"]] * 8 + [["v", "w", "bt"], ["v", "bt", "u"]])
        self.steps = []          # worker steps
        self.csteps = []         # Coq step terms
        self.meta = []           # per step: {"kind", "sig": candidate signature or None, "text"}

    def spell(self, key):
        return self.r.choice(VARIANTS[key])

    # -- sources a query may name: (written name, key, cols dict or None when unknown/unregistered)
    def sources(self):
        out = []
        for k, v in self.views.items():
            out.append((k, v["cols"]))
        if "bt" not in self.views:
            out.append(("bt", dict(zip(BASE["tables"]["bt"]["cols"], BASE["tables"]["bt"]["types"]))))
        return out

    def gen_sel_over(self, frm, cols, allow_star=True):
        """a projection/filter SELECT over a single FROM item with columns `cols`; returns (sq, outcols)"""
        r = self.r
        w = [self.eg.bool_e(cols)] if r.random() < 0.55 else []
        if allow_star and r.random() < 0.35:
            return ("sel", frm, w, None, r.random() < 0.15), dict(cols)
        names = list(cols)
        r.shuffle(names)
        items, out = [], {}
        for c in names[: r.randint(1, len(names))]:
            items.append((("col", c), c))
            out[c] = cols[c]
        if r.random() < 0.4 and any(t == "int" for t in cols.values()):
            alias = r.choice(["e", "f"])
            if alias not in out:
                items.append((self.eg.int_e(cols, 2), alias))
                out[alias] = "int"
        return ("sel", frm, w, items, r.random() < 0.15), out

    def gen_agg_over(self, frm, cols):
        r = self.r
        ints = [c for c, t in cols.items() if t == "int"]
        w = [self.eg.bool_e(cols)] if r.random() < 0.3 else []
        keys = []
        out = {}
        if r.random() < 0.6:
            kc = r.choice(list(cols))
            keys = [(kc, kc)]
            out[kc] = cols[kc]

        def alias(base):
            a = base
            while a in out:
                a += "2"
            return a
        aggs = []
        if not (ints and r.random() < 0.2):
            a = alias("n")
            aggs.append(("count", None, a))
            out[a] = "int"
        if ints and (not aggs or r.random() < 0.7):
            a = alias("sm")
            aggs.append(("sum", r.choice(ints), a))
            out[a] = "int"
        return ("agg", frm, w, keys, aggs), out

    def gen_join(self, lsrc, rsrc):
        """(frm, cols of the join scope) for  l AS x JOIN r AS y ON x.i = y.j  over two (from, cols) items"""
        r = self.r
        (lf, lc), (rf, rc) = lsrc, rsrc
        li = [c for c, t in lc.items() if t == "int"]
        ri = [c for c, t in rc.items() if t == "int"]
        if not li or not ri:
            return None
        a, b = r.choice(li), r.choice(ri)
        same = [c for c in li if c in ri]
        if same and r.random() < 0.7:
            a = b = r.choice(same)
        on = ("bin", "Eq", ("col", "x." + a), ("col", "y." + b))
        if r.random() < 0.15:
            on = ("bin", "And", on, ("bin", "Gt", ("col", "x." + a), ("lit", 1)))
        scope = {**{"x." + c: t for c, t in lc.items()}, **{"y." + c: t for c, t in rc.items()}}
        return ("join", lf, "x", rf, "y", on), scope

    def gen_sel_over_join(self, frm, scope):
        r = self.r
        names = list(scope)
        r.shuffle(names)
        items, out = [], {}
        for qn in names[: r.randint(1, min(3, len(names)))]:
            base = qn.split(".")[1]
            alias = base if base not in out else base + "_2"
            if alias in out:
                continue
            items.append((("col", qn), alias))
            out[alias] = scope[qn]
        w = [self.eg.bool_e(scope, 0)] if r.random() < 0.3 else []
        return ("sel", frm, w, items, False), out

    def pick_src(self, srcs, cte_srcs=()):
        r = self.r
        pool = list(cte_srcs) * 2 + list(srcs)
        key, cols = r.choice(pool)
        written = key if (key, cols) in cte_srcs else self.spell(key)
        return ("name", written), cols, key

    def gen_query(self):
        """returns (query, outcols) or None"""
        r = self.r
        srcs = self.sources()
        regd = [s for s in srcs if s[0] in self.views]
        if not regd and r.random() < 0.7:
            return None
        pref = (regd * 3 + srcs) if regd else srcs
        shape = r.choice(["proj", "proj", "join", "agg", "cte", "cte", "sub", "lit", "unknown"] if r.random() < 0.12
                         else ["proj", "proj", "join", "agg", "cte", "cte", "sub"])
        ctes = []
        if shape == "lit":
            items = [(("lit", 1), "one"), (("lit", "k"), "k")]
            return {"ctes": [], "main": ("sel", ("unit",), [], items, False)}, {"one": "int", "k": "str"}
        if shape == "unknown":
            return {"ctes": [], "main": ("sel", ("name", "zz"), [], None, False)}, None
        if shape == "proj":
            f, cols, _ = self.pick_src(pref)
            q, out = self.gen_sel_over(f, cols)
            return {"ctes": [], "main": q}, out
        if shape == "agg":
            f, cols, _ = self.pick_src(pref)
            q, out = self.gen_agg_over(f, cols)
            return {"ctes": [], "main": q}, out
        if shape == "sub":
            f, cols, _ = self.pick_src(pref)
            inner, icols = self.gen_sel_over(f, cols)
            if r.random() < 0.3:
                inner, icols = self.gen_agg_over(f, cols)
            if r.random() < 0.5:
                q, out = self.gen_sel_over(("sub", inner), icols)
            else:
                q, out = self.gen_agg_over(("sub", inner), icols)
            return {"ctes": [], "main": q}, out
        if shape == "join":
            f1, c1, _ = self.pick_src(pref)
            f2, c2, _ = self.pick_src(pref)
            if r.random() < 0.25:
                inner, ic = self.gen_sel_over(f2, c2, allow_star=False)
                f2, c2 = ("sub", inner), ic
            j = self.gen_join((f1, c1), (f2, c2))
            if j is None:
                return None
            q, out = self.gen_sel_over_join(*j)
            return {"ctes": [], "main": q}, out
        # cte
        cte_srcs = []
        names = ["c1", "c2"]
        if regd and r.random() < 0.12:
            names = [r.choice(regd)[0], "c2"]      # a CTE named like a registered view
        for nm in names[: r.randint(1, 2)]:
            # a CTE body never reads its own name (circular in the engine; what an unused circular CTE does to the binder is
            # not part of the engine model)
            body_pref = [s for s in pref if s[0] != nm] or [s for s in srcs if s[0] != nm]
            if not body_pref:
                nm = "c1" if all(n != "c1" for n, _ in ctes) else "c3"
                body_pref = list(pref) or list(srcs)
            f, cols, _ = self.pick_src(body_pref, cte_srcs if r.random() < 0.5 else ())
            if r.random() < 0.25:
                b, oc = self.gen_agg_over(f, cols)
            else:
                b, oc = self.gen_sel_over(f, cols)
            ctes.append((nm, b))
            cte_srcs = [s for s in cte_srcs if s[0] != nm] + [(nm, oc)]
            pref = [s for s in pref if s[0] != nm]      # from here on the name means the CTE
            if not pref:
                pref = list(cte_srcs)
        k = r.random()
        f1, c1, _ = self.pick_src(pref, cte_srcs * 3)
        if k < 0.45:
            q, out = self.gen_sel_over(f1, c1)
        elif k < 0.6:
            q, out = self.gen_agg_over(f1, c1)
        else:
            f2, c2, _ = self.pick_src(pref, cte_srcs)
            j = self.gen_join((f1, c1), (f2, c2))
            if j is None:
                q, out = self.gen_sel_over(f1, c1)
            else:
                q, out = self.gen_sel_over_join(*j)
        return {"ctes": ctes, "main": q}, out

    # -- shape flags of a query against the current state (what the known-finding signatures are made of)
    def classify_sql(self, q):
        """every known-finding shape the query has against the current state, most specific first"""
        cands = []
        cte_names = [n.lower() for n, _ in q["ctes"]]
        order = cte_names
        refs = [n.lower() for _, b in q["ctes"] for n in sq_names(b)] + [n.lower() for n in sq_names(q["main"])]
        view_refs = [n for n in refs if n in self.views]
        real_view_refs = [n for n in view_refs if n not in cte_names]
        if any(n in cte_names for n in view_refs) and not self.skip_own:
            cands.append(SIG_HIJACK)
        for n in real_view_refs:
            if any(c in self.views[n]["embedded"] for c in cte_names) and not self.hash_user:
                cands.append(SIG_CAPTURE)
        for n in real_view_refs:
            if n in BASE["tables"] and n in self.views[n]["reads"] and not self.user_only:
                cands.append(SIG_SELFREF)
        for n in real_view_refs:
            if self.views[n]["taint"]:
                cands.append(self.views[n]["taint"])     # e.g. a registration that raised half-way left the cache behind
        for n in real_view_refs:
            if self.cache.get(n) and self.cache[n] != list(self.views[n]["cols"]):
                cands.append(SIG_STALE)

        # what sqlglot's qualify can know about the columns of a source
        def info(n, depth=0):
            # a CTE body sees the CTEs defined before it; `depth` = how many CTEs at the end of the list are not visible
            vis = order[: len(order) - depth] if depth else order
            if n in vis:
                k = max(i for i, m in enumerate(order) if m == n and i < len(vis))
                return out_cols(q["ctes"][k][1], len(order) - k)
            return self.cache.get(n) or None

        def out_cols(sq, depth=0):
            if sq[0] == "agg":
                return [a for _, a in sq[3]] + [a for _, _, a in sq[4]]
            return [a for _, a in sq[3]] if sq[3] is not None else from_cols(sq[1], depth)

        def from_cols(f, depth=0):
            if f[0] == "name":
                return info(f[1].lower(), depth)
            if f[0] == "unit":
                return []
            if f[0] == "sub":
                return out_cols(f[1], depth)
            a, b = from_cols(f[1], depth), from_cols(f[3], depth)
            return None if a is None or b is None else [f[2] + "." + c for c in a] + [f[4] + "." + c for c in b]

        def unresolved(sq, depth=0):
            f = sq[1]
            if sq[0] == "sel":
                refs_ = [c for x in sq[2] for c in rel.e_cols(x)] + [c for e, _ in (sq[3] or []) for c in rel.e_cols(e)]
            else:
                refs_ = [c for x in sq[2] for c in rel.e_cols(x)] + [c for c, _ in sq[3]] + [c for fn, c, _ in sq[4] if fn == "sum"]
            here = f[0] in ("name", "sub") and from_cols(f, depth) is None and bool(refs_)
            inner = [f[1]] if f[0] == "sub" else [x[1] for x in (f[1], f[3]) if x[0] == "sub"] if f[0] == "join" else []
            return here or any(unresolved(i, depth) for i in inner)

        def canon(sq, depth):
            # the text after qualify: `*` over a source with known columns is written out
            if sq[0] == "sel" and sq[3] is None and sq[1][0] == "name":
                cs = from_cols(sq[1], depth)
                if cs:
                    sq = ("sel", sq[1], sq[2], [(("col", c), c) for c in cs], sq[4])
            return sq_sql(sq).lower()
        def aliasref(sq):
            """an output alias (not the identity `c AS c`) that WHERE / GROUP BY / a later item mentions unqualified"""
            hit = False
            if sq[0] == "sel" and sq[3]:
                seen = {}
                for e, a in sq[3]:
                    if any(c in seen for c in rel.e_cols(e)):
                        hit = True
                    if e != ("col", a):
                        seen[a] = e
                if any(c in seen for x in sq[2] for c in rel.e_cols(x)):
                    hit = True
            elif sq[0] == "agg":
                al = {a for _, _, a in sq[4]} | {a for c, a in sq[3] if c != a}
                if any(c in al for x in sq[2] for c in rel.e_cols(x)) or any(c in al for c, _ in sq[3]):
                    hit = True
            f = sq[1]
            inner = [f[1]] if f[0] == "sub" else [x[1] for x in (f[1], f[3]) if x[0] == "sub"] if f[0] == "join" else []
            return hit or any(aliasref(i) for i in inner)
        if not self.cache and (aliasref(q["main"]) or any(aliasref(b) for _, b in q["ctes"])):
            cands.append(SIG_ALIASREF)
        if (q["ctes"] or any(self.views[n]["embedded"] for n in real_view_refs)) and not self.dedupe:
            cands.append(SIG_DUPCTE)        # accepted only together with DuckDB's `Duplicate CTE name`
        aliases = [a.lower() for a in (([a for _, a in q["main"][3]] if q["main"][0] == "sel" and q["main"][3] else []) +
                                       ([a for _, a in q["main"][3]] + [a for _, _, a in q["main"][4]] if q["main"][0] == "agg" else []))]
        if any(a in cte_names for a in aliases) and not self.tables_only:
            cands.append(SIG_ALIAS)
        names_real = [n for n in refs if n not in cte_names and n not in self.views and n in BASE["tables"]]
        if self.cache and names_real and (unresolved(q["main"]) or any(unresolved(b, len(order) - k) for k, (_, b) in enumerate(q["ctes"]))):
            cands.append(SIG_UNRESOLVED)
        # `SELECT *` whose source columns qualify cannot know (a real table the cache has not seen, directly or through `*`)
        m = q["main"]
        if m[0] == "sel" and m[3] is None and m[1][0] in ("name", "sub") and from_cols(m[1]) is None and names_real:
            cands.append(SIG_STAR)
        out = []
        for c in cands:
            if c not in out:
                out.append(c)
        return out

    def embedded_of(self, q):
        cte_names = {n.lower() for n, _ in q["ctes"]}
        refs = [n.lower() for _, b in q["ctes"] for n in sq_names(b)] + [n.lower() for n in sq_names(q["main"])]
        emb = set(cte_names)
        for n in refs:
            if n in self.views and n not in cte_names:
                emb |= self.views[n]["embedded"]
        return emb

    @staticmethod
    def hsig(hd):
        return hd["taint"] or (SIG_STAR if hd["star"] else None)

    def push(self, cols, embedded=(), star=False, taint=None, ok=True, reads=(), joined=()):
        self.heap.append({"cols": cols, "ok": ok and cols is not None, "embedded": set(embedded), "star": star, "taint": taint,
                          "reads": set(reads), "joined": set(joined)})

    def reads_of(self, q):
        cte_names = {n.lower() for n, _ in q["ctes"]}
        refs = [n.lower() for _, b in q["ctes"] for n in sq_names(b)] + [n.lower() for n in sq_names(q["main"])]
        out = set()
        for n in refs:
            if n in cte_names:
                continue
            if n in self.views:
                out |= self.views[n]["reads"]
            elif n in BASE["tables"]:
                out.add(n)
        return out

    def step(self):
        r = self.r
        k = r.random()
        live = [i for i, h in enumerate(self.heap) if h["ok"]]
        first = not self.steps
        if first and k < 0.75 or k < 0.2:
            # register / re-register
            key = r.choice(self.keys)
            if self.views and r.random() < 0.35:
                key = r.choice(list(self.views))
            name = self.spell(key)
            recent = [i for i in live if i >= len(BASE["frames"])]
            h = r.choice(recent) if recent and r.random() < 0.5 else r.choice(live)
            hd = self.heap[h]
            sig = hd["taint"] or (SIG_STAR if hd["star"] else None)
            self.views[key] = {"cols": dict(hd["cols"]), "embedded": set(hd["embedded"]), "star": hd["star"], "taint": sig,
                               "reads": set(hd["reads"])}
            if not hd["star"] and (key not in self.cache or not self.add_if_absent):
                self.cache[key] = list(hd["cols"])
            if hd["star"] and key in self.cache and self.add_if_absent and not hd["taint"]:
                sig = None      # add_table returns early: no exception; the view itself is fine
                self.views[key]["taint"] = None
            self.emit(["reg", name, h], f"(SReg {strlit(name)} {natlit(h)})", "reg", sig, f"heap[{h}].createOrReplaceTempView({name!r})")
            return
        if k < 0.64:
            g = self.gen_query()
            if g is None:
                return
            q, out = g
            sigs = self.classify_sql(q)
            sig = next((x for x in sigs if x not in (SIG_DUPCTE, SIG_ALIAS)), None)
            text = query_sql(q)
            star = SIG_STAR in sigs
            self.emit(["sql", text], f"(SSql {query_coq(q)})", "sql", sig, f"session.sql({text!r})", sigs)
            self.meta[-1]["selfref_cte"] = selfref_cte(q)
            self.meta[-1]["refs"] = sorted({n.lower() for _, b in q["ctes"] for n in sq_names(b)} | {n.lower() for n in sq_names(q["main"])})
            self.push(out, self.embedded_of(q), star=star, taint=sig if sig != SIG_STAR else None, reads=self.reads_of(q))
            return
        if k < 0.74:
            cand = list(self.views) * 4 + ["bt", "zz"]
            key = r.choice(cand)
            name = self.spell(key) if key in VARIANTS else key
            if key in self.views:
                v = self.views[key]
                self.push(dict(v["cols"]), v["embedded"], star=v["star"], taint=v["taint"], reads=v["reads"])
                sig = self.hsig(v)
            elif key == "bt":
                self.push(dict(zip(BASE["tables"]["bt"]["cols"], BASE["tables"]["bt"]["types"])), reads={"bt"})
                self.cache.setdefault("bt", list(BASE["tables"]["bt"]["cols"]))
                sig = None
            else:
                self.push(None)
                self.cache.setdefault(key, [])
                sig = None
            self.emit(["table", name], f"(STable {strlit(name)})", "table", sig, f"session.table({name!r})")
            return
        if k < 0.83 and live:
            h = r.choice(live)
            hd = self.heap[h]
            e = self.eg.bool_e(hd["cols"], 1)
            self.emit(["where", h, e_sql(e)], f"(SWhere {natlit(h)} {rel.e_coq(e)})", "where", self.hsig(hd),
                      f"heap[{h}].where({e_sql(e)!r})")
            self.push(dict(hd["cols"]), hd["embedded"], star=hd["star"], taint=hd["taint"], reads=hd["reads"])
            return
        if k < 0.92 and live:
            # join back: a derived frame with an earlier one on a shared int column
            derived = [i for i in live if i >= len(BASE["frames"])] or live
            h1 = r.choice(derived)
            c1 = self.heap[h1]["cols"]
            cands = []
            for h2 in live:
                c2 = self.heap[h2]["cols"]
                for kcol in c1:
                    if c1[kcol] == "int" and c2.get(kcol) == "int":
                        rc = [c for c in c2 if c != kcol]
                        if all(c + "_r" not in c1 for c in rc):
                            cands.append((h2, kcol, rc))
            if not cands:
                return
            same_cte = [c for c in cands if self.heap[h1]["embedded"] & self.heap[c[0]]["embedded"] and c[0] != h1]
            h2, kcol, rc = r.choice(same_cte if same_cte and r.random() < 0.6 else cands)
            out = {kcol: "int", **{c: t for c, t in c1.items() if c != kcol},
                   **{c + "_r": self.heap[h2]["cols"][c] for c in rc}}
            sig = self.heap[h1]["taint"] or self.heap[h2]["taint"] or \
                (SIG_STAR if self.heap[h1]["star"] or self.heap[h2]["star"] else None)
            self.emit(["joinb", h1, h2, kcol, rc],
                      f"(SJoinB {natlit(h1)} {natlit(h2)} {strlit(kcol)} {listlit([strlit(c) for c in rc])})", "joinb", sig,
                      f"heap[{h1}].join(heap[{h2}].select({kcol!r}, others AS <c>_r), on={kcol!r})",
                      ([sig] if sig else []) + ([SIG_DUPCTE] if (self.heap[h1]["embedded"] or self.heap[h2]["embedded"]) and not self.dedupe else [])
                      + ([SIG_REJOIN] if h2 in self.heap[h1].get("joined", set()) else []))
            self.push(out, self.heap[h1]["embedded"] | self.heap[h2]["embedded"], taint=sig,
                      reads=self.heap[h1]["reads"] | self.heap[h2]["reads"],
                      joined=self.heap[h1].get("joined", set()) | self.heap[h2].get("joined", set()) | {h1, h2})
            return
        h = r.randrange(len(self.heap))
        hd = self.heap[h]
        self.emit(["obs", h], f"(SObs {natlit(h)})", "obs", self.hsig(hd), f"heap[{h}].collect()")

    def emit(self, wstep, cstep, kind, sig, text, sigs=None):
        self.steps.append(wstep)
        self.csteps.append(cstep)
        self.meta.append({"kind": kind, "sig": sig, "sigs": list(sigs) if sigs is not None else ([sig] if sig else []), "text": text})

    def history(self):
        self.new()
        n = self.r.choice([2] + list(range(3, self.maxlen + 1)) * 2)
        tries = 0
        while len(self.steps) < n and tries < 40:
            tries += 1
            self.step()
        return {"steps": self.steps, "csteps": self.csteps, "meta": self.meta, "keys": self.keys}


CORPUS = [
    # (worker steps, coq steps, meta) are produced from these descriptors by `corpus_history`
    [("reg", "v", 0), ("table", "V"), ("sqlq", {"ctes": [], "main": ("sel", ("name", "v"), [("bin", "Gt", ("col", "a"), ("lit", 1))], None, False)}),
     ("reg", "V", 1), ("table", "v"), ("sqlq", {"ctes": [], "main": ("sel", ("name", "v"), [], None, False)}), ("obs", 5), ("obs", 6)],
    [("reg", "v", 0), ("sqlq", {"ctes": [("v", ("sel", ("unit",), [], [(("lit", 9), "z")], False))], "main": ("sel", ("name", "v"), [], [(("col", "z"), "z")], False)})],
    [("reg", "v", 0), ("sqlq", {"ctes": [("c1", ("sel", ("name", "v"), [], [(("col", "a"), "a")], False))], "main": ("sel", ("name", "c1"), [], [(("col", "a"), "a")], False)}),
     ("reg", "w", 5),
     ("sqlq", {"ctes": [("c1", ("sel", ("unit",), [], [(("lit", 7), "a")], False))],
               "main": ("sel", ("join", ("name", "w"), "x", ("name", "c1"), "y", ("bin", "Eq", ("lit", 1), ("lit", 1))), [],
                        [(("col", "x.a"), "a"), (("col", "y.a"), "a2")], False)})],
    [("sqlq", {"ctes": [], "main": ("sel", ("name", "bt"), [], None, False)}), ("reg", "u", 5), ("table", "U"),
     ("sqlq", {"ctes": [], "main": ("sel", ("name", "u"), [], [(("col", "a"), "a")], False)})],
    [("reg", "v", 0), ("reg", "w", 1),
     ("sqlq", {"ctes": [], "main": ("sel", ("join", ("name", "v"), "x", ("name", "W"), "y", ("bin", "Eq", ("col", "x.a"), ("col", "y.a"))), [],
                                    [(("col", "x.a"), "a"), (("col", "y.s"), "s")], False)}),
     ("joinb", 5, 0, "a", ["b"]), ("where", 5, ("bin", "Gt", ("col", "a"), ("lit", 1))), ("reg", "v", 6), ("obs", 5)],
    [("reg", "v", 0), ("sqlq", {"ctes": [], "main": ("sel", ("name", "bt"), [], [(("col", "a"), "a")], False)})],
    [("reg", "v", 0), ("sqlq", {"ctes": [("c1", ("sel", ("name", "v"), [], [(("col", "a"), "a")], False))],
                                "main": ("sel", ("name", "v"), [], [(("col", "a"), "a")], False)})],
    [("sqlq", {"ctes": [], "main": ("sel", ("name", "bt"), [("bin", "Gt", ("col", "q"), ("lit", 6))], [(("col", "a"), "a")], False)}),
     ("reg", "bt", 5), ("table", "BT"),
     ("sqlq", {"ctes": [], "main": ("sel", ("name", "bt"), [], [(("col", "a"), "a")], False)})],
    [("sqlq", {"ctes": [], "main": ("sel", ("name", "bt"), [("bin", "Gt", ("col", "a"), ("lit", 1))],
                                    [(("bin", "Add", ("col", "a"), ("lit", 1)), "a")], False)})],
    [("reg", "v", 0), ("sqlq", {"ctes": [("c2", ("sel", ("name", "v"), [], [(("col", "a"), "a")], False))],
                                "main": ("sel", ("name", "c2"), [], [(("col", "a"), "c2")], False)})],
    [("sqlq", {"ctes": [], "main": ("sel", ("join", ("name", "bt"), "x", ("name", "bt"), "y", ("bin", "Eq", ("col", "x.q"), ("col", "y.q"))), [],
                                    [(("col", "x.q"), "q")], False)}),
     ("joinb", 5, 5, "q", []), ("joinb", 6, 5, "q", [])],
    # re-registration with the same columns in another order, then SELECT * (the column ORDER must follow the new frame)
    [("reg", "v", 0), ("sqlq", {"ctes": [], "main": ("sel", ("name", "v"), [], None, False)}), ("reg", "V", 3),
     ("sqlq", {"ctes": [], "main": ("sel", ("name", "v"), [], None, False)}), ("table", "v")],
    # two session.sql results that both use a CTE called c1, with different bodies, joined
    [("reg", "v", 0),
     ("sqlq", {"ctes": [("c1", ("sel", ("name", "v"), [("bin", "Gt", ("col", "a"), ("lit", 1))], [(("col", "a"), "a"), (("col", "b"), "b")], False))],
               "main": ("sel", ("name", "c1"), [], [(("col", "a"), "a"), (("col", "b"), "b")], False)}),
     ("sqlq", {"ctes": [("C1", ("sel", ("name", "v"), [("bin", "Le", ("col", "a"), ("lit", 2))], [(("col", "a"), "a"), (("col", "b"), "b")], False))],
               "main": ("sel", ("name", "c1"), [], [(("col", "a"), "a"), (("col", "b"), "b")], False)}),
     ("joinb", 5, 6, "a", ["b"]), ("joinb", 6, 5, "a", ["b"]), ("obs", 5), ("obs", 6)],
    [("reg", "v", 0), ("reg", "v", 1), ("sqlq", {"ctes": [], "main": ("sel", ("name", "v"), [], None, False)}),
     ("sqlq", {"ctes": [], "main": ("sel", ("name", "v"), [], [(("col", "a"), "a"), (("col", "s"), "s")], False)})],
]


def corpus_history(desc, add_if_absent=True, **flags):
    g = HGen(random.Random(0), 0, add_if_absent, **flags)
    g.new()
    g.keys = ["v", "w", "u"]
    for d in desc:
        if d[0] == "reg":
            _, name, h = d
            key = name.lower()
            hd = g.heap[h]
            sig = hd["taint"] or (SIG_STAR if hd["star"] else None)
            g.views[key] = {"cols": dict(hd["cols"]), "embedded": set(hd["embedded"]), "star": hd["star"], "taint": sig,
                            "reads": set(hd["reads"])}
            if not hd["star"] and (key not in g.cache or not g.add_if_absent):
                g.cache[key] = list(hd["cols"])
            g.emit(["reg", name, h], f"(SReg {strlit(name)} {natlit(h)})", "reg", sig, f"heap[{h}].createOrReplaceTempView({name!r})")
        elif d[0] == "table":
            key = d[1].lower()
            v = g.views.get(key)
            if v:
                g.push(dict(v["cols"]), v["embedded"], star=v["star"], taint=v["taint"], reads=v["reads"])
            else:
                g.push(dict(zip(BASE["tables"]["bt"]["cols"], BASE["tables"]["bt"]["types"])) if key == "bt" else None,
                       reads={"bt"} if key == "bt" else ())
            g.emit(["table", d[1]], f"(STable {strlit(d[1])})", "table", v["taint"] if v else None, f"session.table({d[1]!r})")
        elif d[0] == "sqlq":
            q = d[1]
            sigs = g.classify_sql(q)
            sig = next((x for x in sigs if x not in (SIG_DUPCTE, SIG_ALIAS)), None)
            text = query_sql(q)
            out = out_cols_of(q, g)
            star = SIG_STAR in sigs
            g.emit(["sql", text], f"(SSql {query_coq(q)})", "sql", sig, f"session.sql({text!r})", sigs)
            g.meta[-1]["refs"] = sorted({n.lower() for _, b in q["ctes"] for n in sq_names(b)} | {n.lower() for n in sq_names(q["main"])})
            g.push(out, g.embedded_of(q), star=star, taint=sig if sig != SIG_STAR else None, reads=g.reads_of(q))
        elif d[0] == "where":
            _, h, e = d
            hd = g.heap[h]
            g.emit(["where", h, e_sql(e)], f"(SWhere {natlit(h)} {rel.e_coq(e)})", "where", hd["taint"], f"heap[{h}].where({e_sql(e)!r})")
            g.push(dict(hd["cols"]), hd["embedded"], star=hd["star"], taint=hd["taint"], reads=hd["reads"])
        elif d[0] == "joinb":
            _, h1, h2, kcol, rc = d
            c1 = g.heap[h1]["cols"]
            out = {kcol: "int", **{c: t for c, t in c1.items() if c != kcol}, **{c + "_r": g.heap[h2]["cols"][c] for c in rc}}
            sig = g.heap[h1]["taint"] or g.heap[h2]["taint"]
            g.emit(["joinb", h1, h2, kcol, rc],
                   f"(SJoinB {natlit(h1)} {natlit(h2)} {strlit(kcol)} {listlit([strlit(c) for c in rc])})", "joinb", sig,
                   f"heap[{h1}].join(heap[{h2}] renamed, on={kcol!r})")
            g.push(out, g.heap[h1]["embedded"] | g.heap[h2]["embedded"], taint=sig, reads=g.heap[h1]["reads"] | g.heap[h2]["reads"],
                   joined=g.heap[h1]["joined"] | g.heap[h2]["joined"] | {h1, h2})
            if h2 in g.heap[h1]["joined"]:
                g.meta[-1]["sigs"].append(SIG_REJOIN)
        elif d[0] == "obs":
            hd = g.heap[d[1]]
            g.emit(["obs", d[1]], f"(SObs {natlit(d[1])})", "obs", hd["taint"], f"heap[{d[1]}].collect()")
    return {"steps": g.steps, "csteps": g.csteps, "meta": g.meta, "keys": g.keys}


def out_cols_of(q, g):
    """output columns of a corpus query (explicit select lists only need names; star takes the source's columns)"""
    m = q["main"]
    if m[0] == "sel" and m[3] is not None:
        return {a: "int" for _, a in m[3]}
    if m[0] == "sel" and m[1][0] == "name":
        n = m[1][1].lower()
        if n in g.views:
            return dict(g.views[n]["cols"])
        if n in BASE["tables"]:
            return dict(zip(BASE["tables"][n]["cols"], BASE["tables"][n]["types"]))
    return {}


# ---- running ---------------------------------------------------------------------------------------------

def run_worker(histories, timeout=900):
    job = json.dumps({"base": BASE, "histories": [h["steps"] for h in histories]})
    p = subprocess.run([core.PY, os.path.join(core.VERIF, "checks", "c13_worker.py")], input=job, text=True,
                       stdout=subprocess.PIPE, stderr=subprocess.PIPE, env=core.env_for_impl(), timeout=timeout)
    if p.returncode != 0:
        raise RuntimeError("worker failed: " + p.stderr[-1500:])
    return json.loads(p.stdout)


def run_workers(histories, nproc):
    from concurrent.futures import ThreadPoolExecutor
    chunks = [histories[i::nproc] for i in range(nproc)]
    with ThreadPoolExecutor(max_workers=nproc) as ex:
        parts = list(ex.map(run_worker, chunks))
    out = [None] * len(histories)
    for k, part in enumerate(parts):
        for j, r in enumerate(part):
            out[k + j * nproc] = r
    return out


def iobs_coq(o) -> str:
    if "err" in o:
        return "IErr"
    return (f"(IOk {listlit([strlit(c) for c in o['cols']])} {listlit([rel.row_coq(r) for r in o['rows']])} "
            f"{listlit([strlit(c) for c in o.get('static_cols', [])])})")


def base_coq():
    tables = listlit([f"({strlit(n)}, {rel.frame_coq(t['cols'], t['rows'])})" for n, t in BASE["tables"].items()])
    frames = listlit([rel.frame_coq(f["cols"], f["rows"]) for f in BASE["frames"]])
    return tables, frames


def case_coq(h, obs) -> str:
    tables, frames = base_coq()
    return (f"(mkCase {tables} {frames} {listlit(h['csteps'])} {listlit([iobs_coq(o['impl']) for o in obs])} "
            f"{listlit([iobs_coq(o['oracle']) for o in obs])})")


def short(o):
    if "err" in o:
        return {"err": o["err"], "msg": o.get("msg", "")[:120]}
    return {k: o[k] for k in ("cols", "rows", "static_cols") if k in o}


def run(ctx: core.Ctx):
    # a finding recorded as fixed suppresses nothing, also when an older merged list still carries it as known
    fixed = {k["signature"] for k in ctx.known if k.get("status") == "fixed"}
    ctx.known = [k for k in ctx.known if not (k.get("status", "known") == "known" and k["signature"] in fixed)]
    # ---- T1
    try:
        text, facts = c13_facts.generate(core.REPO)
        ctx.gen("C13Facts", text, facts)
        t1_ok = True
        add_if_absent = bool(facts[0]["value"])
        flags = {"skip_own": bool(facts[3]["value"]["skip_own"]), "user_only": bool(facts[3]["value"]["user_only"]),
                 "tables_only": bool(facts[4]["value"]), "hash_user": bool(facts[3]["value"]["hash_user"]),
                 "dedupe": bool(facts[5]["value"])}
    except Exception as ex:
        ctx.broken("T1:c13_facts", f"{type(ex).__name__}: {ex}")
        t1_ok = False
        pinned = open(core.VERIF + "/translate/c13_facts_pinned.v").read()
        ctx.gen("C13Facts", pinned)
        # the search continues with the facts of the pinned source (also for the shapes of the fixed findings)
        w = re.search(r"mkCfg ((?:\w+ ?)+)\.", pinned).group(1).split()
        add_if_absent = w[0] == "true"
        flags = {"skip_own": w[7] == "true", "user_only": w[8] == "true", "hash_user": w[9] == "true",
                 "tables_only": "cte_rename_tables_only : bool := true" in pinned,
                 "dedupe": "cte_hash_dedupe : bool := true" in pinned}
    # ---- proofs
    ctx.log("T1 done")
    proved = ctx.prove([ctx.build + "/gen/C13Facts.v"] + ([core.COQ + "/props/C13.v"] if t1_ok else []), dep_theories=DEPS)
    ctx.log("proofs checked" if proved else "proofs FAILED")
    # ---- T3
    rnd = random.Random(ctx.seed)
    quick = ctx.tier == "quick"
    g = HGen(rnd, 6 if quick else 9, add_if_absent, **flags)
    hs = [corpus_history(d, add_if_absent, **flags) for d in CORPUS]
    n_hist = 260 if quick else 2600
    seen = set()
    while len(hs) < n_hist + len(CORPUS):
        h = g.history()
        key = json.dumps(h["steps"])
        if key in seen or len(h["steps"]) < 2:
            continue
        seen.add(key)
        hs.append(h)
    ctx.log(f"{len(hs)} histories generated")
    res = run_workers(hs, 8)
    ctx.log("implementation and engine oracle ran")
    items, kept = [], []
    for h, r in zip(hs, res):
        if isinstance(r, dict):
            ctx.broken("T3:worker-crash", r.get("crash", "?"), data=h["steps"])
            continue
        try:
            items.append(case_coq(h, r))
            kept.append((h, r))
        except (rel.NotExportable, ValueError) as ex:
            ctx.broken("T3:value-not-exportable", str(ex), data=h["steps"])
    ctx.log(f"{len(items)} histories, {sum(len(h['steps']) for h, _ in kept)} steps")
    verdicts = ctx.cases("c13", HEADER, items, per_file=14 if quick else 40, result_ty="str", fn="check")
    n_steps = n_dom = n_nontriv = n_dev = n_skipped = 0
    hist_kind, hist_len, hist_shape, hist_err, hist_sig = {}, {}, {}, {}, {}
    model_fail, engine_fail, thm_fail = [], [], []
    nbase = len(BASE["frames"])
    for (h, r), it, v in zip(kept, items, verdicts):
        if v is None or len(v) != 6 * len(h["steps"]):
            continue
        hist_len[len(h["steps"])] = hist_len.get(len(h["steps"]), 0) + 1
        nontriv_h = False
        dead = set()          # handles whose defining query the engine itself rejects (or that were never created)
        nheap = nbase
        rt_taint, rt_view = {}, {}     # handle / view key -> signature of the accepted deviation that produced it
        for i, (st, m, o) in enumerate(zip(h["steps"], h["meta"], r)):
            im, isp, ms, dom, es, ax = (ch == "1" for ch in v[6 * i: 6 * i + 6])
            used = {"reg": [st[2]] if m["kind"] == "reg" else [], "where": [st[1]] if m["kind"] == "where" else [],
                    "joinb": [st[1], st[2]] if m["kind"] == "joinb" else [], "obs": [st[1]] if m["kind"] == "obs" else []}[m["kind"]] \
                if m["kind"] in ("reg", "where", "joinb", "obs") else []
            if any(u in dead for u in used):
                # transforming / registering a frame the engine cannot even compute is outside the property; after it the
                # registries of implementation (lazy) and oracle (materialised) legitimately differ: stop judging
                n_skipped += len(h["steps"]) - i
                break
            created = None
            if m["kind"] in ("table", "sql", "where", "joinb"):
                if "err" in o["oracle"]:
                    dead.add(nheap)
                created = nheap
                nheap += 1
            inherited = [rt_taint[u] for u in used if u in rt_taint]
            if m["kind"] == "sql":
                inherited += [rt_view[n] for n in m.get("refs", []) if n in rt_view]
            if m["kind"] == "table" and st[1].lower() in rt_view:
                inherited.append(rt_view[st[1].lower()])
            if m["kind"] == "reg":
                rt_view.pop(st[1].lower(), None)
                if inherited:
                    rt_view[st[1].lower()] = inherited[0]
            elif created is not None and inherited:
                rt_taint[created] = inherited[0]
            n_steps += 1
            n_dom += dom
            hist_kind[m["kind"]] = hist_kind.get(m["kind"], 0) + 1
            if "err" in o["impl"]:
                hist_err[o["impl"]["err"]] = hist_err.get(o["impl"]["err"], 0) + 1
            if m["kind"] == "sql":
                sh = ("cte+" if "WITH " in st[1] else "") + ("join" if " JOIN " in st[1] else "agg" if "COUNT(" in st[1] or "SUM(" in st[1]
                                                              else "sub" if "FROM (" in st[1] else "proj")
                hist_shape[sh] = hist_shape.get(sh, 0) + 1
                if "rows" in o["oracle"] and o["oracle"]["rows"]:
                    nontriv_h = True
            same_engine = short_cmp(o["impl"], o["oracle"])
            desc = {"history": [x["text"] for x in h["meta"][: i + 1]], "failing_step": i, "step": m["text"],
                    "impl": short(o["impl"]), "engine_oracle": short(o["oracle"]),
                    "verdict(impl=model,impl=spec,model=spec,in_domain,engine=spec,alias_exact)": v[6 * i: 6 * i + 6],
                    "worker_steps": h["steps"][: i + 1], "coq_case": it if len(it) < 6000 else it[:6000] + "..."}
            beyond = any((x in m["sigs"] or x in inherited) and accepted(x, False, o)
                         for x in (SIG_DUPCTE, SIG_SELFREF, SIG_ALIAS, SIG_CAPTURE, SIG_REJOIN))
            if not es and not m.get("selfref_cte"):
                engine_fail.append(desc)
            if not isp or (es and not same_engine):
                n_dev += 1
                # a deviation carries the signature of a known finding only if the history has that finding's shape AND
                # the faithful Coq model reproduces what the implementation did
                sig = None
                for cand in list(m["sigs"]) + [x for x in inherited if x not in m["sigs"]]:
                    if accepted(cand, im, o):
                        sig = cand
                        break
                if sig is not None and created is not None:
                    rt_taint[created] = sig
                if sig is None:
                    sig = "C13/unexplained:" + m["kind"] + ":" + (o["impl"].get("err") or "result-differs") + \
                          (":shape=" + m["sigs"][0].split("/")[1][:24] if m["sigs"] else "")
                hist_sig[sig] = hist_sig.get(sig, 0) + 1
                ctx.deviation(sig, what_of(sig, o), desc)
            elif not im and ax and not beyond:
                model_fail.append(desc)
            if dom and not ms:
                thm_fail.append(desc)
        n_nontriv += nontriv_h
        if len(ctx.samples) < 4 and len(h["steps"]) >= 4:
            ctx.sample({"history": [x["text"] for x in h["meta"]], "verdict": v})
    with open(os.path.join(ctx.build, "debug.json"), "w") as f:
        json.dump({"model_fail": model_fail[:40], "engine_fail": engine_fail[:40], "thm_fail": thm_fail[:40],
                   "unexplained": [d for d in ctx.deviations if d["signature"].startswith("C13/unexplained")][:40],
                   "per_signature": {sg: [d["replay"] for d in ctx.deviations if d["signature"] == sg][:4]
                                     for sg in {d["signature"] for d in ctx.deviations}}}, f, indent=1)
    if model_fail:
        ctx.broken("T3:impl-vs-model", f"{len(model_fail)} steps where the implementation agrees with the spec but not with "
                   f"the model; first: {model_fail[0]['step']}", data=model_fail[:5])
    if engine_fail:
        ctx.broken("T3:spec-vs-engine", f"{len(engine_fail)} steps where DuckDB's own answer differs from the Coq spec "
                   f"(engine conformance of C13/Query.v); first: {engine_fail[0]['step']}", data=engine_fail[:5])
    if thm_fail and proved:
        ctx.broken("domain-vs-evaluation", f"{len(thm_fail)} steps where the premises of the theorems hold (for this and all "
                   f"earlier steps of the history: no_capture, fresh CTE names, right and complete schema cache, no `*` column) "
                   f"but model and spec evaluate differently; first: {thm_fail[0]['step']}", data=thm_fail[:5])
    ctx.coverage.update({
        "evaluations": n_steps, "distinct_nontrivial": n_nontriv,
        "rule": "evaluation = one step of one history, compared four ways (implementation, Coq model, Coq spec, DuckDB with "
                "materialised frames); histories are distinct by their step list; non-trivial = the history contains a "
                "session.sql step over registered views whose engine answer is non-empty",
        "histories": len(kept), "steps_with_all_theorem_premises_true": n_dom, "deviating_steps": n_dev,
        "steps_not_judged_after_use_of_a_frame_the_engine_rejects": n_skipped,
        "histogram_history_length": hist_len, "histogram_step_kind": hist_kind, "histogram_query_shape": hist_shape,
        "histogram_impl_exception": hist_err, "histogram_deviation_signature": hist_sig,
    })
    ctx.assumptions += [
        "C13.Query.eval_sq / cte_env are my definitions of DuckDB 1.2's SELECT and WITH semantics on the generated fragment "
        "(every CTE of a WITH list visible in every body, cycles are errors); validated on every run against DuckDB itself "
        "(the engine=spec column of T3)",
        "sqlglot's parser and qualify are not modelled beyond: identifiers are lower-cased (Spark input dialect), `*` over a "
        "cached name is expanded to the cached columns, a column unknown to the cache is an error",
        "CTE names of the model are allocated by a counter; the implementation's are crc32 prefixes (assumed collision-free "
        "within a query)",
        "DataFrame objects are not mutated after construction (C04), so a stored frame is identified with its definition",
    ]
    ctx.trusted += ["checks/c13_worker.py materialises every DataFrame value as a DuckDB temp table on a second connection; "
                    "that engine answer is the property's oracle"]


def accepted(sig, impl_equals_model, o) -> bool:
    """a deviation carries a known finding's signature only if the step has that finding's shape (the candidates) AND the
    faithful Coq model reproduces what the implementation did; three findings live below the model's abstraction
    (crc32 CTE names, table aliases) and are judged by their unmistakable symptom instead"""
    msg = o["impl"].get("msg", "")
    if sig == SIG_DUPCTE:
        return "Duplicate CTE name" in msg
    if sig == SIG_SELFREF:
        return "Circular reference" in msg
    if sig == SIG_CAPTURE:
        # the captured inner CTE may close a cycle through the user's CTE of that name; how the engine's binder reports an
        # (unused) cyclic CTE is below the model
        return impl_equals_model or "Circular reference" in msg or "There is a WITH item named" in msg
    if sig == SIG_REJOIN:
        a, b = o["impl"], o["oracle"]
        if "rows" not in a or "rows" not in b or a["cols"] != b["cols"] or len(a["rows"]) <= len(b["rows"]):
            return False
        rest = list(a["rows"])
        for r in b["rows"]:
            if r not in rest:
                return False
            rest.remove(r)
        return True
    if sig == SIG_ALIAS:
        a, b = o["impl"], o["oracle"]
        return ("cols" in a and "cols" in b and len(a["cols"]) == len(b["cols"]) and a["cols"] != b["cols"]
                and all(x == y or re.fullmatch(r"t\d+", x) for x, y in zip(a["cols"], b["cols"])))
    return impl_equals_model


def short_cmp(a, b) -> bool:
    if ("err" in a) != ("err" in b):
        return False
    if "err" in a:
        return True
    return a["cols"] == b["cols"] and a["rows"] == b["rows"]


def what_of(sig, o):
    if sig == SIG_STALE:
        return ("after createOrReplaceTempView(name) re-registers a name with different columns the schema cache keeps the "
                "first column list (catalog.add_table returns early), so session.sql over the name expands * / validates "
                "columns against the stale list: it raises or returns the old columns")
    if sig == SIG_HIJACK:
        return ("a CTE of the user's query named like a registered temp view is hijacked: the reference to the user's own CTE "
                "is retargeted to the view's CTE chain (DuckDB/Spark: the CTE shadows the view)")
    if sig == SIG_CAPTURE:
        return ("a view built from session.sql keeps the user's CTE names in its chain; a later query over that view which "
                "defines a CTE with the same name silently replaces the view's inner CTE (wrong rows, no error)")
    if sig == SIG_UNRESOLVED:
        return ("once any temp view is registered (or a failed table lookup happened) the schema cache is non-empty and "
                "sqlglot's qualify can no longer resolve an unqualified column over a real table the cache has not seen: "
                "session.sql('select a from real_table') raises OptimizeError although the engine answers the query")
    if sig == SIG_SELFREF:
        return ("a temp view that shadows a real table and whose definition reads that table (e.g. a filtered copy registered "
                "under the table's name): a query naming the view with the same alias as the reference inside the view's own "
                "CTE makes the splice rewrite that inner reference too -- DuckDB reports a circular CTE reference")
    if sig == SIG_ALIASREF:
        return ("while the schema cache is empty (fresh session, no view registered, no session.table call) sqlglot's qualify "
                "expands references to select aliases before resolving columns: in session.sql('select a + 1 as a from t where "
                "a > 1') the WHERE column a becomes (a + 1) -- wrong rows without an error; an aggregate alias lands in WHERE")
    if sig == SIG_REJOIN:
        return ("df2 = df.join(df', on=k) with df' a projection of df, then df2.join(df'', on=k) with df'' again a projection of df: "
                "the second join condition degenerates and every row is multiplied (DataFrame-level join of frames that share "
                "their CTEs, cf. C02); no view is involved")
    if sig == SIG_ALIAS:
        return ("a column alias of the main SELECT that equals the name of a CTE of the same query is renamed together with the "
                "CTE when the user's CTE names are replaced by crc32 names: the result column is called t<digits>")
    if sig == SIG_DUPCTE:
        return ("two SELECTs of one query with the same text (two CTE bodies, or a CTE body and the main SELECT) get the same "
                "crc32 CTE name when the frame is frozen / emitted: DuckDB rejects the SQL with `Duplicate CTE name`")
    if sig == SIG_STAR:
        return ("session.sql('select * from <real table>') on a table the schema cache has not seen keeps `*` as its only "
                "column: df.columns == ['*'], createOrReplaceTempView of it raises AttributeError (after registering), "
                "joins on it raise")
    return "session.table / session.sql / a transformed frame differs from the engine's answer: " + json.dumps(short(o["impl"]))[:200]


def replay(ctx: core.Ctx, rp: dict) -> int:
    r = rp.get("replay") or (rp.get("no_longer_checks") or [{}])[0].get("data", [{}])[0]
    steps = r["worker_steps"]
    out = run_worker([{"steps": steps}])[0]
    for st, o in zip(steps, out):
        print("step:", st)
        print("   implementation:", json.dumps(short(o["impl"])))
        print("   engine oracle :", json.dumps(short(o["oracle"])))
    last = out[-1]
    same = short_cmp(last["impl"], last["oracle"])
    print("last step agrees with the engine:", same)
    return 0
