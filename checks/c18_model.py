"""C18: encoding of traces (the JSON the worker executes) as Coq terms of SF.C18.Compile.step, and the
canonical dump strings that correspond to C18.Check.dump_frame / dump_regs."""
from __future__ import annotations

import re

TBL_ID = {"T1": 1, "T2": 2, "T3": 3, "T4": 4, "T5": 5}
TBL_COLS = {"T1": ["a", "b"], "T2": ["a", "c"], "T3": ["c", "d", "e"], "T4": ["b", "a"], "T5": ["b", "z", "a"]}


def _s(x: str) -> str:
    for ch in x:
        if not (32 <= ord(ch) < 127) or ch == '"':
            raise ValueError(f"unsupported character in name {x!r}")
    return '"' + x + '"'


def _n(h: str) -> int:
    return int(h[1:])


def _h(h: str) -> str:
    return f"({'true' if h[0] == 'p' else 'false'}, {_n(h)})"


def _slist(xs) -> str:
    return "[" + "; ".join(_s(x) for x in xs) + "]"


def _ucol(r) -> str:
    q = r["q"]
    if q is None:
        return f"(mkUH None {_s(r['c'])})"
    if q[0] == "name":
        return f"(mkUH (Some (inl {_s(q[1])})) {_s(r['c'])})"
    if q[0] == "frame":
        return f"(mkUH (Some (inr {_h(q[1])})) {_s(r['c'])})"
    raise ValueError(q)


AK = {"collect": "ACollect", "count": "ACount", "show": "AShow", "columns": "AColumns", "sqltext": "ASqlText"}


def step_coq(st) -> str:
    op = st["op"]
    if op == "create":
        return f"(SCreate {_n(st['dst'])} {TBL_ID[st['tbl']]} {_slist(TBL_COLS[st['tbl']])})"
    if op == "select":
        return f"(SSelect {_n(st['dst'])} {_h(st['src'])} [{'; '.join(_ucol(c) for c in st['cols'])}])"
    if op == "where":
        return f"(SWhere {_n(st['dst'])} {_h(st['src'])} {_ucol(st['col'])} ({int(st['k'])})%Z)"
    if op == "alias":
        return f"(SAlias {_n(st['dst'])} {_h(st['src'])} {_s(st['name'])})"
    if op == "join":
        on = st["on"]
        o = f"(OnExpr {_ucol(on[1])} {_ucol(on[2])})" if on[0] == "expr" else f"(OnNames {_slist(on[1])})"
        return f"(SJoin {_n(st['dst'])} {_h(st['l'])} {_h(st['r'])} {o})"
    if op == "view":
        return f"(SView {_h(st['src'])} {_s(st['name'])})"
    if op == "sql":
        cols = "None" if st["cols"] is None else f"(Some {_slist(st['cols'])})"
        return f"(SSql {_n(st['dst'])} {_s(st['view'])} {cols})"
    if op in AK:
        return f"(SAct {AK[op]} {_h(st['src'])})"
    if op == "schema":
        return f"(SSchema {_h(st['src'])})"
    if op == "bad":
        k = {"missing_col": "BMissingCol", "missing_view": "BMissingView", "bad_join": "BBadJoin"}.get(st["kind"])
        if st["kind"] == "alias_then_missing":
            k = f"(BAliasThenMissing {_s(st.get('name', 'zz'))})"
        if k is None:
            raise ValueError(st["kind"])
        return f"(SBad {k} {_h(st['src'])})"
    raise ValueError("no Coq encoding for op " + op)


def trace_coq(trace) -> str:
    return "[" + "; ".join(f"({'true' if st['o'] == 'P' else 'false'}, {step_coq(st)})" for st in trace) + "]"


# ---- the implementation's observations in the model's dump format ---------------------------------

def _idx(x) -> str:
    if x is None:
        return "n"
    return str(x)


def frame_str(fr) -> str:
    ctes = ";".join(f"{b},{s},{'.'.join(cols)}" for b, s, cols in fr["ctes"])
    joins = ";".join(f"{_idx(j[0])}>{'.'.join(_idx(t) for t in j[1])}" for j in fr["joins"])
    wh = ".".join(_idx(t) for t in fr["where"])
    sel = ",".join(f"{_idx(t)}.{n}" for t, n in fr["sel"])
    return (f"C:{ctes}~F:{fr['from']}~J:{joins}~W:{wh}~S:{sel}~B:{fr['branch']}~Q:{fr['seq']}~L:{fr['last_op']}"
            f"~U:{fr['uuids']}")


_HASHNAME = re.compile(r"^t\d{4,9}$")


def regs_str(r) -> str:
    amap = ",".join(f"{k}:{v}" for k, v in r["amap"].items())
    # a cached column that is named after a CTE (captured identifier) carries a hash name: written "^" as in the model
    sc = ";".join(f"{k}={'.'.join('^' if _HASHNAME.match(c) else c for c in v)}" for k, v in r["scache"].items())
    return (f"k{r['known']} b{r['kbranch']} s{r['kseq']} a[{amap}] c{r['counter']} v[{','.join(r['views'])}] "
            f"sc[{sc}] e{r['engine_views']}")


ACTIONS = ("collect", "count", "show", "columns", "sqltext", "schema", "bad", "topandas", "toarrow")


def impl_step_str(st, ob) -> str:
    fr = "-"
    if ob.get("ok") and "frame" in ob:
        fr = frame_str(ob["frame"]) if "dump_error" not in ob["frame"] else "dumperr"
    act = "-"
    if st["op"] in ACTIONS:
        act = "ok" if ob.get("ok") else "err"
    return f"{regs_str(ob['regs'])}#{fr}#{act}"
