"""C15 -- table.update / table.delete change exactly the rows the predicate selects; nothing before execute().

T1  translate/c15_facts.py  -> Gen/C15Facts.v  (facts record `gen_cfg`: None->TRUE, reduce operator, re-qualification,
                                                alias stripping, str handling, statement target, laziness counts)
Prf coq/props/C15.v         -> cfg_ok gen_cfg + C15_partial / C15_histories / C15_lazy / C15_no_cte_qualifier_left
                               (all tables, predicates, assignment maps, histories) + three refutations of C15_full
T2  exported Update/Delete tree == model's statement (per call; agreement for every table content)
T3  table read from the raw DuckDB connection before update()/delete(), after it, before and after execute(),
    in row-id order, + Count returned + statements that reached the connection   == model == property's meaning;
    the property's meaning itself is cross-checked against an independent SELECT on DuckDB.
"""
from __future__ import annotations

import json
import logging
import random

from vlib import core, rel
from vlib.core import strlit, listlit, natlit, boollit, optlit
from translate import c15_facts

HEADER = """From SF Require Import Base.Val Base.Expr C15.Dml C15.DmlCheck.
From Gen Require Import C15Facts.
Open Scope string_scope.
Definition check := DmlCheck.check gen_cfg.
"""

COLS = ["a", "b", "s", "f"]
TYPES = {"a": "int", "b": "int", "s": "str", "f": "bool"}
DDL = "a BIGINT, b BIGINT, s VARCHAR, f BOOLEAN"
# the "lexical" schema: string columns, a column spelled like a string literal that predicates use ('boss') and a
# column whose name needs quoting -- for SQL-string predicates written with Spark's lexical rules
SCHEMAS = {
    "std": {"cols": COLS, "ddl": DDL},
    "lex": {"cols": ["a", "name", "boss", "full name"], "ddl": 'a BIGINT, name VARCHAR, boss VARCHAR, "full name" VARCHAR'},
}
SCH = {"name": "std", **SCHEMAS["std"]}


def use_schema(name):
    SCH.update({"name": name, **SCHEMAS[name]})


def qid(c) -> str:
    return '"' + c.replace('"', '""') + '"'


def col_list() -> str:
    return ", ".join(qid(c) for c in SCH["cols"])


def plain_ident(c) -> bool:
    import re as _re
    return bool(_re.fullmatch(r"[a-z_][a-z0-9_]*", c))


TABLES = {
    "empty": [],
    "one": [(1, 2, "x", True)],
    "nulls": [(None, None, None, None), (None, 1, "x", None), (1, None, None, False)],
    "t1": [(1, 2, "x", True), (2, 1, "y", False), (None, 3, "x", None), (1, 1, None, True), (1, 2, "x", True),
           (3, None, "z", False)],
    "t2": [(0, 0, "", False), (-1, 5, "a", True), (-1, 5, "a", True), (None, None, None, None), (2, -3, "b", None),
           (4, 4, "a", False), (2, 7, "c", True), (None, 1, "b", False), (2, -3, "b", None)],
    "dups": [(1, 1, "x", True)] * 3 + [(2, 2, "y", None)] * 2,
}

ERR = {"ValueError": "EValue", "IndexError": "EIndex", "ParserException": "EParser", "BinderException": "EBinder",
       "CatalogException": "ECatalog"}

SIG_SQL = "C15/where-sql-string-not-parsed-as-predicate"
SIG_UNQ = "C15/set-value-unqualified-column-raises-ValueError"
SIG_ALIAS = "C15/set-value-automatic-alias-kept-ParserException"
SIG_QKEY = "C15/set-column-name-needing-quotes-emitted-unquoted"


# ---- expression descriptors ------------------------------------------------------------------------
# ('col', name, 'T'|'F'|'P'|'C')   T: table['name'], F: F.col('name'), P: F.col('<physical table>.name'),
#                                  C: F.col('<cte name>.name')   (P, C: outside the property's wording, inside the theorem's domain)
# ('lit', v) ('raw', v) ('bin', Op, a, b) ('not', a) ('neg', a) ('isnull', a) ('if', c, t, e) ('coalesce', a, b)

def tup(x):
    return tuple(tup(y) for y in x) if isinstance(x, list) else x


class ExprGen:
    def __init__(self, rnd, style):
        """style: 'T' | 'F' | 'M' (mixed per reference)"""
        self.r, self.style = rnd, style

    def col(self, name):
        q = self.style if self.style in "TF" else self.r.choice("TFPC" if self.style == "X" else "TF")
        return ("col", name, q)

    def int_e(self, depth=2):
        r = self.r
        if depth == 0 or r.random() < 0.35:
            if r.random() < 0.7:
                return self.col(r.choice(["a", "b"]))
            return ("lit", r.choice([0, 1, 2, -1, 3]))
        k = r.random()
        if k < 0.6:
            return ("bin", r.choice(["Add", "Sub", "Mul"]), self.int_e(depth - 1), self.int_e(depth - 1))
        if k < 0.7:
            return ("neg", self.int_e(depth - 1))
        if k < 0.85:
            return ("if", self.bool_e(depth - 1), self.int_e(depth - 1), self.int_e(depth - 1))
        return ("coalesce", self.int_e(depth - 1), ("lit", r.choice([0, 9])))

    def str_e(self, depth=1):
        r = self.r
        k = r.random()
        if depth == 0 or k < 0.5:
            return self.col("s") if r.random() < 0.5 else ("lit", r.choice(["x", "a", "zz", ""]))
        if k < 0.75:
            return ("if", self.bool_e(depth - 1), self.str_e(depth - 1), self.str_e(depth - 1))
        return ("coalesce", self.col("s"), ("lit", r.choice(["n", "x"])))

    def bool_e(self, depth=2):
        r = self.r
        k = r.random()
        if depth > 0 and k < 0.25:
            return ("bin", r.choice(["And", "Or"]), self.bool_e(depth - 1), self.bool_e(depth - 1))
        if depth > 0 and k < 0.35:
            return ("not", self.bool_e(depth - 1))
        if k < 0.5:
            return ("isnull", self.col(r.choice(COLS)))
        if k < 0.6:
            return ("bin", r.choice(["Eq", "Neq", "Lt", "Ge"]), self.col("s"), ("lit", r.choice(["x", "a", "b", ""])))
        if k < 0.68:
            return self.col("f")
        if depth > 0 and k < 0.74:
            return ("if", self.bool_e(depth - 1), self.bool_e(depth - 1), self.bool_e(depth - 1))
        if depth > 0 and k < 0.78:
            return ("coalesce", self.col("f"), ("lit", r.choice([True, False])))
        op = r.choice(["Eq", "Neq", "Lt", "Le", "Gt", "Ge", "NullSafeEq"])
        return ("bin", op, self.int_e(1), self.int_e(1))

    def typed(self, ty, depth=2):
        return {"int": self.int_e, "str": self.str_e, "bool": self.bool_e}[ty](depth if ty != "str" else min(depth, 1))


def e_refs(e):
    if e[0] == "col":
        return [e]
    out = []
    for x in e[1:]:
        if isinstance(x, tuple):
            out += e_refs(x)
    return out


def restyle(e, q):
    if e[0] == "col":
        return ("col", e[1], q)
    return tuple(restyle(x, q) if isinstance(x, tuple) else x for x in e)


NAMES = {"phys": None, "cte": None}    # names of the table under test (set by run_history)


def build(e, t, F):
    """the sqlframe Column a user would write"""
    k = e[0]
    if k == "col":
        if e[2] == "P":
            return F.col(f"{NAMES['phys']}.{e[1]}")
        if e[2] == "C":
            return F.col(f"{NAMES['cte']}.{e[1]}")
        return t[e[1]] if e[2] == "T" else F.col(e[1])
    if k == "lit":
        return F.lit(e[1])
    if k == "raw":
        return e[1]
    if k == "bin":
        a, b = build(e[2], t, F), build(e[3], t, F)
        return BIN[e[1]](a, b)
    if k == "not":
        return ~build(e[1], t, F)
    if k == "neg":
        return -build(e[1], t, F)
    if k == "isnull":
        return build(e[1], t, F).isNull()
    if k == "if":
        return F.when(build(e[1], t, F), build(e[2], t, F)).otherwise(build(e[3], t, F))
    if k == "coalesce":
        return F.coalesce(build(e[1], t, F), build(e[2], t, F))
    raise ValueError(e)


BIN = {
    "Add": lambda a, b: a + b, "Sub": lambda a, b: a - b, "Mul": lambda a, b: a * b,
    "Eq": lambda a, b: a == b, "Neq": lambda a, b: a != b, "Lt": lambda a, b: a < b, "Le": lambda a, b: a <= b,
    "Gt": lambda a, b: a > b, "Ge": lambda a, b: a >= b, "And": lambda a, b: a & b, "Or": lambda a, b: a | b,
    "NullSafeEq": lambda a, b: a.eqNullSafe(b),
}


def e_q(e, branch, alias=None) -> str:
    """Coq qexpr term of the user-level expression; `alias` = automatic top-level alias of a function-built Column"""
    k = e[0]
    if k == "col":
        q = {"T": branch, "F": None, "P": NAMES["phys"], "C": NAMES["cte"]}[e[2]]
        t = f"(QCol {optlit(None if q is None else strlit(q))} {strlit(e[1])})"
    elif k in ("lit", "raw"):
        t = f"(QLit {rel.val_coq(e[1])})"
    elif k == "bin":
        t = f"(QBin {e[1]} {e_q(e[2], branch)} {e_q(e[3], branch)})"
    elif k == "not":
        t = f"(QNot {e_q(e[1], branch)})"
    elif k == "neg":
        t = f"(QNeg {e_q(e[1], branch)})"
    elif k == "isnull":
        t = f"(QIsNull {e_q(e[1], branch)})"
    elif k == "if":
        t = f"(QIf {e_q(e[1], branch)} {e_q(e[2], branch)} {e_q(e[3], branch)})"
    elif k == "coalesce":
        t = f"(QCoalesce {e_q(e[1], branch)} {e_q(e[2], branch)})"
    else:
        raise ValueError(e)
    return f"(QAlias {t} {strlit(alias)})" if alias else t


SQLOP = {"Add": "+", "Sub": "-", "Mul": "*", "Eq": "=", "Neq": "<>", "Lt": "<", "Le": "<=", "Gt": ">", "Ge": ">=",
         "And": "and", "Or": "or", "NullSafeEq": "is not distinct from"}


def e_sql(e, top=False, spark=False) -> str:
    """own SQL rendering (lower-case keywords): used for the SQL-string style and for the reference SELECT"""
    k = e[0]
    R = lambda x: e_sql(x, spark=spark)
    if k == "col":
        if spark:       # Spark: back-quoted identifiers
            return e[1] if plain_ident(e[1]) else "`" + e[1].replace("`", "``") + "`"
        return e[1] if plain_ident(e[1]) else qid(e[1])
    if k in ("lit", "raw"):
        v = e[1]
        if v is None:
            return "null"
        if isinstance(v, bool):
            return "true" if v else "false"
        if isinstance(v, int):
            return str(v) if v >= 0 else f"({v})"
        if spark:       # Spark: double-quoted string literals, backslash escapes
            if "'" in v:
                return "'" + v.replace("\\", "\\\\").replace("'", "\\'") + "'"
            return '"' + v.replace("\\", "\\\\").replace('"', '\\"') + '"'
        return "'" + v.replace("'", "''") + "'"
    if k == "bin":
        s = f"{R(e[2])} {SQLOP[e[1]]} {R(e[3])}"
    elif k == "not":
        s = f"not {R(e[1])}"
    elif k == "neg":
        s = f"- {R(e[1])}"
    elif k == "isnull":
        s = f"{R(e[1])} is null"
    elif k == "if":
        return f"case when {R(e[1])} then {R(e[2])} else {R(e[3])} end"
    elif k == "coalesce":
        return f"coalesce({R(e[1])}, {R(e[2])})"
    else:
        raise ValueError(e)
    return s if top else f"({s})"


def e_show(e) -> str:
    if e[0] == "col":
        return {"T": f"t['{e[1]}']", "F": f"col('{e[1]}')", "P": f"col('<table>.{e[1]}')", "C": f"col('<cte>.{e[1]}')"}[e[2]]
    if e[0] == "raw":
        return repr(e[1])
    if e[0] == "lit":
        return f"lit({e[1]!r})"
    return e[0] + "(" + ", ".join(e_show(x) if isinstance(x, tuple) else str(x) for x in e[1:]) + ")"


# ---- calls -------------------------------------------------------------------------------------------
# call = {"kind": "update"|"delete", "set": [[key_style, col, value_desc], ...], "where": where}
# where = {"kind": "none"} | {"kind": "bool", "v": b} | {"kind": "cols", "items": [e...], "as_list": bool}
#         | {"kind": "sql", "e": e(F-style)} | {"kind": "name", "col": "f"}     (a str that is just a column name)

def where_kind_ok_for_sql(e) -> bool:
    """strings sqlglot cannot read as a column production: top-level operator / NOT / IS NULL, no outer parens"""
    return e[0] in ("bin", "not", "isnull")


def gen_where(r, style=None):
    k = r.random()
    if k < 0.10:
        return {"kind": "none"}
    if k < 0.14:
        return {"kind": "bool", "v": r.random() < 0.5}
    if k < 0.17:
        return {"kind": "name", "col": "f"}
    if k < 0.32:
        g = ExprGen(r, "F")
        for _ in range(20):
            e = g.bool_e(2)
            if where_kind_ok_for_sql(e):
                return {"kind": "sql", "e": e}
    st = style or r.choice(["T", "T", "T", "F", "F", "M", "M", "X"])
    g = ExprGen(r, st)
    if k < 0.47:
        return {"kind": "cols", "items": [g.bool_e(1) for _ in range(r.randint(2, 3))], "as_list": True}
    return {"kind": "cols", "items": [g.bool_e(2)], "as_list": r.random() < 0.15}


def gen_set(r, feature=None):
    """feature: None (in the proved domain) | 'unq' (a value with col('x')) | 'alias' (a function-built value)"""
    n = r.choice([1, 1, 2, 2, 3])
    cols = r.sample(COLS, n)
    g = ExprGen(r, "T")
    entries = []
    for c in cols:
        ty = TYPES[c]
        kr = r.random()
        if kr < 0.25:
            v = ("raw", {"int": r.choice([0, 5, -2]), "str": None, "bool": r.choice([True, False])}[ty]) \
                if ty != "str" or r.random() < 0.5 else ("lit", r.choice(["zz", "x"]))
        elif kr < 0.35:
            v = ("lit", {"int": r.choice([7, -1]), "str": r.choice(["q", ""]), "bool": True}[ty])
        else:
            for _ in range(30):
                v = g.typed(ty, 2)
                if v[0] not in ("if", "coalesce"):
                    break
            else:
                v = g.col(c)
        entries.append([r.choice(["str", "T", "F"]), c, v])
    if feature == "unq":
        i = r.randrange(len(entries))
        ty = TYPES[entries[i][1]]
        for _ in range(50):
            v = ExprGen(r, r.choice(["F", "M"])).typed(ty, 1)
            if v[0] not in ("if", "coalesce") and any(x[2] == "F" for x in e_refs(v)):
                entries[i][2] = v
                break
        else:
            entries[i][2] = ("col", entries[i][1], "F")
    if feature == "alias":
        i = r.randrange(len(entries))
        ty = TYPES[entries[i][1]]
        for _ in range(50):
            v = g.typed(ty, 2)
            if v[0] in ("if", "coalesce"):
                entries[i][2] = v
                break
        else:
            entries[i][2] = ("coalesce", ("col", entries[i][1], "T"), ("lit", {"int": 0, "str": "n", "bool": False}[ty]))
    if feature is None and r.random() < 0.15 and n >= 1:
        # swap two columns of equal type
        entries = [["str", "a", ("col", "b", "T")], ["T", "b", ("col", "a", "T")]]
    return entries


def gen_call(r):
    k = r.random()
    if k < 0.4:
        return {"kind": "delete", "where": gen_where(r)}
    feature = None
    if k > 0.88:
        feature = "unq"
    elif k > 0.76:
        feature = "alias"
    w = gen_where(r)
    if feature and w["kind"] == "sql":
        w = {"kind": "cols", "items": [ExprGen(r, "T").bool_e(1)], "as_list": False}   # one finding shape per call
    return {"kind": "update", "set": gen_set(r, feature), "where": w}


def call_features(call):
    f = set()
    w = call["where"]
    if w["kind"] == "sql":
        f.add("sql")
    for _, c, v in call.get("set", []):
        if not plain_ident(c):
            f.add("qkey")
        if v[0] in ("if", "coalesce"):
            f.add("alias")
        if any(x[2] == "F" for x in e_refs(v)):
            f.add("unq")
    return f


def where_spec_sql(w) -> str:
    k = w["kind"]
    if k == "none":
        return "true"
    if k == "bool":
        return "true" if w["v"] else "false"
    if k == "name":
        return w["col"]
    if k == "sql":
        return e_sql(w["e"])
    return " and ".join(e_sql(e) for e in w["items"])


def ref_select(call) -> str:
    """independent statement of the property's meaning as a SELECT over the table's current contents"""
    p = where_spec_sql(call["where"])
    if call["kind"] == "delete":
        return f"SELECT {col_list()} FROM {{t}} WHERE ({p}) IS NOT TRUE ORDER BY rowid"
    last = {}
    for _, c, v in call["set"]:
        last[c] = v
    items = []
    for c in SCH["cols"]:
        if c in last:
            items.append(f"CASE WHEN ({p}) IS TRUE THEN {e_sql(last[c])} ELSE {qid(c)} END")
        else:
            items.append(qid(c))
    return f"SELECT {', '.join(items)} FROM {{t}} ORDER BY rowid"


def call_show(call) -> str:
    w = call["where"]
    ws = {"none": lambda: "<omitted>", "bool": lambda: repr(w["v"]), "name": lambda: repr(w["col"]),
          "sql": lambda: repr(e_sql(w["e"], top=True, spark=w.get("lex") == "spark")),
          "cols": lambda: ("[" + ", ".join(e_show(e) for e in w["items"]) + "]") if w.get("as_list") else e_show(w["items"][0])}[w["kind"]]()
    if call["kind"] == "delete":
        return f"t.delete(where={ws})"
    ks = {"str": lambda c: repr(c), "T": lambda c: f"t['{c}']", "F": lambda c: f"col('{c}')"}
    return "t.update({" + ", ".join(f"{ks[s](c)}: {e_show(v)}" for s, c, v in call["set"]) + "}, where=" + ws + ")"


# ---- running the implementation -----------------------------------------------------------------------

class ConnProxy:
    """DB-API pass-through that records every statement reaching the connection (no source hook)"""

    def __init__(self, conn):
        self._c = conn
        self.log = []

    def execute(self, sql, *a, **k):
        self.log.append(sql)
        return self._c.execute(sql, *a, **k)

    def sql(self, q, *a, **k):
        self.log.append(q)
        return self._c.sql(q, *a, **k)

    def cursor(self):
        return self

    def __getattr__(self, n):
        return getattr(self._c, n)


class Impl:
    """mode None: tables opened by their bare name (default schema).  mode 'schema' / 'catalog': every table is opened as
    archive.<t> / memory.archive.<t>, and (usually) a table of the same name exists in the default schema.  One mode per
    process: sqlframe's catalog refuses to mix nesting levels of table names within a session."""

    def __init__(self, mode=None):
        import duckdb
        self.mode = mode
        from sqlframe.duckdb import DuckDBSession
        import sqlframe.duckdb.functions as F
        from sqlglot import expressions as exp
        logging.getLogger("sqlframe").setLevel(logging.ERROR)
        self.raw = duckdb.connect()
        self.proxy = ConnProxy(self.raw)
        self.session = DuckDBSession(conn=self.proxy)
        if self.session._conn is not self.proxy:
            raise RuntimeError("DuckDBSession singleton was created before the check could install its connection proxy")
        self.F, self.exp = F, exp
        self.n = 0
        if mode:
            self.raw.execute("CREATE SCHEMA archive")

    def new_table(self, rows, shadow=None):
        """returns (name to open the table with, bare name, name of the same-named table in the default schema or None)"""
        self.n += 1
        bare = f"c15{'q' if self.mode else ''}_{self.n}"
        full = bare if not self.mode else ("archive." + bare if self.mode == "schema" else "memory.archive." + bare)
        for nm, rs in ((full, rows), ("main." + bare, shadow)):
            if rs is None or (nm != full and not self.mode):
                continue
            self.raw.execute(f"CREATE TABLE {nm} ({SCH['ddl']})")
            if rs:
                self.raw.executemany(f"INSERT INTO {nm} VALUES (?, ?, ?, ?)", [list(r) for r in rs])
        return full, bare, ("main." + bare if self.mode and shadow is not None else None)

    def read(self, name):
        return [tuple(r) for r in self.raw.execute(f"SELECT {col_list()} FROM {name} ORDER BY rowid").fetchall()]

    def drop(self, name):
        self.raw.execute(f"DROP TABLE IF EXISTS {name}")

    def where_arg(self, w, t):
        k = w["kind"]
        if k == "none":
            return None
        if k == "bool":
            return w["v"]
        if k == "name":
            return w["col"]
        if k == "sql":
            return e_sql(w["e"], top=True, spark=w.get("lex") == "spark")
        cols = [build(e, t, self.F) for e in w["items"]]
        return cols if w.get("as_list") else cols[0]

    def build_call(self, call, t):
        """returns (lazy expression, coq term of the call with the aliases the built Columns carry)"""
        F, exp = self.F, self.exp
        branch = t.branch_id
        w = call["where"]
        k = w["kind"]
        if k == "none":
            wq = "WNone"
        elif k == "bool":
            wq = f"(WBool {boollit(w['v'])})"
        elif k == "name":
            wq = f"(WStr {strlit(w['col'])} (QCol None {strlit(w['col'])}))"
        elif k == "sql":
            wq = f"(WStr {strlit(e_sql(w['e'], top=True, spark=w.get('lex') == 'spark'))} {e_q(w['e'], branch)})"
        warg = self.where_arg(w, t)
        if k == "cols":
            cols = warg if isinstance(warg, list) else [warg]
            wq = "(WCols " + listlit([e_q(e, branch, alias_of(c, exp)) for e, c in zip(w["items"], cols)]) + ")"
        if call["kind"] == "delete":
            return (lambda: t.delete(where=warg) if k != "none" else t.delete()), f"(CDelete {wq})"
        set_ = {}
        sq = []
        for ks, c, v in call["set"]:
            key = {"str": c, "T": t[c] if ks == "T" else None, "F": F.col(c) if ks == "F" else None}[ks]
            val = build(v, t, F)
            set_[key] = val
            al = alias_of(val, exp) if v[0] != "raw" else None
            sq.append(f"({e_q(('col', c, 'T' if ks == 'T' else 'F'), branch)}, {e_q(v, branch, al)})")
        return (lambda: t.update(set_, where=warg) if k != "none" else t.update(set_)), f"(CUpdate {listlit(sq)} {wq})"


def alias_of(col, exp):
    ex = getattr(col, "expression", None)
    return ex.alias if isinstance(ex, exp.Alias) else None


def err_name(ex) -> str:
    return ERR.get(type(ex).__name__, "EOther")


# ---- T2 exporter: sqlglot Update/Delete tree -> Coq stmt (fail-closed) -------------------------------------

def x_q(n, exp) -> str:
    t = type(n).__name__
    if isinstance(n, exp.Paren):
        return x_q(n.this, exp)
    if isinstance(n, exp.Alias):
        return f"(QAlias {x_q(n.this, exp)} {strlit(n.alias)})"
    if isinstance(n, exp.Column):
        if isinstance(n.this, exp.Star) or n.args.get("db") or n.args.get("catalog"):
            raise rel.NotExportable("star / db-qualified column")
        return f"(QCol {optlit(strlit(n.table)) if n.table else 'None'} {strlit(n.name)})"
    if isinstance(n, exp.Literal):
        if n.is_string:
            return f"(QLit (VStr {strlit(n.this)}))"
        try:
            return f"(QLit (VInt {core.zlit(int(n.this))}))"
        except ValueError:
            raise rel.NotExportable(f"non-integer numeric literal {n.this}")
    if isinstance(n, exp.Null):
        return "(QLit VNull)"
    if isinstance(n, exp.Boolean):
        return f"(QLit (VBool {boollit(bool(n.this))}))"
    binmap = {"Add": "Add", "Sub": "Sub", "Mul": "Mul", "EQ": "Eq", "NEQ": "Neq", "LT": "Lt", "LTE": "Le",
              "GT": "Gt", "GTE": "Ge", "And": "And", "Or": "Or", "NullSafeEQ": "NullSafeEq"}
    if t in binmap:
        return f"(QBin {binmap[t]} {x_q(n.this, exp)} {x_q(n.expression, exp)})"
    if isinstance(n, exp.Not):
        return f"(QNot {x_q(n.this, exp)})"
    if isinstance(n, exp.Neg):
        if isinstance(n.this, exp.Literal) and not n.this.is_string:
            return f"(QLit (VInt {core.zlit(-int(n.this.this))}))"
        return f"(QNeg {x_q(n.this, exp)})"
    if isinstance(n, exp.Is) and isinstance(n.expression, exp.Null):
        return f"(QIsNull {x_q(n.this, exp)})"
    if isinstance(n, exp.Case) and n.this is None:
        ifs = n.args.get("ifs") or []
        default = n.args.get("default")
        if len(ifs) != 1:
            raise rel.NotExportable("CASE with several WHEN")
        acc = x_q(default, exp) if default is not None else "(QLit VNull)"
        return f"(QIf {x_q(ifs[0].this, exp)} {x_q(ifs[0].args['true'], exp)} {acc})"
    if isinstance(n, exp.Coalesce) and len(n.expressions) == 1:
        return f"(QCoalesce {x_q(n.this, exp)} {x_q(n.expressions[0], exp)})"
    raise rel.NotExportable(f"expression node {t}")


def x_stmt(tree, exp) -> str:
    if not isinstance(tree, (exp.Update, exp.Delete)):
        raise rel.NotExportable(f"statement {type(tree).__name__}")
    allowed = {"this", "expressions", "where"} if isinstance(tree, exp.Update) else {"this", "where"}
    for k, v in tree.args.items():
        if v and k not in allowed:
            raise rel.NotExportable(f"statement arg {k}")
    tbl = tree.this
    if not isinstance(tbl, exp.Table) or tbl.args.get("alias"):
        raise rel.NotExportable("statement target is not a plain table")
    tq = listlit([strlit(p) for p in (tbl.catalog, tbl.db, tbl.name) if p])
    w = tree.args.get("where")
    wq = "None" if w is None else f"(Some {x_q(w.this, exp)})"
    if isinstance(tree, exp.Delete):
        return f"(SDelete {tq} {wq})"
    ents = []
    for e in tree.expressions:
        if not isinstance(e, exp.EQ):
            raise rel.NotExportable("SET item is not EQ")
        key = e.this
        if isinstance(key, str):
            kn = key
        elif isinstance(key, exp.Column) and not key.table:
            kn = key.name
        elif isinstance(key, exp.Identifier):
            kn = key.name
        else:
            raise rel.NotExportable(f"SET key {type(key).__name__}")
        ents.append(f"({strlit(kn)}, {x_q(e.expression, exp)})")
    return f"(SUpdate {tq} {listlit(ents)} {wq})"


# ---- one history on one table ----------------------------------------------------------------------------

def rows_coq(rows) -> str:
    return listlit([rel.row_coq(r) for r in rows])


def run_history(impl: Impl, rows, calls, order, shadow=None):
    """calls: list of call dicts; order: list of indices into calls = the order of execute() calls (an index may
    repeat or be missing).  Builds happen first when order is not the identity (interleaved otherwise).
    Returns a list of per-execution observation dicts (one per build; executed 0..n times)."""
    name, bare, shadow_name = impl.new_table(rows, shadow)
    out = []
    try:
        t = impl.session.table(name)
        cte = t._convert_leaf_to_cte().latest_cte_name
        NAMES["phys"], NAMES["cte"] = bare, cte
        path = name.split(".")[:-1]
        st = f"(mkT {strlit(bare)} {strlit(cte)} {strlit(t.branch_id)} {listlit([strlit(p) for p in path])})"
        ref = f"(mkRef {strlit('memory')} {strlit('main')} {strlit('archive' if impl.mode else 'main')} {strlit(bare)})"
        sequential = order == list(range(len(calls)))
        built = []

        def do_build(i):
            call = calls[i]
            rows0 = impl.read(name)
            n0 = len(impl.proxy.log)
            thunk, cq = None, None
            le, berr, bexc = None, None, None
            try:
                thunk, cq = impl.build_call(call, t)
                le = thunk()
            except rel.NotExportable:
                raise
            except Exception as ex:
                if cq is None:
                    raise
                berr, bexc = err_name(ex), f"{type(ex).__name__}: {str(ex)[:160]}"
            sent = len(impl.proxy.log) - n0
            rows1 = impl.read(name)
            exported, xerr = "None", None
            if le is not None:
                try:
                    exported = f"(Some {x_stmt(le.expression, impl.exp)})"
                except rel.NotExportable as ne:
                    xerr = str(ne)
            built.append({"call": call, "cq": cq, "le": le, "rows0": rows0, "rows1": rows1, "sent_build": sent,
                          "build_err": berr, "build_exc": bexc, "exported": exported, "export_err": xerr,
                          "sql": (str(le) if le is not None else None), "execs": []})

        def do_exec(i):
            b = built[i]
            pre = impl.read(name)
            spre = impl.read(shadow_name) if shadow_name else None
            ref = None
            try:
                ref = [tuple(r) for r in impl.raw.execute(ref_select(b["call"]).format(t=name)).fetchall()]
            except Exception as ex:  # the reference oracle itself failed (my renderer / typing): reported as broken
                ref = f"{type(ex).__name__}: {str(ex)[:120]}"
            if b["le"] is None:
                b["execs"].append({"pre": pre, "obs": None, "ref": ref, "shadow_pre": spre, "shadow_post": spre})
                return
            n0 = len(impl.proxy.log)
            xerr, xexc, count = None, None, None
            try:
                res = b["le"].execute()
                if res and len(res[0]) == 1 and isinstance(res[0][0], int):
                    count = res[0][0]
            except Exception as ex:
                xerr, xexc = err_name(ex), f"{type(ex).__name__}: {str(ex)[:160]}"
            sent = len(impl.proxy.log) - n0
            post = impl.read(name)
            b["execs"].append({"pre": pre, "obs": {"err": xerr, "exc": xexc, "rows": post, "count": count, "sent": sent},
                               "ref": ref, "shadow_pre": spre, "shadow_post": impl.read(shadow_name) if shadow_name else None})

        if sequential:
            for i in range(len(calls)):
                do_build(i)
                do_exec(i)
        else:
            for i in range(len(calls)):
                do_build(i)
            for i in order:
                do_exec(i)
        for b in built:
            b["le"] = b["le"] is not None          # observations must be picklable (qualified phases run in a child process)
            for x in (b["execs"] or [None]):
                out.append({"st": st, "name": name, "ref": ref, "bare": bare, "shadow_name": shadow_name, "mode": impl.mode,
                            "b": b, "x": x})
    finally:
        impl.drop(name)
        if shadow_name:
            impl.drop(shadow_name)
    return out


def case_term(o) -> str:
    b, x = o["b"], o["x"]
    if x is None:      # built, never executed: judge laziness only, against its own pre-state
        pre, ex, ref = b["rows1"], None, None
    else:
        pre, ex, ref = x["pre"], x["obs"], x["ref"]
    if ex is None:
        exq = "None"
    else:
        exq = (f"(Some (mkExec {optlit(ex['err'])} {rows_coq(ex['rows'])} "
               f"{optlit(None if ex['count'] is None else natlit(ex['count']))} {natlit(ex['sent'])}))")
    refq = "(None : option (list row))" if not isinstance(ref, list) else f"(Some {rows_coq(ref)} : option (list row))"
    shq = "None"
    if x is not None and o.get("shadow_name") and x.get("shadow_pre") is not None:
        shq = f"(Some (({strlit('main')}, {strlit(o['bare'])}), {rows_coq(x['shadow_pre'])}, {rows_coq(x['shadow_post'])}))"
    return (f"(mkCase {o['st']} {o['ref']} {shq} {listlit([strlit(c) for c in SCH['cols']])} {b['cq']} "
            f"{rows_coq(b['rows0'])} {rows_coq(b['rows1'])} {natlit(b['sent_build'])} {optlit(b['build_err'])} "
            f"{b['exported']} {rows_coq(pre)} {exq}, {refq})")


HEADER2 = HEADER + """
Definition check2 (kr : case * option (list row)) : string :=
  let (k, r) := kr in
  (check k ++ match r with
              | Some rows => if spec_matches (k_cols k) (k_call k) (k_pre k) rows then "1" else "0"
              | None => "x" end)%string.
"""


def signature(call, b, x, flags) -> str:
    feats = call_features(call)
    berr = b["build_err"]
    xerr = x["obs"]["err"] if x and x["obs"] else None
    lazy_ok = flags[1] == "1"
    if not lazy_ok:
        return "C15/table-or-connection-touched-before-execute"
    if x and x.get("shadow_pre") is not None and x.get("shadow_pre") != x.get("shadow_post"):
        return "C15/another-table-of-the-same-name-was-modified"
    if "qkey" in feats and xerr == "EParser":
        return SIG_QKEY
    if "unq" in feats and berr == "EValue":
        return SIG_UNQ
    if "alias" in feats and xerr == "EParser":
        return SIG_ALIAS
    if "sql" in feats and (berr or xerr):
        return SIG_SQL
    wk = call["where"]["kind"]
    return f"C15/{call['kind']}-differs:where={wk}:build={berr}:exec={xerr}:features={'+'.join(sorted(feats)) or 'none'}"


# ---- generation of histories ---------------------------------------------------------------------------------

def findings_corpus(schema="std"):
    """the replay files of every listed finding (known or fixed) are corpus cases that run first"""
    import glob
    import os
    out = []
    for path in sorted(glob.glob(os.path.join(core.VERIF, "findings", "C15-*.json"))):
        with open(path) as f:
            rp = json.load(f)
        r = rp.get("replay") or {}
        if "call_json" in r and r.get("schema", "std") == schema:
            out.append(([tuple(x) for x in r.get("rows_before_execute") or []], call_from_json(r["call_json"]), os.path.basename(path)))
    return out


def corpus():
    """shapes that matter, run first: the former findings, the documented examples, swap, NULL predicate, omitted"""
    T = lambda c: ("col", c, "T")
    Fc = lambda c: ("col", c, "F")
    return [
        [{"kind": "delete", "where": {"kind": "sql", "e": ("not", ("bin", "And", ("bin", "Gt", Fc("a"), ("lit", 2)), ("bin", "Lt", Fc("a"), ("lit", 1))))}}],
        [{"kind": "delete", "where": {"kind": "sql", "e": ("if", Fc("f"), ("isnull", Fc("a")), ("bin", "Gt", Fc("b"), ("neg", ("lit", 3))))}}],
        [{"kind": "update", "set": [["str", "a", ("if", ("isnull", Fc("a")), ("lit", 0), Fc("a"))]],
          "where": {"kind": "sql", "e": ("bin", "And", ("bin", "NullSafeEq", ("neg", Fc("a")), ("neg", ("lit", 3))), Fc("f"))}}],
        [{"kind": "delete", "where": {"kind": "sql", "e": ("isnull", Fc("a"))}}],
        [{"kind": "update", "set": [["str", "a", Fc("b")]], "where": {"kind": "none"}}],
        [{"kind": "update", "set": [["str", "a", ("coalesce", T("a"), ("lit", 0))]], "where": {"kind": "none"}}],
        [{"kind": "update", "set": [["str", "a", ("bin", "Add", T("a"), ("lit", 1))]],
          "where": {"kind": "cols", "items": [("bin", "Eq", T("b"), ("lit", 2))], "as_list": False}}],
        [{"kind": "delete", "where": {"kind": "cols", "items": [("bin", "Gt", T("a"), ("lit", 1))], "as_list": False}}],
        [{"kind": "update", "set": [["str", "a", T("b")], ["T", "b", T("a")]], "where": {"kind": "none"}}],
        [{"kind": "delete", "where": {"kind": "cols", "items": [("bin", "Gt", Fc("a"), ("lit", 1))], "as_list": False}}],
        [{"kind": "delete", "where": {"kind": "none"}}],
        [{"kind": "delete", "where": {"kind": "name", "col": "f"}}],
        [{"kind": "delete", "where": {"kind": "cols", "items": [("if", ("isnull", T("a")), ("lit", True), ("bin", "Eq", Fc("b"), ("lit", 1)))], "as_list": False}}],
        [{"kind": "delete", "where": {"kind": "cols", "items": [("bin", "Eq", T("a"), ("lit", 1)), ("bin", "Eq", Fc("b"), ("lit", 2))], "as_list": True}}],
        [{"kind": "update", "set": [["F", "s", ("lit", "zz")], ["str", "f", ("isnull", T("a"))]],
          "where": {"kind": "cols", "items": [("not", T("f"))], "as_list": False}}],
        [{"kind": "delete", "where": {"kind": "cols", "items": [("bin", "Eq", ("col", "a", "P"), ("col", "b", "C"))], "as_list": False}}],
        [{"kind": "update", "set": [["str", "a", ("col", "b", "C")]],
          "where": {"kind": "cols", "items": [("isnull", ("col", "s", "P"))], "as_list": False}}],
        [{"kind": "update", "set": [["str", "a", ("col", "b", "P")]], "where": {"kind": "none"}}],
    ]


def make_histories(ctx):
    r = random.Random(ctx.seed)
    hs = []
    for rows, call, fname in findings_corpus():
        TABLES.setdefault("finding:" + fname, rows)
        hs.append(("finding:" + fname, [call], [0]))
        hs.append(("t1", [call], [0]))
    for calls in corpus():
        for tn in ("t1", "nulls"):
            hs.append((tn, calls, [0]))
    # bounded-exhaustive: every where-shape x reference style x {delete, update-literal, update-expression, swap}
    T = lambda c, q: ("col", c, q)
    n_exh = 0
    for q in "TF":
        wheres = [
            {"kind": "none"}, {"kind": "bool", "v": True}, {"kind": "bool", "v": False},
            {"kind": "cols", "items": [("bin", "Eq", T("a", q), ("lit", 1))], "as_list": False},
            {"kind": "cols", "items": [("bin", "Gt", T("a", q), T("b", q))], "as_list": False},
            {"kind": "cols", "items": [("isnull", T("s", q))], "as_list": False},
            {"kind": "cols", "items": [("not", ("bin", "Eq", T("s", q), ("lit", "x")))], "as_list": False},
            {"kind": "cols", "items": [T("f", q)], "as_list": False},
            {"kind": "cols", "items": [("bin", "Or", ("isnull", T("a", q)), ("bin", "Lt", T("b", q), ("lit", 2)))], "as_list": False},
            {"kind": "cols", "items": [("bin", "NullSafeEq", T("a", q), ("lit", None))], "as_list": False},
            {"kind": "cols", "items": [("if", T("f", q), ("bin", "Eq", T("a", q), ("lit", 1)), ("isnull", T("b", q)))], "as_list": False},
            {"kind": "cols", "items": [("coalesce", T("f", q), ("lit", False))], "as_list": True},
            # predicates that are constant in two-valued logic only (NULL on rows with a NULL operand): a negated empty range,
            # a negated contradiction, a case split -- what a 2VL "simplifier" would fold to TRUE / to p
            {"kind": "cols", "items": [("not", ("bin", "And", ("bin", "Gt", T("a", q), ("lit", 2)), ("bin", "Lt", T("a", q), ("lit", 1))))], "as_list": False},
            {"kind": "cols", "items": [("not", ("bin", "And", ("bin", "Eq", T("s", q), ("lit", "x")), ("not", ("bin", "Eq", T("s", q), ("lit", "x")))))], "as_list": False},
            {"kind": "cols", "items": [("bin", "Or", ("bin", "And", ("bin", "Ge", T("b", q), ("lit", 1)), ("bin", "Eq", T("a", q), ("lit", 1))),
                                        ("bin", "And", ("bin", "Ge", T("b", q), ("lit", 1)), ("not", ("bin", "Eq", T("a", q), ("lit", 1)))))], "as_list": False},
            {"kind": "cols", "items": [("bin", "Or", T("f", q), ("not", T("f", q)))], "as_list": False},
            {"kind": "cols", "items": [("bin", "Ge", T("a", q), ("lit", 1)), ("bin", "Neq", T("s", "T"), ("lit", "y"))], "as_list": True},
        ]
        sets = [
            None,
            [["str", "a", ("raw", 5)]],
            [["T", "b", ("bin", "Add", T("a", "T"), T("b", "T"))], ["F", "s", ("lit", "u")]],
            [["str", "a", T("b", "T")], ["str", "b", T("a", "T")]],
            [["str", "f", ("isnull", T("s", "T"))], ["T", "a", ("neg", T("a", "T"))]],
        ]
        for w in wheres:
            for s in sets:
                call = {"kind": "delete", "where": w} if s is None else {"kind": "update", "set": s, "where": w}
                for tn in (("t1", "t2") if ctx.tier == "quick" else ("empty", "one", "nulls", "t1", "t2", "dups")):
                    hs.append((tn, [call], [0]))
                    n_exh += 1
    # random histories of up to 4 statements
    n_rand = 200 if ctx.tier == "quick" else 4000
    for _ in range(n_rand):
        n = r.choice([1, 1, 2, 2, 3, 4])
        calls = [gen_call(r) for _ in range(n)]
        k = r.random()
        if n == 1 or k < 0.55:
            order = list(range(n))
        elif k < 0.8:
            order = list(range(n))
            r.shuffle(order)
        elif k < 0.9:
            order = [r.randrange(n) for _ in range(n)]          # some repeated, some never executed
        else:
            order = list(range(n)) + [r.randrange(n)]
        tn = r.choice(["t1", "t1", "t2", "t2", "nulls", "dups", "one", "empty"])
        hs.append((tn, calls, order))
    return hs, n_exh


def jsonable_call(call):
    return json.loads(json.dumps(call))


def call_from_json(c):
    c = dict(c)
    if "set" in c:
        c["set"] = [[s, col, tup(v)] for s, col, v in c["set"]]
    w = dict(c["where"])
    if "items" in w:
        w["items"] = [tup(e) for e in w["items"]]
    if "e" in w:
        w["e"] = tup(w["e"])
    c["where"] = w
    return c


# ---- shrinking (only for deviations that are not listed findings) ---------------------------------------------

def deviates_quick(impl, rows, call) -> bool:
    """impl vs the independent SELECT statement of the property (used to shrink; the verdict itself is Coq's)"""
    obs = run_history(impl, rows, [call], [0])
    o = obs[0]
    b, x = o["b"], o["x"]
    if b["rows0"] != b["rows1"] or b["sent_build"]:
        return True
    if x["obs"] is None or x["obs"]["err"]:
        return True
    return isinstance(x["ref"], list) and x["obs"]["rows"] != x["ref"]


def shrink(impl, rows, call, budget=60):
    rows = list(rows)
    changed = True
    while changed and budget > 0:
        changed = False
        for i in range(len(rows)):
            if len(rows) <= 1:
                break
            cand = rows[:i] + rows[i + 1:]
            budget -= 1
            try:
                if deviates_quick(impl, cand, call):
                    rows, changed = cand, True
                    break
            except Exception:
                pass
            if budget <= 0:
                break
    if call["kind"] == "update":
        for i in range(len(call["set"])):
            if len(call["set"]) <= 1:
                break
            cand = dict(call, set=call["set"][:i] + call["set"][i + 1:])
            try:
                if deviates_quick(impl, rows, cand):
                    call = cand
                    break
            except Exception:
                pass
    return rows, call


# ---- schema- / catalog-qualified tables (own process: one naming depth per sqlframe session) ------------------------

def make_q_histories(seed, tier, mode):
    """tables opened as archive.<t> (mode 'schema') or memory.archive.<t> (mode 'catalog'); a table of the same name with
    other contents exists in the default schema (shadow) in most histories -- it must never change."""
    r = random.Random(seed * 7 + (1 if mode == "schema" else 2))
    T = lambda c: ("col", c, "T")
    Fc = lambda c: ("col", c, "F")
    shadow = [(1, 2, "x", True), (None, 3, "x", None), (7, 7, "m", False), (1, 2, "x", True)]
    fixed = [
        [{"kind": "update", "set": [["str", "a", ("bin", "Add", T("a"), ("lit", 1))]],
          "where": {"kind": "cols", "items": [("bin", "Eq", T("b"), ("lit", 2))], "as_list": False}}],
        [{"kind": "delete", "where": {"kind": "cols", "items": [("isnull", Fc("a"))], "as_list": False}}],
        [{"kind": "delete", "where": {"kind": "none"}}],
        [{"kind": "update", "set": [["str", "a", T("b")], ["T", "b", T("a")]], "where": {"kind": "none"}}],
        [{"kind": "update", "set": [["F", "s", ("lit", "zz")]], "where": {"kind": "sql", "e": ("bin", "Gt", Fc("b"), ("lit", 1))}}],
        [{"kind": "delete", "where": {"kind": "cols", "items": [("bin", "Eq", ("col", "a", "P"), ("lit", 1))], "as_list": False}}],
    ]
    hs = []
    for calls in fixed:
        hs.append(("t1", calls, [0], shadow))
        hs.append(("nulls", calls, [0], None if mode == "schema" else shadow))
    n = (25 if mode == "schema" else 10) if tier == "quick" else (300 if mode == "schema" else 120)
    for _ in range(n):
        k = r.choice([1, 1, 2, 3])
        calls = [gen_call(r) for _ in range(k)]
        order = list(range(k))
        if k > 1 and r.random() < 0.4:
            r.shuffle(order)
        hs.append((r.choice(["t1", "t2", "nulls", "dups", "one"]), calls, order,
                   r.choice([shadow, shadow, TABLES["t2"], [], None])))
    return hs


LEX_TABLES = {
    "lex1": [(1, "bob", "ann", "b c"), (2, "boss", "bob", "x y"), (3, "it's", "boss", None), (None, None, None, "b c"),
             (2, "boss", "boss", "b c"), (4, 'say "hi"', "ann", "back\\slash")],
    "lex2": [(1, "ann", "bob", None), (1, "ann", "bob", None), (5, "bob", "bob", "boss")],
}


def make_lex_histories(seed, tier):
    """SQL-string predicates written with Spark's lexical rules (the session's input dialect): double-quoted string
    literals -- some spelled like a column ('boss') --, back-quoted identifiers incl. a name with a blank, backslash
    escapes; plus the same predicates written with Columns.  Deterministic; a few random combinations."""
    r = random.Random(seed + 15)
    Fc = lambda c: ("col", c, "F")
    T = lambda c: ("col", c, "T")
    L = lambda v: ("lit", v)
    sql = lambda e: {"kind": "sql", "e": e, "lex": "spark"}
    atoms = [
        ("bin", "Eq", Fc("name"), L("bob")), ("bin", "Eq", Fc("name"), L("boss")), ("bin", "Neq", Fc("boss"), L("boss")),
        ("bin", "Eq", Fc("full name"), L("b c")), ("isnull", Fc("full name")), ("bin", "Eq", Fc("name"), L("it's")),
        ("bin", "Eq", Fc("name"), L('say "hi"')), ("bin", "Eq", Fc("full name"), L("back\\slash")),
        ("bin", "Eq", Fc("name"), Fc("boss")), ("bin", "Ge", Fc("full name"), L("boss")),
    ]
    preds = list(atoms) + [
        ("bin", "And", atoms[3], atoms[2]), ("bin", "Or", atoms[1], atoms[4]), ("not", atoms[0]),
        ("bin", "And", ("bin", "Gt", Fc("a"), L(1)), atoms[1]),
    ]
    n_extra = 6 if tier == "quick" else 60
    for _ in range(n_extra):
        a, b = r.sample(atoms, 2)
        preds.append(("bin", r.choice(["And", "Or"]), a, ("not", b) if r.random() < 0.3 else b))
    sets = [None, [["str", "name", L("zed")]], [["T", "boss", T("name")], ["str", "a", ("raw", 0)]]]
    hs = []
    for rows, call, fname in findings_corpus("lex"):
        TABLES.setdefault("finding:" + fname, rows)
        hs.append(("finding:" + fname, [call], [0]))
    for i, e in enumerate(preds):
        for j, st in enumerate(sets):
            if j == 2 and i % 3:
                continue
            w = sql(e) if e[0] in ("bin", "not", "isnull") else None
            call = {"kind": "delete", "where": w} if st is None else {"kind": "update", "set": st, "where": w}
            hs.append(("lex1", [call], [0]))
            if i < len(atoms) and j == 0:
                hs.append(("lex2", [call], [0]))
                # the same predicate written with Columns
                hs.append(("lex1", [dict(call, where={"kind": "cols", "items": [restyle(e, r.choice("TF"))], "as_list": False})], [0]))
    for ks in ("str", "T", "F"):       # the assigned column's name needs quoting
        hs.append(("lex1", [{"kind": "update", "set": [[ks, "full name", L("q r")], ["str", "a", ("bin", "Add", T("a"), L(1))]],
                             "where": sql(atoms[0])}], [0]))
        hs.append(("lex2", [{"kind": "update", "set": [[ks, "full name", T("name")]], "where": {"kind": "none"}}], [0]))
    hs.append(("lex1", [{"kind": "update", "set": [["str", "name", L("boss")]], "where": sql(atoms[0])},
                        {"kind": "delete", "where": sql(atoms[1])}], [0, 1]))
    hs.append(("lex1", [{"kind": "delete", "where": sql(atoms[3])}, {"kind": "delete", "where": sql(atoms[4])}], [1, 0]))
    return hs


def observe(impl, hs):
    """run histories; returns ([(coq case term, meta)], [harness errors], number of histories)"""
    pairs, errors, seen, n_hist = [], [], set(), 0
    for h in hs:
        tn, calls, order = h[0], h[1], h[2]
        shadow = h[3] if len(h) > 3 else None
        key = (tn, json.dumps(calls, sort_keys=True, default=str), tuple(order), repr(shadow))
        if key in seen:
            continue
        seen.add(key)
        n_hist += 1
        try:
            obs = run_history(impl, TABLES[tn], calls, order, shadow)
        except Exception as ex:
            errors.append(f"{type(ex).__name__}: {ex} on {[call_show(c) for c in calls]} (mode {impl.mode})")
            continue
        for o in obs:
            pairs.append((case_term(o), {"o": o, "table": tn, "calls": calls, "order": order, "shadow": shadow,
                                         "mode": impl.mode, "first": o is obs[0], "schema": SCH["name"]}))
    return pairs, errors, n_hist


def _q_phase(args):
    seed, tier, mode = args
    logging.disable(logging.WARNING)
    return observe(Impl(mode), make_q_histories(seed, tier, mode))


# ---- the check ---------------------------------------------------------------------------------------------------

PINNED = """(* facts of the pinned source, used only so that the search can still run when the translator failed *)
From SF Require Import Base.Val Base.Expr C15.Dml.
Definition gen_cfg : cfg := mkCfg true And true true true true false true TScan TScan true true true true 0 1.
Definition set_key_is_identifier : bool := true.
"""


def run(ctx: core.Ctx):
    # ---- T1
    flags = None
    try:
        text, facts, flags = c15_facts.generate(core.REPO)
        ctx.gen("C15Facts", text, facts)
        t1_ok = True
    except Exception as ex:  # fail-closed translator = broken proof obligation
        ctx.broken("T1:c15_facts", f"{type(ex).__name__}: {ex}")
        t1_ok = False
    # ---- proofs
    proved = False
    if t1_ok:
        proved = ctx.prove([ctx.build + "/gen/C15Facts.v", core.COQ + "/props/C15.v"],
                           dep_theories=["Base/Val.v", "Base/Expr.v", "Base/Sort.v", "C15/Dml.v", "C15/DmlProof.v",
                                         "C15/DmlCheck.v"])
        if flags is not None:
            ctx.log("facts: " + ", ".join(f"{k}={v}" for k, v in flags.items()))
    if not t1_ok:
        ctx.gen("C15Facts", PINNED)
        ctx.coqc(ctx.build + "/gen/C15Facts.v")
    # ---- T2/T3
    # the two qualified-name phases run in forked children (started before this process creates its own session)
    import multiprocessing
    from concurrent.futures import ProcessPoolExecutor
    pool = ProcessPoolExecutor(max_workers=2, mp_context=multiprocessing.get_context("fork"))
    q_futs = [pool.submit(_q_phase, (ctx.seed, ctx.tier, mode)) for mode in ("schema", "catalog")]
    impl = Impl()
    hs, n_exh = make_histories(ctx)
    items, metas = [], []
    hist = {"len": {}, "kind": {}, "where": {}, "table": {}, "order": {}, "features": {}, "set_size": {}, "naming": {}}

    def bump(h, k):
        hist[h][k] = hist[h].get(k, 0) + 1

    seen = set()
    n_hist = 0
    # only entries with status "known" are reported as KNOWN-FINDING; "fixed" ones suppress nothing
    listed_known = {k["signature"] for k in ctx.known if k.get("status", "known") == "known"}
    pairs, errors, n_hist = observe(impl, hs)
    TABLES.update(LEX_TABLES)
    use_schema("lex")
    try:
        lp, le_, ln = observe(impl, make_lex_histories(ctx.seed, ctx.tier))
    finally:
        use_schema("std")
    pairs, errors, n_hist, n_lex = pairs + lp, errors + le_, n_hist + ln, len(lp)
    n_q = 0
    for fut in q_futs:
        try:
            qp, qe, qn = fut.result(timeout=1500)
            pairs, errors, n_hist, n_q = pairs + qp, errors + qe, n_hist + qn, n_q + len(qp)
        except Exception as ex:
            errors.append(f"qualified-table phase crashed: {type(ex).__name__}: {ex}")
    pool.shutdown()
    for e in errors[:5]:
        ctx.broken("harness:run_history", e)
    for it_, m_ in pairs:
        items.append(it_)
        metas.append(m_)
        o, tn, calls, order = m_["o"], m_["table"], m_["calls"], m_["order"]
        if m_["first"]:
            bump("len", len(calls))
            bump("table", tn)
            bump("order", "sequential" if order == list(range(len(calls))) else
                 "permuted" if sorted(order) == list(range(len(calls))) else "repeat/skip")
            bump("naming", {None: "bare name", "schema": "archive.<t>", "catalog": "memory.archive.<t>"}[m_["mode"]]
                 + ("" if not m_["mode"] else " + same name in main" if m_["shadow"] is not None else " only"))
        if True:
            c = o["b"]["call"]
            bump("kind", c["kind"])
            bump("where", c["where"]["kind"] + ("/list" if c["where"].get("as_list") else ""))
            bump("features", "+".join(sorted(call_features(c))) or "in-domain-shape")
            if c["kind"] == "update":
                bump("set_size", len(c["set"]))
    ctx.log(f"{len(items)} observed (build, execute) pairs from {n_hist} histories ({n_exh} bounded-exhaustive single calls; "
            f"{n_q} pairs on schema-/catalog-qualified tables; {n_lex} pairs with Spark-lexical SQL strings / quoted column names)")
    res = ctx.cases("c15", HEADER2, items, per_file=150, result_ty="str", fn="check2")
    n_dom = n_wf = n_t2 = n_t2x = n_nontriv = n_dev = 0
    model_fail, t2_fail, ref_fail, thm_fail = [], [], [], []
    unexpected = []
    distinct = set()
    for it, m, rr in zip(items, metas, res):
        if rr is None or len(rr) != 9:
            continue
        o = m["o"]
        b, x = o["b"], o["x"]
        call = b["call"]
        t2, lazy, bld, exe, spec, ms, dom, wf, ref = rr
        n_dom += dom == "1"
        n_wf += wf == "1"
        n_t2 += t2 == "1"
        n_t2x += t2 == "x"
        desc = {"call": call_show(call), "call_json": jsonable_call(call), "table": m["table"],
                "table_opened_as": o["name"], "naming_mode": o.get("mode"), "schema": m.get("schema", "std"),
                "same_named_table_in_default_schema": o.get("shadow_name"),
                "shadow_rows_before_execute": (x or {}).get("shadow_pre"), "shadow_rows_after_execute": (x or {}).get("shadow_post"),
                "rows_before_build": b["rows0"], "rows_before_execute": (x or {}).get("pre"),
                "history": [call_show(c) for c in m["calls"]], "execute_order": m["order"],
                "sql_built": b["sql"], "build_exception": b["build_exc"],
                "execute_observed": (x or {}).get("obs"), "expected_rows(reference SELECT of the property)": (x or {}).get("ref"),
                "verdict(t2,lazy,build=model,exec=model,impl=spec,model=spec,in_domain,wf,spec=reference)": rr}
        executed = x is not None
        pre = (x or {}).get("pre") or []
        if executed:
            key = (call_show(call), repr(pre))
            nontriv = (any(v is None for r_ in pre for v in r_) or len(set(pre)) < len(pre)) and x["obs"] is not None \
                and x["obs"]["rows"] != pre and x["obs"]["rows"] != []
            if nontriv and key not in distinct:
                distinct.add(key)
                n_nontriv += 1
        if ref == "0" or (executed and isinstance(x["ref"], str)):
            ref_fail.append(desc)
        if wf == "1" and (lazy == "0" or (executed and spec == "0")):
            n_dev += 1
            sig = signature(call, b, x, rr)
            what = {SIG_SQL: "a SQL-string predicate is not parsed but taken for a column name",
                    SIG_UNQ: "an assigned value written with col('c') raises ValueError at build time",
                    SIG_ALIAS: "an assigned value built by a function keeps its automatic alias -> syntax error",
                    SIG_QKEY: "an assigned column whose name needs quoting is emitted unquoted -> syntax error"}.get(
                sig, "update/delete does not do what the property says")
            desc["coq_case"] = it
            if sig not in listed_known:
                unexpected.append((sig, what, desc, m, o))
            else:
                ctx.deviation(sig, what, desc)
        elif executed and (bld == "0" or exe == "0"):
            model_fail.append(desc)
        elif not executed and bld == "0":
            model_fail.append(desc)
        elif t2 == "0":
            t2_fail.append(desc)
        if dom == "1" and executed and ms == "0":
            thm_fail.append(desc)
        if len(ctx.samples) < 5 and executed and x["obs"] and call["kind"] == "update" and len(pre) > 3 and dom == "1":
            ctx.sample({"call": desc["call"], "sql": b["sql"], "rows_before": pre, "rows_after": x["obs"]["rows"], "verdict": rr})
    # shrink and report deviations that are not listed findings
    reported = set()
    for sig, what, desc, m, o in unexpected:
        if sig in reported or len(reported) >= 5:
            ctx.deviation(sig, what, desc)
            continue
        reported.add(sig)
        if o.get("mode"):      # qualified-name observations come from a child process; the tables are small: no shrinking
            ctx.deviation(sig, what, desc)
            continue
        try:
            use_schema(m.get("schema", "std"))
            call = o["b"]["call"]
            pre = (o["x"] or {}).get("pre") or o["b"]["rows0"]
            rows_s, call_s = shrink(impl, pre, call)
            obs = run_history(impl, rows_s, [call_s], [0])
            term = case_term(obs[0])
            v = ctx.cases("c15_shrunk_" + str(len(reported)), HEADER2, [term], result_ty="str", fn="check2")[0]
            if v and len(v) == 9 and (v[1] == "0" or v[4] == "0"):
                ob, ox = obs[0]["b"], obs[0]["x"]
                desc = dict(desc, shrunk={"call": call_show(call_s), "call_json": jsonable_call(call_s), "rows": rows_s,
                                          "sql_built": ob["sql"], "build_exception": ob["build_exc"],
                                          "execute_observed": ox["obs"], "expected_rows": ox["ref"], "verdict": v})
        except Exception as ex:
            desc = dict(desc, shrink_error=f"{type(ex).__name__}: {ex}")
        finally:
            use_schema("std")
        ctx.deviation(sig, what, desc)
    if model_fail:
        ctx.broken("T3:impl-vs-model", f"{len(model_fail)} observations where the implementation does what the property says "
                   f"but not what the model says; first: {model_fail[0]['call']}", data=model_fail[:5])
    if t2_fail:
        ctx.broken("T2:tree-vs-model", f"{len(t2_fail)} calls whose exported UPDATE/DELETE tree differs from the model's statement; "
                   f"first: {t2_fail[0]['call']} -> {t2_fail[0]['sql_built']}", data=t2_fail[:5])
    if ref_fail:
        ctx.broken("T3:spec-vs-reference-select", f"{len(ref_fail)} observations where the Coq statement of the property and the "
                   f"independent SELECT on DuckDB disagree; first: {ref_fail[0]['call']}", data=ref_fail[:5])
    if proved and thm_fail:
        ctx.broken("theorem-vs-evaluation", f"in-domain call on which model and property evaluate differently: {thm_fail[0]['call']}",
                   data=thm_fail[:3])
    ctx.coverage.update({
        "evaluations": len(items), "distinct_nontrivial": n_nontriv,
        "rule": "one evaluation = one (update()/delete() build, execute()) pair observed on a real DuckDB table inside a history "
                "of <= 4 statements; non-trivial = the table before execute() has a NULL or a duplicate row AND the statement "
                "changed it AND did not empty it; distinct by (call text, table contents before execute())",
        "histories": n_hist, "bounded_exhaustive_single_calls": n_exh,
        "in_theorem_domain(call_ok)": n_dom, "in_full_property_domain(call_wf)": n_wf,
        "t2_structurally_equal": n_t2, "t2_nothing_exported(build raised)": n_t2x,
        "deviating_observations": n_dev,
        "histogram_history_length": hist["len"], "histogram_statement_kind": hist["kind"],
        "histogram_where_form": hist["where"], "histogram_table": hist["table"], "histogram_execute_order": hist["order"],
        "histogram_finding_shape": hist["features"], "histogram_set_size": hist["set_size"],
        "facts": flags,
    })
    ctx.assumptions += [
        "Dml.exec is my definition of DuckDB 1.2.2's UPDATE/DELETE on the emitted fragment (SET reads the old row; WHERE TRUE "
        "only; AS inside SET = syntax error; unresolved reference = binder error; failed statement changes nothing; rows keep "
        "their row-id order) -- validated by T3 only",
        "normalize(): table['c'] carries the table object's branch id, which sqlframe's normalize() maps to the CTE name "
        "(sqlframe/base/normalize.py is not translated; covered by T2/T3)",
        "SQL-string predicates (repaired source): the string is parsed by sqlglot.parse_one; the model takes the parsed "
        "expression from the harness (which rendered the string), and T2 compares it with the exported tree up to "
        "stmt_equiv (qualifier erasure + folding of negated integer literals, sound by stmt_equiv_sound); for the source "
        "before fix 4248493 the model covers strings to_column() cannot read as a column production",
        "Dml.resolve / exec_db: a reference t means (default schema, t), s.t means (s, t), c.s.t means (s, t) for the "
        "connection's catalog c; validated by T3 on tables opened as archive.<t> and memory.archive.<t> with a same-named "
        "table in main (run in forked child processes: sqlframe's catalog refuses mixed naming depths in one session)",
        "well-typed statements only (int/str/bool columns get values of their type); no overflow",
        "the property's meaning (Dml.spec_rows) is additionally checked against an independent SELECT on DuckDB on every observation",
    ]
    ctx.trusted += ["translate/c15_facts.py (template comparison of 7 function bodies, fail-closed)",
                    "checks/c15.py exporter x_stmt (sqlglot Update/Delete -> Coq stmt, fail-closed) and the connection proxy"]


def replay(ctx: core.Ctx, rp: dict) -> int:
    """re-run the call of a replay file on the current tree and print what happens next to what the property demands"""
    r = rp.get("replay") or (rp.get("no_longer_checks") or [{}])[0].get("data", [{}])[0]
    r = r.get("shrunk") and {**r, **{"call_json": r["shrunk"]["call_json"], "rows_before_execute": r["shrunk"]["rows"]}} or r
    call = call_from_json(r["call_json"])
    rows = [tuple(x) for x in (r.get("rows_before_execute") or r.get("rows_before_build") or r.get("rows") or [])]
    impl = Impl(r.get("naming_mode"))
    use_schema(r.get("schema", "std"))
    shadow = r.get("shadow_rows_before_execute")
    shadow = None if shadow is None else [tuple(x) for x in shadow]
    o = run_history(impl, rows, [call], [0], shadow)[0]
    b, x = o["b"], o["x"]
    print("call:            ", call_show(call))
    print("table opened as: ", o["name"], "" if not o.get("shadow_name") else f"(a table {o['shadow_name']} exists too: {shadow})")
    print("table before:    ", rows)
    print("statement built: ", b["sql"], "" if not b["build_exc"] else f"   BUILD RAISED {b['build_exc']}")
    print("table after build (must equal before):", b["rows1"], "| statements sent while building:", b["sent_build"])
    print("execute():       ", x["obs"])
    print("property demands:", x["ref"], "(rows after; no exception)")
    if o.get("shadow_name"):
        print("other table after:", x.get("shadow_post"), "(must equal", x.get("shadow_pre"), ")")
    ok = x["obs"] is not None and not x["obs"]["err"] and x["obs"]["rows"] == x["ref"] and b["rows0"] == b["rows1"] \
        and x.get("shadow_pre") == x.get("shadow_post")
    print("verdict:         ", "agrees with the property" if ok else "VIOLATES the property")
    return 0 if ok else 1
