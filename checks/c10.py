"""C10 -- column names: case-insensitive lookup, case-preserving output, safe quoting (DuckDBSession).

T1  translate/c10_facts.py -> Gen/C10Facts.v  (which methods record a spelling and on which object, how drop/fillna/
    dropna re-select, decorator classes + wrapper predicate, what col()/alias() remember, how the four views use the map)
Prf coq/props/C10.v         -> lookup_case_insensitive, views_agree (all reachable states of the recording alphabet),
    spelling_is_last_named (model = Spark.names on the decidable domain), C10_refuted_* witnesses
T3  programs of naming operations over generated names; after every step: df.columns, collect()[0].__fields__,
    schema names, toPandas().columns and the receiver's columns  ==  Coq model  ==  Coq Spark.names; the Spark spec is
    itself compared with names recorded from PySpark 3.5.9 (oracle/c10_pyspark.jsonl)
"""
from __future__ import annotations

import json
import os
import random
import re

from vlib import core
from vlib.core import listlit, boollit

# ------------------------------------------------------------------------------------------------
# names
# ------------------------------------------------------------------------------------------------
POOL = {
    "mixed": ["AB", "aB", "Xy", "Col1", "userId", "x", "Y_2", "zZz", "_u"],
    "reserved": ["select", "Order", "FROM", "group", "Table", "by", "Where", "join"],
    "spaced": ["c d", "My Col", "a-b", "x#1", "two  sp", "Q r s"],
    "digit": ["1a", "2B c", "9x_Y", "00z"],
    "unicode": ["Été", "Straße", "日本", "Ünï cöde", "\U0001F600", "a\U0001F600B",
                "ДА", "\U0001D4B3y", "ça", "nº1"],
}
CATEGORY = {n: c for c, ns in POOL.items() for n in ns}
ALL_NAMES = [n for ns in POOL.values() for n in ns]


# Spark-dialect keywords which sqlframe's orderBy cannot re-parse when they are bare column names (measured; the Coq
# model carries the same list as a definition of sqlglot's behaviour)
KW_ORDERBY = set("alter always analyze and any as between case create cross distinct drop else except fetch for from glob "
                 "grant having ilike in inner insert intersect into join lateral like lock minus not notnull on or outer "
                 "over qualify regexp returning rlike rollback select serdeproperties tablesample then uncache union using "
                 "values when where with xor nullable".split())


def py_lower_ok(n: str) -> bool:
    """the per-code-point table passed to Coq reproduces str.lower() (no context-dependent mapping)"""
    return "".join(ch.lower() for ch in n) == n.lower()


def variant(rnd, n: str) -> str:
    """a spelling that differs from n only in letter case and denotes the same column for Spark and sqlglot"""
    out = []
    for ch in n:
        alts = {ch}
        for alt in (ch.upper(), ch.lower()):
            if len(alt) == 1 and alt.lower() == ch.lower() and alt.upper() == ch.upper():
                alts.add(alt)
        out.append(rnd.choice(sorted(alts)) if rnd.random() < 0.6 else ch)
    v = "".join(out)
    return v if v.lower() == n.lower() else n


def needs_ticks(n: str) -> bool:
    return not re.fullmatch(r"[A-Za-z0-9_\u0080-\U0010FFFF]+", n)


def key(n: str) -> str:
    return n.lower()


# ------------------------------------------------------------------------------------------------
# PySpark's naming rules in Python -- ONLY used to generate well-formed programs (the judge is the Coq Spec)
# ------------------------------------------------------------------------------------------------
def attr(s: str) -> str:
    return s[1:-1] if len(s) >= 2 and s[0] == "`" and s[-1] == "`" else s


def py_spec_step(op, ns):
    k = op[0]
    if k == "select":
        return [a[2] if a[0] == "alias" else attr(a[1]) for a in op[1]]
    if k == "joinOn":
        return ns + list(op[1])
    if k in ("withColumn", "withColumnItem"):
        if any(key(x) == key(op[1]) for x in ns):
            return [op[1] if key(x) == key(op[1]) else x for x in ns]
        return ns + [op[1]]
    if k == "withColumnRenamed":
        return [op[2] if key(x) == key(op[1]) else x for x in ns]
    if k == "toDF":
        return list(op[1])
    if k == "drop":
        return [x for x in ns if all(key(x) != key(v) for v in op[1])]
    if k == "groupAgg":
        return [attr(a[1]) for a in op[1]] + list(op[2])
    if k == "agg":
        return list(op[1])
    if k == "join":
        keys = [next(x for x in ns if key(x) == key(kk)) for kk in op[2]]
        kk = {key(x) for x in op[2]}
        return keys + [x for x in ns if key(x) not in kk] + [x for x in op[1] if key(x) not in kk]
    return list(ns)


class Gen:
    def __init__(self, rnd, digits=False):
        self.r = rnd
        self.digits = digits      # names with a leading digit only in their own batch (they deviate at createDataFrame)

    def fresh(self, ns, k=1, cats=None):
        used = {key(x) for x in ns}
        pool = [n for n in ALL_NAMES if key(n) not in used and (cats is None or CATEGORY[n] in cats)
                and (self.digits or CATEGORY[n] != "digit")]
        out = []
        # histories with stale state: a name the frame had earlier and lost (select of a subset, drop, rename, agg ...)
        # comes back -- in another spelling -- as a join's right column, an alias, a withColumn / toDF / rename target
        lost = [n for n in getattr(self, "lost", []) if key(n) not in used and cats is None]
        while lost and len(out) < k and self.r.random() < 0.45:
            n = lost.pop(self.r.randrange(len(lost)))
            if key(n) not in used:
                used.add(key(n))
                v = variant(self.r, n)
                out.append(v if v != n else (n.swapcase() if n.swapcase().lower() == n.lower() and py_lower_ok(n.swapcase()) else n))
        pool = [n for n in pool if key(n) not in used]
        for n in self.r.sample(pool, min(k - len(out), len(pool))):
            if key(n) not in used:
                used.add(key(n))
                out.append(n if self.r.random() < 0.5 else variant(self.r, n))
        return out

    def ref(self, n, ticks_allowed=True):
        v = variant(self.r, n) if self.r.random() < 0.75 else n
        if ticks_allowed and (needs_ticks(v) and self.r.random() < 0.5 or (not needs_ticks(v) and self.r.random() < 0.06)):
            return "`" + v + "`"
        return v

    def itemref(self, n):
        """a reference through the DataFrame object: df[...] (bare or back-ticked) or df.<name>"""
        if n.isidentifier() and self.r.random() < 0.35:
            return ("attr", n)          # PySpark's df.<name> only accepts the exact current spelling
        return ("item", self.ref(n))

    def selarg(self, n, ns):
        r = self.r.random()
        if r < 0.25:
            return ("str", self.ref(n))
        if r < 0.50:
            return ("col", self.ref(n))
        if r < 0.75:
            return self.itemref(n)
        new = self.fresh(ns, 1)
        a = new[0] if new and self.r.random() < 0.7 else variant(self.r, n)
        return ("alias", self.ref(n), a)

    def step(self, ns, prev=None):
        r = self.r
        k = r.random()
        if k < 0.22:
            cols = r.sample(ns, r.randint(1, min(3, len(ns))))
            args = [self.selarg(c, ns) for c in cols]
            if r.random() < 0.04 and len(ns) >= 1:          # the same column twice under two spellings
                args.append(("col", variant(r, cols[0])))
            return ("select", args)
        if k < 0.34:
            tgt = r.choice(ns) if r.random() < 0.4 else (self.fresh(ns, 1) or [r.choice(ns)])[0]
            tgt = variant(r, tgt)
            if r.random() < 0.4:
                return ("withColumnItem", tgt, self.ref(r.choice(ns)))
            return ("withColumn", tgt, self.ref(r.choice(ns)))
        if k < 0.44:
            new = (self.fresh(ns, 1) or ["Zq"])[0]
            old = r.choice(ns)
            if r.random() < 0.25:
                new = variant(r, old)
            return ("withColumnRenamed", self.ref(old, ticks_allowed=False), new)
        if k < 0.50:
            new = self.fresh([], len(ns))
            if r.random() < 0.3:
                new = [variant(r, x) for x in ns]
            return ("toDF", new)
        if k < 0.58 and len(ns) >= 2:
            d = r.sample(ns, r.randint(1, min(2, len(ns) - 1)))
            return ("drop", [self.ref(x, ticks_allowed=False) for x in d])
        if k < 0.66:
            keys = r.sample(ns, r.randint(0, min(2, len(ns))))
            rest = [x for x in ns if x not in keys]
            al = self.fresh(keys, r.randint(1, 2))
            return ("groupAgg", [(r.choice(["str", "col", "item"]), self.ref(x)) for x in keys], al)
        if k < 0.69:
            return ("agg", self.fresh([], r.randint(1, 2)))
        if k < 0.72:
            others = self.fresh(ns, r.randint(1, 3))
            if others:
                dup = [x for x in ns if r.random() < 0.3][:1]    # a right column with the name (same spelling) of a left one
                self.dup = dup[0] if dup else None
                return ("joinOn", others + dup, self.ref(r.choice(ns)), self.ref(others[0]))
        if k < 0.77:
            kk = r.sample(ns, r.randint(1, min(2, len(ns))))
            others = self.fresh(ns, r.randint(1, 2))
            rn = [variant(r, x) for x in kk] + others
            r.shuffle(rn)
            return ("join", rn, [self.ref(x, ticks_allowed=False) for x in kk])
        if k < 0.82:
            sub = None if r.random() < 0.5 else [self.ref(x, ticks_allowed=False) for x in r.sample(ns, r.randint(1, len(ns)))]
            return ("fillna", sub)
        if k < 0.85:
            return ("dropna",)
        if k < 0.88:
            return ("dropDuplicates", [self.ref(x, ticks_allowed=False) for x in r.sample(ns, r.randint(1, min(2, len(ns))))])
        if k < 0.92:
            return (r.choice(["where", "whereItem"]), self.ref(r.choice(ns)))
        if k < 0.96:
            cand = ns
            if prev == "join":   # qualified keyword columns (t.select) hit further parser quirks: not generated
                cand = [x for x in ns if key(x) not in KW_ORDERBY] or None
            if cand and r.random() < 0.4:
                # table-qualified keyword keys (t.select) hit further parser quirks of sqlglot: not generated
                cand2 = [x for x in cand if key(x) not in KW_ORDERBY]
                if cand2:
                    return ("orderByItems", [self.ref(x) for x in r.sample(cand2, r.randint(1, min(2, len(cand2))))])
            if cand:
                return ("orderBy", [self.ref(x) for x in r.sample(cand, r.randint(1, min(2, len(cand))))])
        if k < 0.98:
            return ("limit",)
        return ("distinct",)

    SELECT_CLASS = {"select", "withColumn", "withColumnItem", "withColumnRenamed", "toDF", "drop", "fillna", "agg", "groupAgg",
                    "distinct", "dropDuplicates"}
    KEEP_CLASS = {"orderBy", "orderByItems", "limit"}

    def avoid_right_items(self, op, right):
        """while a join is still the FROM of the open SELECT, df[x] for a column x of the RIGHT frame is bound to the left
        table by sqlframe and raises (staged finding C10/df-item-right-column-after-join-raises, kept in CORPUS): such
        references are written F.col(x) here so that they do not mask everything that follows"""
        isr = lambda v: key(attr(v)) in right
        k = op[0]
        if k in ("select", "groupAgg"):
            args = [("col", a[1]) if a[0] in ("item", "attr") and isr(a[1]) else a for a in op[1]]
            return (k, args) + tuple(op[2:])
        if k == "whereItem" and isr(op[1]):
            return ("where", op[1])
        if k == "withColumnItem" and isr(op[2]):
            return ("withColumn", op[1], op[2])
        if k == "orderByItems" and any(isr(v) for v in op[1]):
            return ("limit",)
        if k == "joinOn" and isr(op[2]):
            return ("limit",)
        return op

    def program(self, maxlen):
        r = self.r
        n0 = self.fresh([], r.randint(1, 4))
        ns = list(n0)
        ops = []
        self.lost = []
        right, jstate = set(), None
        self.dup = None
        for _ in range(r.randint(1, maxlen)):
            if self.dup is not None:
                # duplicate column names (condition join): PySpark's withColumnRenamed renames every column of that name;
                # any other reference to the name would be ambiguous, so the program ends here
                # the operations that map old names to new ones, on a frame with a repeated name: rename (all of that name),
                # toDF (by position), drop (all of that name)
                kk = r.random()
                if kk < 0.4:
                    ops.append(("withColumnRenamed", self.ref(self.dup, ticks_allowed=False), (self.fresh(ns, 1) or ["Zq"])[0]))
                    break
                if kk < 0.75:
                    op = ("toDF", self.fresh([], len(ns)))
                    if len(op[1]) != len(ns):
                        break
                else:
                    op = ("drop", [self.ref(self.dup, ticks_allowed=False)])
                ops.append(op)
                ns = py_spec_step(op, ns)
                self.dup, jstate, right = None, None, set()
                self.lost = []
                if not ns or r.random() < 0.5:
                    break
                continue
            op = self.step(ns, ops[-1][0] if ops else None)
            if jstate:
                op = self.avoid_right_items(op, right)
            if op[0] in ("join", "joinOn"):
                right = (right if jstate == "join" else set()) | {key(x) for x in op[1]}
                jstate = "join"
            elif jstate == "join" and op[0] in self.SELECT_CLASS:
                jstate = "join+select"
            elif jstate and (op[0] in self.KEEP_CLASS or (jstate == "join" and op[0] in ("where", "whereItem"))):
                pass
            else:
                jstate, right = None, set()
            ops.append(op)
            before = ns
            ns = py_spec_step(op, ns)
            now = {key(x) for x in ns}
            self.lost = [x for x in self.lost if key(x) not in now] + [x for x in before if key(x) not in now]
            if not ns or len({key(x) for x in ns}) != len(ns) and r.random() < 0.8:
                break
        self.lost = []
        return {"names": n0, "ops": ops}


# ------------------------------------------------------------------------------------------------
# running a program on an implementation (sqlframe's DuckDBSession or, for the recorder, PySpark)
# ------------------------------------------------------------------------------------------------
def make_df(session, names):
    return session.createDataFrame([tuple(1 for _ in names)], list(names))


def _arg(F, df, a):
    if a[0] == "str":
        return a[1]
    if a[0] == "col":
        return F.col(a[1])
    if a[0] == "item":
        return df[a[1]]
    if a[0] == "attr":
        return df[a[1]] if hasattr(type(df), a[1]) else getattr(df, a[1])
    return F.col(a[1]).alias(a[2])


def apply_op(session, F, df, op):
    k = op[0]
    if k == "select":
        return df.select(*[_arg(F, df, a) for a in op[1]])
    if k == "withColumn":
        return df.withColumn(op[1], F.col(op[2]))
    if k == "withColumnItem":
        return df.withColumn(op[1], df[op[2]])
    if k == "whereItem":
        return df.where(df[op[1]] == F.lit(1))
    if k == "orderByItems":
        return df.orderBy(*[df[v] for v in op[1]])
    if k == "joinOn":
        other = make_df(session, op[1])
        return df.join(other, df[op[2]] == other[op[3]], "inner")
    if k == "withColumnRenamed":
        return df.withColumnRenamed(op[1], op[2])
    if k == "toDF":
        return df.toDF(*op[1])
    if k == "drop":
        return df.drop(*op[1])
    if k == "groupAgg":
        return df.groupBy(*[_arg(F, df, a) for a in op[1]]).agg(*[F.count("*").alias(a) for a in op[2]])
    if k == "agg":
        return df.agg(*[F.count("*").alias(a) for a in op[1]])
    if k == "join":
        other = make_df(session, op[1])
        return df.join(other, on=list(op[2]), how="inner")
    if k == "fillna":
        return df.fillna(0) if op[1] is None else df.fillna(0, subset=list(op[1]))
    if k == "dropna":
        return df.dropna()
    if k == "dropDuplicates":
        return df.dropDuplicates(list(op[1]))
    if k == "where":
        return df.where(F.col(op[1]) == F.lit(1))
    if k == "orderBy":
        return df.orderBy(*op[1])
    if k == "limit":
        return df.limit(5)
    if k == "distinct":
        return df.distinct()
    raise ValueError(op)


def observe(df, full=True):
    out = {"columns": list(df.columns)}
    if full:
        rows = df.collect()
        out["fields"] = list(rows[0].__fields__) if rows else None
        out["schema"] = [f.name for f in df.schema.fields]
        out["pandas"] = [str(c) for c in df.toPandas().columns]
    return out


def run_program(session, F, prog, full=True):
    """returns list of per-step observations; step 0 = createDataFrame.  An entry is {'error': ...} when the step or
    one of the observations raised (the program stops there)."""
    import warnings
    obs = []
    with warnings.catch_warnings():
        warnings.simplefilter("ignore")
        try:
            df = make_df(session, prog["names"])
            obs.append(observe(df, full))
        except Exception as ex:                      # noqa: BLE001
            return [{"error": f"{type(ex).__name__}: {str(ex)[:160]}"}]
        for op in prog["ops"]:
            try:
                before = list(df.columns)
                new = apply_op(session, F, df, op)
                o = observe(new, full)
                o["receiver_before"] = before
                o["receiver_after"] = list(df.columns)
                obs.append(o)
                df = new
            except Exception as ex:                  # noqa: BLE001
                obs.append({"error": f"{type(ex).__name__}: {str(ex)[:160]}"})
                break
    return obs


# ------------------------------------------------------------------------------------------------
# Coq terms
# ------------------------------------------------------------------------------------------------
def nm(s: str) -> str:
    return "[" + "; ".join(str(ord(ch)) for ch in s) + "]"


def nms(l) -> str:
    return "[" + "; ".join(nm(x) for x in l) + "]"


def selarg_coq(a) -> str:
    if a[0] == "str":
        return f"(SStr {nm(a[1])})"
    if a[0] == "col":
        return f"(SCol {nm(a[1])})"
    if a[0] in ("item", "attr"):
        return f"(SItem {nm(a[1])})"
    return f"(SAlias {nm(a[1])} {nm(a[2])})"


def op_coq(op) -> str:
    k = op[0]
    if k == "select":
        return f"(OSelect {listlit([selarg_coq(a) for a in op[1]])})"
    if k in ("withColumn", "withColumnItem"):
        return f"(OWithColumn {nm(op[1])})"
    if k == "whereItem":
        return f"(OWhere {nm(op[1])})"
    if k == "orderByItems":
        return f"(OOrderByItems {nms(op[1])})"
    if k == "joinOn":
        return f"(OJoinOn {nms(op[1])} {nm(op[2])} {nm(op[3])})"
    if k == "withColumnRenamed":
        return f"(OWithColumnRenamed {nm(op[1])} {nm(op[2])})"
    if k == "toDF":
        return f"(OToDF {nms(op[1])})"
    if k == "drop":
        return f"(ODrop {nms(op[1])})"
    if k == "groupAgg":
        return f"(OGroupAgg {listlit([selarg_coq(a) for a in op[1]])} {nms(op[2])})"
    if k == "agg":
        return f"(OAgg {nms(op[1])})"
    if k == "join":
        return f"(OJoin {nms(op[1])} {nms(op[2])})"
    if k == "fillna":
        return "(OFillna None)" if op[1] is None else f"(OFillna (Some {nms(op[1])}))"
    if k == "dropna":
        return "ODropna"
    if k == "dropDuplicates":
        return f"(ODropDuplicates {nms(op[1])})"
    if k == "where":
        return f"(OWhere {nm(op[1])})"
    if k == "orderBy":
        return f"(OOrderBy {nms(op[1])})"
    if k == "limit":
        return "OLimit"
    if k == "distinct":
        return "ODistinct"
    raise ValueError(op)


def all_strings(prog, obs=()):
    out = list(prog["names"])
    for op in prog["ops"]:
        for x in op[1:]:
            if isinstance(x, str):
                out.append(x)
            elif isinstance(x, (list, tuple)):
                for y in x:
                    if isinstance(y, str):
                        out.append(y)
                    elif isinstance(y, (list, tuple)):
                        out += [z for z in y[1:] if isinstance(z, str)]
    for o in obs:
        for v in ("columns", "fields", "schema", "pandas", "receiver_after"):
            out += list(o.get(v) or [])
    return out


def env_tables(strings):
    lower, word = {}, set()
    for st in strings:
        for ch in st:
            cp = ord(ch)
            if cp >= 128:
                lo = ch.lower()
                if lo != ch:
                    lower[cp] = [ord(x) for x in lo]
                if re.fullmatch(r"\w", ch):
                    word.add(cp)
    lt = "[" + "; ".join(f"({k}, [{'; '.join(map(str, v))}])" for k, v in sorted(lower.items())) + "]"
    wt = "[" + "; ".join(str(x) for x in sorted(word)) + "]"
    return lt, wt


def obs_coq(o) -> str:
    if o is None or "error" in o:
        return "None"
    recv = o.get("receiver_after", o["columns"])
    return (f"(Some (mkObs {nms(o['columns'])} {nms(o['fields'])} {nms(o['schema'])} {nms(o['pandas'])} {nms(recv)}))")


def case_coq(prog, obs) -> str:
    lt, wt = env_tables(all_strings(prog, obs))
    return (f"(mkCase {lt} {wt} {nms(prog['names'])} {listlit([op_coq(o) for o in prog['ops']])} "
            f"{listlit([obs_coq(o) for o in obs])})")


HEADER = """From SF Require Import C10.Check.
From Gen Require Import C10Facts.
Open Scope N_scope.
Definition check := Check.check gen_cfg.
"""
FLAGS = ["impl_ok", "model_ok", "spec_ok", "m_columns", "m_fields", "m_schema", "m_pandas", "m_receiver",
         "s_columns", "s_fields", "s_schema", "s_pandas", "model_eq_spec"]


def parse_result(r):
    head, _, body = r.partition(";")
    groups = body.split(",") if body else []
    return {"td": head[0] == "1", "tc": head[1] == "1", "cfg_ok": head[2] == "1",
            "steps": [{f: g[i] == "1" for i, f in enumerate(FLAGS)} for g in groups if len(g) == len(FLAGS)]}


# programs that run first on every run (shapes of the listed findings and of the theorems' domain)
CORPUS = [
    {"names": ["AB", "c d", "Xy"], "ops": [("groupAgg", [("str", "AB")], ["N"])]},
    {"names": ["AB", "c d", "Xy"], "ops": [("select", [("str", "`c d`")])]},
    {"names": ["AB", "c d", "Xy"], "ops": [("fillna", None)]},
    {"names": ["AB", "c d", "Xy"], "ops": [("drop", ["xy"])]},
    {"names": ["AB", "c d", "Xy"], "ops": [("toDF", ["Aa", "Bb", "Cc"])]},
    {"names": ["AB", "Xy"], "ops": [("join", ["ab", "Other"], ["Ab"])]},
    {"names": ["AB", "c d"], "ops": [("join", ["C D", "Other"], ["c d"])]},
    {"names": ["C D", "1a"], "ops": []},
    {"names": ["AB", "c d", "Xy"], "ops": [("where", "ab"), ("select", [("str", "ab"), ("str", "XY")])]},
    {"names": ["select", "zz"], "ops": [("orderBy", ["select"])]},
    {"names": ["straße"], "ops": [("select", [("alias", "sTraße", "ДА")]), ("orderBy", ["ДА"])]},
    {"names": ["AB", "Xy"], "ops": [("select", [("col", "ab"), ("col", "AB")])]},
    {"names": ["AB", "Xy"], "ops": [("select", [("col", "`Ab`")])]},
    {"names": ["AB", "c d", "Xy"], "ops": [("dropna",)]},
    {"names": ["AB", "c d", "Xy"], "ops": [("dropDuplicates", ["Ab"])]},
    {"names": ["AB", "c d", "Été"], "ops": [("select", [("col", "`C D`"), ("col", "ab"), ("alias", "éTÉ", "Order")]),
                                               ("withColumn", "ab", "AB"), ("withColumnRenamed", "ORDER", "My Col"),
                                               ("where", "`my col`"), ("orderBy", ["AB"]), ("limit",), ("distinct",)]},
    {"names": ["AB", "Xy"], "ops": [("agg", ["Mx", "c d"])]},
    # references through the DataFrame object
    {"names": ["AB", "Xy"], "ops": [("select", [("item", "Xy"), ("attr", "AB")])]},
    {"names": ["AB", "Xy", "c d"], "ops": [("select", [("item", "XY"), ("attr", "AB"), ("item", "`C d`")])]},
    {"names": ["AB", "Xy"], "ops": [("whereItem", "xy"), ("select", [("item", "xY")]), ("withColumnItem", "Nn", "XY")]},
    {"names": ["AB", "Xy"], "ops": [("orderByItems", ["ab", "XY"])]},
    {"names": ["AB", "Xy"], "ops": [("select", [("alias", "ab", "Zz"), ("str", "xy")]), ("orderByItems", ["zz"])]},
    {"names": ["AB", "Xy"], "ops": [("joinOn", ["Kk", "Other"], "ab", "KK"), ("select", [("item", "XY"), ("item", "OTHER")])]},
    {"names": ["AB"], "ops": [("joinOn", ["kk", "other"], "ab", "KK"), ("select", [("str", "ab"), ("item", "OTHER")])]},
    {"names": ["AB", "c d"], "ops": [("groupAgg", [("item", "C D")], ["n"])]},
    {"names": ["AB", "Xy"], "ops": [("withColumn", "Nn", "ab"), ("groupAgg", [("item", "xy")], ["n"])]},
    # duplicate column names after a condition join: withColumnRenamed renames every column of that name
    {"names": ["k", "Name", "v"], "ops": [("joinOn", ["id", "k", "tag"], "k", "ID"), ("withColumnRenamed", "K", "Key")]},
    {"names": ["c d", "AB"], "ops": [("joinOn", ["id", "c d"], "ab", "id"), ("withColumnRenamed", "C D", "x y")]},
    {"names": ["id", "lv"], "ops": [("joinOn", ["id", "rv"], "id", "ID"), ("toDF", ["id", "lv", "rid", "rv"]),
                                     ("select", [("str", "lv"), ("str", "RV")])]},
    {"names": ["K", "v"], "ops": [("joinOn", ["id", "K"], "k", "ID"), ("drop", ["k"])]},
    {"names": ["c d", "AB"], "ops": [("joinOn", ["id", "c d"], "ab", "id"), ("toDF", ["P q", "Ab", "Id", "1x"])]},
    # stale entries of the display-name map: a column the frame lost comes back from elsewhere in another spelling
    {"names": ["Status", "AB"], "ops": [("drop", ["status"]), ("join", ["ab", "STATUS"], ["ab"])]},
    {"names": ["Status", "AB"], "ops": [("select", [("str", "ab")]), ("joinOn", ["kk", "STATUS"], "AB", "KK")]},
    {"names": ["Status", "AB"], "ops": [("withColumnRenamed", "status", "Xy"), ("join", ["ab", "STATUS"], ["ab"]),
                                         ("withColumn", "xY", "status")]},
    {"names": ["Status", "AB"], "ops": [("select", [("col", "ab")]), ("withColumn", "STATUS", "ab"),
                                         ("groupAgg", [("str", "Ab")], ["status"])]},
]


# ------------------------------------------------------------------------------------------------
# judging
# ------------------------------------------------------------------------------------------------
VIEWS = ["columns", "fields", "schema", "pandas"]


def _is_ticked(x):
    return len(x) >= 2 and x[0] == "`" and x[-1] == "`"


def signature(prog, k, st, o, kind):
    """shape predicate of a deviation at step k (0 = createDataFrame) of `prog`.  kind: raises | receiver | names"""
    op = prog["ops"][k - 1] if k > 0 else ("createDataFrame", prog["names"])
    m = op[0]
    if kind == "receiver":
        if m in ("select", "withColumn", "withColumnRenamed", "agg"):      # the methods that record on `self`
            return "C10/receiver-respelled-by-recording-method"
        return f"C10/receiver-respelled-by-{m}"
    if kind == "raises":
        err = (o.get("error") or "?").split(":")[0]
        if m == "orderBy" and err == "ParseError" and any(key(attr(v)) in KW_ORDERBY and not _is_ticked(v) for v in op[1]):
            return "C10/orderBy-reserved-word-raises"
        if m == "orderBy" and err == "BinderException" and any(not attr(v).isascii() for v in op[1]):
            return "C10/orderBy-nonascii-alias-in-same-select-raises"
        if m == "orderByItems" and err == "BinderException" and k >= 2 and prog["ops"][k - 2][0] in (
                "select", "withColumn", "withColumnItem", "withColumnRenamed", "toDF", "agg", "groupAgg", "drop", "fillna",
                "dropDuplicates", "distinct"):
            return "C10/orderBy-df-item-after-select-raises"
        if err == "BinderException" and _right_item_after_join(prog, k):
            return "C10/df-item-right-column-after-join-raises"
        if m == "groupAgg" and err == "BinderException" and any(a[0] in ("item", "attr") for a in op[1]):
            return "C10/groupBy-df-item-after-select-raises"
        if m == "join" and err == "ValueError" and any(needs_ticks(v) for v in op[2]):
            return "C10/join-key-needing-quotes-raises"
        if _ticked_plain_before(prog, k):
            return "C10/backticked-plain-name-quoted-item"
        return f"C10/raises:{m}:{err}"
    # names: which views deviate from Spark's names
    bad = [v for v in VIEWS if not st["s_" + v]]
    if bad == ["schema"] and any(_is_ticked(x) and x[1:2].isdigit() for x in o["schema"]):
        return "C10/leading-digit-name-schema-backticks"
    if _ticked_plain_before(prog, k):
        # `x` around a name that needs no quoting builds a QUOTED select item keyed '`x`': schema looks up 'x' (stale), and
        # later bare references (withColumn / withColumnRenamed / drop / join keys) do not find the column
        return "C10/backticked-plain-name-quoted-item"
    if m == "toDF":
        return "C10/toDF-names-not-recorded"
    if m in ("drop", "fillna", "dropna", "dropDuplicates"):
        return f"C10/{m}-respells-columns"
    if m == "groupAgg":
        return "C10/groupBy-agg-names-not-recorded"
    if m in ("join", "joinOn"):
        return "C10/join-right-side-names-lost"
    if m == "select":
        ks = [key(attr(a[2] if a[0] == "alias" else a[1])) for a in op[1]]
        if len(set(ks)) != len(ks):
            return "C10/select-same-column-twice"
        if any(a[0] == "str" and _is_ticked(a[1]) for a in op[1]) and any("`" in x for v in VIEWS for x in (o.get(v) or [])):
            return "C10/select-backticked-string-keeps-backticks"
    return f"C10/{m}:" + "+".join(bad)


def _item_refs(op):
    k = op[0]
    if k in ("select", "groupAgg"):
        return [a[1] for a in op[1] if a[0] in ("item", "attr")]
    if k == "whereItem":
        return [op[1]]
    if k == "withColumnItem":
        return [op[2]]
    if k == "orderByItems":
        return list(op[1])
    if k == "joinOn":
        return [op[2]]
    return []


def _right_item_after_join(prog, k):
    """step k references through df[...] a column that an earlier join brought in from the right frame"""
    right = set()
    for op in prog["ops"][:k - 1]:
        if op[0] in ("join", "joinOn"):
            right |= {key(x) for x in op[1]}
    return any(key(attr(v)) in right for v in _item_refs(prog["ops"][k - 1]))


def _ticked_plain_before(prog, k):
    for op in prog["ops"][:k]:
        refs = []
        if op[0] in ("select", "groupAgg"):
            refs = [a[1] for a in op[1]]
        elif op[0] in ("drop", "dropDuplicates", "join"):
            refs = list(op[1] if op[0] != "join" else op[2])
        elif op[0] in ("where", "whereItem", "withColumnRenamed"):
            refs = [op[1]]
        elif op[0] in ("withColumn", "withColumnItem"):
            refs = [op[2]]
        elif op[0] == "joinOn":
            refs = [op[2]]
        elif op[0] in ("orderBy", "orderByItems"):
            refs = list(op[1])
        if any(_is_ticked(x) and not needs_ticks(attr(x)) for x in refs):
            return True
    return False


def well_formed(prog):
    """every reference resolves and names stay distinct (Python proxy of the Coq spec; used by the shrinker only)"""
    ns = list(prog["names"])
    for op in prog["ops"]:
        refs = []
        if op[0] in ("select", "groupAgg"):
            refs = [attr(a[1]) for a in op[1]]
        elif op[0] in ("withColumn", "withColumnItem"):
            refs = [attr(op[2])]
        elif op[0] in ("withColumnRenamed", "where", "whereItem"):
            refs = [attr(op[1])]
        elif op[0] == "joinOn":
            refs = [attr(op[2])]
            if key(attr(op[3])) not in {key(x) for x in op[1]}:
                return False
        elif op[0] in ("drop", "dropDuplicates", "orderBy", "orderByItems"):
            refs = [attr(v) for v in op[1]]
        elif op[0] == "fillna":
            refs = [attr(v) for v in (op[1] or [])]
        elif op[0] == "join":
            refs = list(op[2])
            if any(key(v) not in {key(x) for x in op[1]} for v in op[2]):
                return False
        elif op[0] == "toDF" and len(op[1]) != len(ns):
            return False
        if any(key(r) not in {key(x) for x in ns} for r in refs):
            return False
        ns = py_spec_step(op, ns)
        if not ns:
            return False
    return True


def _tup(op):
    def conv(x):
        if isinstance(x, list):
            if x and isinstance(x[0], str) and x[0] in ("str", "col", "alias", "item", "attr") and len(x) in (2, 3):
                return tuple(x)
            return [conv(y) for y in x]
        return x
    return tuple(conv(x) for x in op)


def load_recordings():
    path = os.path.join(core.VERIF, "oracle", "c10_pyspark.jsonl")
    out = []
    if os.path.exists(path):
        for line in open(path):
            r = json.loads(line)
            r["ops"] = [_tup(o) for o in r["ops"]]
            out.append(r)
    return out


def _arg_py(a):
    if a[0] == "str":
        return repr(a[1])
    if a[0] == "col":
        return f"F.col({a[1]!r})"
    if a[0] == "item":
        return f"df[{a[1]!r}]"
    if a[0] == "attr":
        return f"df.{a[1]}"
    return f"F.col({a[1]!r}).alias({a[2]!r})"


def op_py(op) -> str:
    k = op[0]
    if k == "select":
        return "select(" + ", ".join(_arg_py(a) for a in op[1]) + ")"
    if k == "withColumn":
        return f"withColumn({op[1]!r}, F.col({op[2]!r}))"
    if k == "withColumnItem":
        return f"withColumn({op[1]!r}, df[{op[2]!r}])"
    if k == "whereItem":
        return f"where(df[{op[1]!r}] == 1)"
    if k == "orderByItems":
        return "orderBy(" + ", ".join(f"df[{x!r}]" for x in op[1]) + ")"
    if k == "joinOn":
        return f"join(other := createDataFrame([...], {list(op[1])!r}), df[{op[2]!r}] == other[{op[3]!r}], 'inner')"
    if k == "withColumnRenamed":
        return f"withColumnRenamed({op[1]!r}, {op[2]!r})"
    if k == "toDF":
        return "toDF(" + ", ".join(repr(x) for x in op[1]) + ")"
    if k == "drop":
        return "drop(" + ", ".join(repr(x) for x in op[1]) + ")"
    if k == "groupAgg":
        return ("groupBy(" + ", ".join(_arg_py(a) for a in op[1]) + ").agg("
                + ", ".join(f"F.count('*').alias({a!r})" for a in op[2]) + ")")
    if k == "agg":
        return "agg(" + ", ".join(f"F.count('*').alias({a!r})" for a in op[1]) + ")"
    if k == "join":
        return f"join(createDataFrame([...], {list(op[1])!r}), on={list(op[2])!r}, how='inner')"
    if k == "fillna":
        return "fillna(0)" if op[1] is None else f"fillna(0, subset={list(op[1])!r})"
    if k == "dropna":
        return "dropna()"
    if k == "dropDuplicates":
        return f"dropDuplicates({list(op[1])!r})"
    if k == "where":
        return f"where(F.col({op[1]!r}) == 1)"
    if k == "orderBy":
        return "orderBy(" + ", ".join(repr(x) for x in op[1]) + ")"
    if k == "limit":
        return "limit(5)"
    return "distinct()"


def prog_str(prog, upto=None):
    ops = prog["ops"] if upto is None else prog["ops"][:upto]
    return f"createDataFrame([...], {list(prog['names'])!r})" + "".join("." + op_py(op) for op in ops)


def run(ctx: core.Ctx):
    from translate import c10_facts
    try:
        text, facts = c10_facts.generate(core.REPO)
        ctx.gen("C10Facts", text, facts)
        t1_ok = True
    except Exception as ex:                                   # noqa: BLE001
        ctx.broken("T1:c10_facts", f"{type(ex).__name__}: {ex}")
        t1_ok = False
        ctx.gen("C10Facts", open(core.VERIF + "/translate/c10_facts_pinned.v").read())
    proved = ctx.prove([ctx.build + "/gen/C10Facts.v"] + ([core.COQ + "/props/C10.v"] if t1_ok else []),
                       dep_theories=["C10/Names.v", "C10/Model.v", "C10/Spec.v", "C10/Domain.v", "C10/Check.v",
                                     "C10/Proofs.v", "C10/Ascii.v"])
    ctx.log(f"T1 {'ok' if t1_ok else 'BROKEN'}, proofs {'ok' if proved else 'BROKEN'}")

    import sqlframe.duckdb.functions as F
    from sqlframe.duckdb import DuckDBSession
    session = DuckDBSession()
    rnd = random.Random(ctx.seed)
    recs = load_recordings()
    quick = ctx.tier == "quick"
    n_rec = 110 if quick else len(recs)
    n_rand = 150 if quick else 1500
    n_digit = 14 if quick else 200
    progs = [("corpus", p) for p in CORPUS]
    stride = max(1, len(recs) // max(1, n_rec))
    progs += [("recorded", {"names": r["names"], "ops": r["ops"]}) for r in recs[::stride][:n_rec]]
    g = Gen(rnd)
    progs += [("random", g.program(4 if rnd.random() < 0.8 else 7)) for _ in range(n_rand)]
    gd = Gen(rnd, digits=True)
    for _ in range(n_digit * 30):
        if sum(1 for t, _ in progs if t == "digit") >= n_digit:
            break
        p = gd.program(3)
        if any(CATEGORY.get(x) == "digit" or x[:1].isdigit() for x in all_strings(p)):
            progs.append(("digit", p))
    # distinct programs only
    seen, uniq = set(), []
    for tag, p in progs:
        kk = json.dumps(p, sort_keys=True, default=list, ensure_ascii=False)
        if kk not in seen and all(py_lower_ok(x) for x in all_strings(p)):
            seen.add(kk)
            uniq.append((tag, p))
    progs = uniq
    obs = [run_program(session, F, p) for _, p in progs]
    n_steps = sum(len(o) for o in obs)
    ctx.log(f"{len(progs)} programs, {n_steps} observed steps on the implementation")
    items = [case_coq(p, o) for (_, p), o in zip(progs, obs)]
    res = ctx.cases("c10", HEADER, items, per_file=30, result_ty="str")

    hist_op, hist_cat, hist_len, hist_tag = {}, {}, {}, {}
    n_eval = n_nontriv = n_td = n_tc = n_model_dev = 0
    model_fail, thm_fail = [], []
    sig_count: dict[str, int] = {}
    for (tag, p), o, r in zip(progs, obs, res):
        hist_tag[tag] = hist_tag.get(tag, 0) + 1
        hist_len[len(p["ops"])] = hist_len.get(len(p["ops"]), 0) + 1
        for op in p["ops"]:
            hist_op[op[0]] = hist_op.get(op[0], 0) + 1
        for x in set(all_strings(p)):
            cat = CATEGORY.get(attr(x)) or next((CATEGORY[n] for n in ALL_NAMES if key(n) == key(attr(x))), "other")
            hist_cat[cat] = hist_cat.get(cat, 0) + 1
        if r is None:
            continue
        pr = parse_result(r)
        n_td += pr["td"]
        n_tc += pr["tc"]
        deviated = False
        for k, (st, ob) in enumerate(zip(pr["steps"], o)):
            n_eval += 1
            op = p["ops"][k - 1] if k else None
            changed = k > 0 and not ("error" in ob) and ob["columns"] != o[k - 1].get("columns")
            mixed = any(x != x.lower() or needs_ticks(attr(x)) or not x.isascii() for x in all_strings({"names": p["names"], "ops": p["ops"][:k]}))
            if k > 0 and mixed and (changed or "error" in ob):
                n_nontriv += 1
            desc = {"program": prog_str(p, k), "names": p["names"], "ops": [list(x) for x in p["ops"][:k]], "step": k,
                    "implementation": ob, "flags": st}
            model_agrees = (st["impl_ok"] == st["model_ok"]) and (not st["impl_ok"] or all(st["m_" + v] for v in VIEWS + ["receiver"]))
            kind = None
            if not st["spec_ok"]:
                pass                                   # ill-formed for Spark (the generator should not produce these)
            elif not st["impl_ok"]:
                kind = "raises"
            elif not all(st["s_" + v] for v in VIEWS):
                kind = "names"
            elif k > 0 and ob["receiver_after"] != ob["receiver_before"]:
                kind = "receiver"
            if kind and not deviated:
                deviated = True
                sig = signature(p, k, st, ob, kind)
                what = {"raises": f"raises {ob.get('error')} where PySpark returns names",
                        "names": "reports names that differ from PySpark's: " + ", ".join(
                            f"{v}={ob.get(v)}" for v in VIEWS if not st["s_" + v]),
                        "receiver": f"changed the receiver's columns from {ob.get('receiver_before')} to {ob.get('receiver_after')}"}[kind]
                desc["spark_names"] = _py_names(p, k)
                sig_count[sig] = sig_count.get(sig, 0) + 1
                if sig_count[sig] == 1:     # the first of its shape carries the Coq case and is shrunk
                    desc["coq_case"] = case_coq({"names": p["names"], "ops": p["ops"][:k]}, o[:k + 1])
                    desc = shrink(session, F, p, k, sig, desc)
                if sig_count[sig] <= 3:
                    ctx.deviation(sig, f"{prog_str(p, k)} {what}", desc)
                if not model_agrees:
                    n_model_dev += 1
            if not kind and st["spec_ok"] and not model_agrees:
                model_fail.append(desc)
            if proved and pr["td"] and pr["cfg_ok"] and st["model_ok"] and not st["model_eq_spec"]:
                thm_fail.append(desc)
            if len(ctx.samples) < 5 and k == len(o) - 1 and k >= 2 and tag == "random":
                ctx.sample({"program": prog_str(p, k), "implementation": ob, "flags": st})
            if "error" in ob:
                break
    if model_fail:
        ctx.broken("T3:impl-vs-model", f"{len(model_fail)} steps where the implementation agrees with Spark but not with the "
                   f"model; first: {model_fail[0]['program']}", data=model_fail[:5])
    if thm_fail:
        ctx.broken("theorem-vs-evaluation", "in-domain program on which model and spec evaluate differently", data=thm_fail[:3])

    # ---- spec conformance: Spark.names against the names recorded from PySpark 3.5.9
    n_rs = n_rbad = 0
    ritems, rmeta = [], []
    for r in recs:
        if any("error" in st for st in r["steps"]) or not all(py_lower_ok(x) for x in all_strings(r)):
            continue
        ob = []
        for st in r["steps"]:
            ob.append({"columns": st["columns"], "schema": st["schema"], "fields": st.get("fields", st["columns"]),
                       "pandas": st.get("pandas", st["columns"])})
        ritems.append(case_coq(r, ob))
        rmeta.append(r)
    rres = ctx.cases("c10rec", HEADER, ritems, per_file=60, result_ty="str")
    badrec = []
    for r, rr in zip(rmeta, rres):
        if rr is None:
            continue
        pr = parse_result(rr)
        for k, st in enumerate(pr["steps"]):
            n_rs += 1
            if not (st["spec_ok"] and all(st["s_" + v] for v in VIEWS)):
                n_rbad += 1
                badrec.append({"program": prog_str(r, k), "pyspark": r["steps"][k], "flags": st})
                break
    if badrec:
        ctx.broken("spec-conformance", f"{len(badrec)} recorded PySpark programs whose names differ from Spark.names; first: "
                   f"{badrec[0]['program']} -> {badrec[0]['pyspark']}", data=badrec[:5])
    if not recs:
        ctx.broken("spec-conformance", "oracle/c10_pyspark.jsonl is missing")
    n_exotic = run_exotic(ctx, session, F)

    ctx.coverage.update({
        "evaluations": n_eval, "distinct_nontrivial": n_nontriv, "programs": len(progs),
        "rule": "evaluation = one step of a program (createDataFrame or a naming operation) observed through df.columns, "
                "collect()[0].__fields__, schema names, toPandas().columns and the receiver's columns, all compared with the Coq "
                "model and Spark.names; programs are distinct; non-trivial = the program so far uses a mixed-case / quoted / "
                "non-ASCII spelling and the step changed the reported names or raised",
        "histogram_operation": hist_op, "histogram_name_category": hist_cat, "histogram_program_length": hist_len,
        "histogram_source": hist_tag, "in_domain_names_theorem": n_td, "in_domain_views_theorem": n_tc,
        "model_disagrees_on_a_deviating_step": n_model_dev, "deviating_steps_by_signature": sig_count,
        "exotic_name_programs_vs_pyspark": n_exotic, "pyspark_recorded_steps_checked": n_rs, "pyspark_recorded_steps_disagree": n_rbad,
    })
    ctx.trusted += [
        "translate/c10_facts.py (+ helpers of translate/c01_facts.py, vlib/py2v.py): fail-closed Python-ast reader; its output is "
        "also exercised by T3 (the model instantiated with the generated facts must reproduce the implementation)",
        "checks/c10.py: generator, runner of the implementation, signature classifier, shrinker (the shrinker uses a Python "
        "proxy of Spark.names; verdicts come from the Coq Spec)",
        "oracle/c10_pyspark.jsonl, oracle/c10_pyspark_exotic.jsonl: names recorded from live PySpark 3.5.9 by oracle/record_c10.py",
    ]
    ctx.assumptions += [
        "C10.Names.qspark/qduck/qsafe/unbt and Model.kw_orderby are my definitions of sqlglot 26.14's identifier parsing, quoting "
        "and of the keywords orderBy cannot re-parse (validated by T3 on every run, never proved about sqlglot)",
        "DuckDB reports a quoted output alias verbatim and binds ORDER BY keys to output aliases folding ASCII case only",
        "CPython's str.lower() is applied per code point (names with context-dependent case mapping are not generated); the "
        "theorems hold for every normalisation that is idempotent and preserves quoting class / back-tick freeness / leading "
        "digit -- proved for ASCII lower-casing, assumed (and tested through per-case tables) for non-ASCII code points",
        "Spark.names (C10.Spec) is my reading of PySpark 3.5's analyzer, validated against oracle/c10_pyspark.jsonl",
        "names with dots, embedded back-ticks or quotes, leading/trailing blanks, all-digit names and the literals null/true/false "
        "are outside the generator (sqlglot's exotic identifier syntax)",
    ]


def _py_names(p, k):
    ns = list(p["names"])
    for op in p["ops"][:k]:
        ns = py_spec_step(op, ns)
    return ns


def shrink(session, F, prog, k, sig, desc):
    """drop earlier operations while the same signature still shows on the implementation (Python proxy of the spec;
    the unshrunk case judged by Coq stays in the replay)"""
    best = {"names": prog["names"], "ops": list(prog["ops"][:k])}

    def deviates(q):
        if not well_formed(q):
            return False
        o = run_program(session, F, q)
        kk = len(q["ops"])
        if len(o) <= kk:
            return False
        ob = o[kk]
        want = _py_names(q, kk)
        if "error" in ob:
            return sig.endswith("raises") or sig.startswith("C10/raises")
        if sig.startswith("C10/receiver"):
            return ob.get("receiver_after") != ob.get("receiver_before")
        if sig.endswith("raises") or sig.startswith("C10/raises"):
            return False
        if any("error" in x for x in o[:kk]):
            return False
        prev_ok = all(all(x[v] == _py_names(q, i) for v in VIEWS) for i, x in enumerate(o[:kk]))
        return prev_ok and any(ob[v] != want for v in VIEWS)

    if k > 1:
        i = 0
        while i < len(best["ops"]) - 1:
            cand = {"names": best["names"], "ops": best["ops"][:i] + best["ops"][i + 1:]}
            try:
                if deviates(cand) and signature_of(session, F, cand) == sig:
                    best = cand
                    continue
            except Exception:                                 # noqa: BLE001
                pass
            i += 1
    out = dict(desc)
    out["shrunk"] = {"program": prog_str(best), "names": best["names"], "ops": [list(x) for x in best["ops"]],
                     "spark_names": _py_names(best, len(best["ops"])),
                     "implementation": run_program(session, F, best)[-1]}
    return out


def signature_of(session, F, q):
    """signature of the deviation at the last step of q, judged with the Python proxy of the spec (shrinker only)"""
    o = run_program(session, F, q)
    kk = len(q["ops"])
    ob = o[kk]
    want = _py_names(q, kk)
    if "error" in ob:
        return signature(q, kk, {}, ob, "raises")
    st = {"s_" + v: ob[v] == want for v in VIEWS}
    if not all(st.values()):
        return signature(q, kk, st, ob, "names")
    if ob.get("receiver_after") != ob.get("receiver_before"):
        return signature(q, kk, st, ob, "receiver")
    return None


def replay(ctx, rp):
    """re-run the program of a replay file on the current tree and print what the four views report"""
    if "names" in rp:                       # a findings/C10-*.json file
        r = rp
    else:
        r = rp.get("replay") or ((rp.get("no_longer_checks") or [{}])[0].get("data") or [{}])[0]
    r = r.get("shrunk") or r
    import sqlframe.duckdb.functions as F
    from sqlframe.duckdb import DuckDBSession
    prog = {"names": r["names"], "ops": [_tup(o) for o in r["ops"]]}
    obs = run_program(DuckDBSession(), F, prog)
    print("program:", prog_str(prog))
    for k, o in enumerate(obs):
        print(f" step {k}:", o)
    print("PySpark reports:", r.get("spark_names") or r.get("spark") or _py_names(prog, len(prog["ops"])))
    return 0


# ------------------------------------------------------------------------------------------------
# names outside the Coq model's identifier syntax (sqlglot's exotic parses): implementation vs PySpark recording only
# ------------------------------------------------------------------------------------------------
EXOTIC = [
    {"tag": "literal-word", "names": ["true", "zz"], "ops": []},
    {"tag": "literal-word", "names": ["False", "zz"], "ops": [("select", [("str", "false")])]},
    {"tag": "literal-word", "names": ["null", "zz"], "ops": [("select", [("col", "NULL")])]},
    {"tag": "literal-word", "names": ["Null", "zz"], "ops": [("withColumnRenamed", "null", "Q")]},
    {"tag": "all-digits", "names": ["9", "zz"], "ops": [("select", [("col", "9")])]},
    {"tag": "all-digits", "names": ["zz"], "ops": [("withColumn", "12", "zz")]},
    {"tag": "dotted", "names": ["a.b", "zz"], "ops": []},
    {"tag": "dotted", "names": ["a.B", "zz"], "ops": [("select", [("col", "`A.b`")])]},
    {"tag": "dotted", "names": ["zz"], "ops": [("withColumn", "x.Y", "zz")]},
    {"tag": "dotted", "names": ["zz"], "ops": [("select", [("alias", "zz", "x.Y")])]},
]


def run_exotic(ctx, session, F):
    path = os.path.join(core.VERIF, "oracle", "c10_pyspark_exotic.jsonl")
    if not os.path.exists(path):
        ctx.broken("spec-conformance", "oracle/c10_pyspark_exotic.jsonl is missing")
        return 0
    n = 0
    for line in open(path):
        r = json.loads(line)
        prog = {"names": r["names"], "ops": [_tup(o) for o in r["ops"]]}
        want = r["steps"][-1]
        if "error" in want:
            continue                                   # PySpark rejects the program: nothing is promised
        got = run_program(session, F, prog)[-1]
        n += 1
        ok = "error" not in got and all(got[v] == want["columns"] for v in VIEWS) and len(got) and \
            got.get("receiver_after") == got.get("receiver_before")
        if not ok:
            ctx.deviation(f"C10/exotic-{r['tag']}-name", f"{prog_str(prog)}: sqlframe {got.get('error') or {v: got[v] for v in VIEWS}}; "
                          f"PySpark reports {want['columns']}",
                          {"program": prog_str(prog), "names": prog["names"], "ops": [list(o) for o in prog["ops"]],
                           "implementation": got, "spark_names": want["columns"]})
    return n
