"""C10 -- column names: case-insensitive lookup, case-preserving output, safe quoting (DuckDBSession).

T1  translate/c10_facts.py -> Gen/C10Facts.v  (which methods record a spelling and on which object, how drop/fillna/
    dropna re-select, decorator classes + wrapper predicate, what col()/alias() remember, how the four views use the map)
Prf coq/props/C10.v         -> lookup_case_insensitive, views_agree (all reachable states of the recording alphabet),
    spelling_is_last_named (model = Spark.names on the decidable domain), C10_refuted_* witnesses
T3  programs of naming operations over generated names; after every step: df.columns, collect()[0].__fields__,
    schema names, toPandas().columns and the receiver's columns  ==  Coq model  ==  Coq Spark.names; the Spark spec is
    itself compared with names recorded from PySpark 3.5.9 (oracle/c10_pyspark.jsonl)
"""
from __future__ import annotations

import json
import os
import random
import re

from vlib import core
from vlib.core import listlit, boollit

# ------------------------------------------------------------------------------------------------
# names
# ------------------------------------------------------------------------------------------------
POOL = {
    "mixed": ["AB", "aB", "Xy", "Col1", "userId", "x", "Y_2", "zZz", "_u"],
    "reserved": ["select", "Order", "FROM", "group", "Table", "by", "Where", "join"],
    "spaced": ["c d", "My Col", "a-b", "x#1", "two  sp", "Q r s"],
    "digit": ["1a", "2B c", "9x_Y", "00z"],
    "unicode": ["Été", "Straße", "日本", "Ünï cöde", "\U0001F600", "a\U0001F600B",
                "ДА", "\U0001D4B3y", "ça", "nº1"],
}
CATEGORY = {n: c for c, ns in POOL.items() for n in ns}
ALL_NAMES = [n for ns in POOL.values() for n in ns]


# Spark-dialect keywords which sqlframe's orderBy cannot re-parse when they are bare column names (measured; the Coq
# model carries the same list as a definition of sqlglot's behaviour)
KW_ORDERBY = set("alter always analyze and any as between case create cross distinct drop else except fetch for from glob "
                 "grant having ilike in inner insert intersect into join lateral like lock minus not notnull on or outer "
                 "over qualify regexp returning rlike rollback select serdeproperties tablesample then uncache union using "
                 "values when where with xor nullable".split())


def py_lower_ok(n: str) -> bool:
    """the per-code-point table passed to Coq reproduces str.lower() (no context-dependent mapping)"""
    return "".join(ch.lower() for ch in n) == n.lower()


def variant(rnd, n: str) -> str:
    """a spelling that differs from n only in letter case and denotes the same column for Spark and sqlglot"""
    out = []
    for ch in n:
        alts = {ch}
        for alt in (ch.upper(), ch.lower()):
            if len(alt) == 1 and alt.lower() == ch.lower() and alt.upper() == ch.upper():
                alts.add(alt)
        out.append(rnd.choice(sorted(alts)) if rnd.random() < 0.6 else ch)
    v = "".join(out)
    return v if v.lower() == n.lower() else n


def needs_ticks(n: str) -> bool:
    return not re.fullmatch(r"[A-Za-z0-9_\u0080-\U0010FFFF]+", n)


def key(n: str) -> str:
    return n.lower()


# ------------------------------------------------------------------------------------------------
# PySpark's naming rules in Python -- ONLY used to generate well-formed programs (the judge is the Coq Spec)
# ------------------------------------------------------------------------------------------------
def attr(s: str) -> str:
    return s[1:-1] if len(s) >= 2 and s[0] == "`" and s[-1] == "`" else s


def py_spec_step(op, ns):
    k = op[0]
    if k == "select":
        return [a[2] if a[0] == "alias" else attr(a[1]) for a in op[1]]
    if k == "withColumn":
        if any(key(x) == key(op[1]) for x in ns):
            return [op[1] if key(x) == key(op[1]) else x for x in ns]
        return ns + [op[1]]
    if k == "withColumnRenamed":
        return [op[2] if key(x) == key(op[1]) else x for x in ns]
    if k == "toDF":
        return list(op[1])
    if k == "drop":
        return [x for x in ns if all(key(x) != key(v) for v in op[1])]
    if k == "groupAgg":
        return [attr(a[1]) for a in op[1]] + list(op[2])
    if k == "agg":
        return list(op[1])
    if k == "join":
        keys = [next(x for x in ns if key(x) == key(kk)) for kk in op[2]]
        kk = {key(x) for x in op[2]}
        return keys + [x for x in ns if key(x) not in kk] + [x for x in op[1] if key(x) not in kk]
    return list(ns)


class Gen:
    def __init__(self, rnd, digits=False):
        self.r = rnd
        self.digits = digits      # names with a leading digit only in their own batch (they deviate at createDataFrame)

    def fresh(self, ns, k=1, cats=None):
        used = {key(x) for x in ns}
        pool = [n for n in ALL_NAMES if key(n) not in used and (cats is None or CATEGORY[n] in cats)
                and (self.digits or CATEGORY[n] != "digit")]
        out = []
        for n in self.r.sample(pool, min(k, len(pool))):
            if key(n) not in used:
                used.add(key(n))
                out.append(n if self.r.random() < 0.5 else variant(self.r, n))
        return out

    def ref(self, n, ticks_allowed=True):
        v = variant(self.r, n) if self.r.random() < 0.75 else n
        if ticks_allowed and (needs_ticks(v) and self.r.random() < 0.5 or (not needs_ticks(v) and self.r.random() < 0.06)):
            return "`" + v + "`"
        return v

    def selarg(self, n, ns):
        r = self.r.random()
        if r < 0.35:
            return ("str", self.ref(n))
        if r < 0.75:
            return ("col", self.ref(n))
        new = self.fresh(ns, 1)
        a = new[0] if new and self.r.random() < 0.7 else variant(self.r, n)
        return ("alias", self.ref(n), a)

    def step(self, ns, prev=None):
        r = self.r
        k = r.random()
        if k < 0.22:
            cols = r.sample(ns, r.randint(1, min(3, len(ns))))
            args = [self.selarg(c, ns) for c in cols]
            if r.random() < 0.04 and len(ns) >= 1:          # the same column twice under two spellings
                args.append(("col", variant(r, cols[0])))
            return ("select", args)
        if k < 0.34:
            tgt = r.choice(ns) if r.random() < 0.4 else (self.fresh(ns, 1) or [r.choice(ns)])[0]
            tgt = variant(r, tgt)
            return ("withColumn", tgt, self.ref(r.choice(ns)))
        if k < 0.44:
            new = (self.fresh(ns, 1) or ["Zq"])[0]
            old = r.choice(ns)
            if r.random() < 0.25:
                new = variant(r, old)
            return ("withColumnRenamed", self.ref(old, ticks_allowed=False), new)
        if k < 0.50:
            new = self.fresh([], len(ns))
            if r.random() < 0.3:
                new = [variant(r, x) for x in ns]
            return ("toDF", new)
        if k < 0.58 and len(ns) >= 2:
            d = r.sample(ns, r.randint(1, min(2, len(ns) - 1)))
            return ("drop", [self.ref(x, ticks_allowed=False) for x in d])
        if k < 0.66:
            keys = r.sample(ns, r.randint(0, min(2, len(ns))))
            rest = [x for x in ns if x not in keys]
            al = self.fresh(keys, r.randint(1, 2))
            return ("groupAgg", [(r.choice(["str", "col"]), self.ref(x)) for x in keys], al)
        if k < 0.69:
            return ("agg", self.fresh([], r.randint(1, 2)))
        if k < 0.77:
            kk = r.sample(ns, r.randint(1, min(2, len(ns))))
            others = self.fresh(ns, r.randint(1, 2))
            rn = [variant(r, x) for x in kk] + others
            r.shuffle(rn)
            return ("join", rn, [self.ref(x, ticks_allowed=False) for x in kk])
        if k < 0.82:
            sub = None if r.random() < 0.5 else [self.ref(x, ticks_allowed=False) for x in r.sample(ns, r.randint(1, len(ns)))]
            return ("fillna", sub)
        if k < 0.85:
            return ("dropna",)
        if k < 0.88:
            return ("dropDuplicates", [self.ref(x, ticks_allowed=False) for x in r.sample(ns, r.randint(1, min(2, len(ns))))])
        if k < 0.92:
            return ("where", self.ref(r.choice(ns)))
        if k < 0.96:
            cand = ns
            if prev == "join":   # qualified keyword columns (t.select) hit further parser quirks: not generated
                cand = [x for x in ns if key(x) not in KW_ORDERBY] or None
            if cand:
                return ("orderBy", [self.ref(x) for x in r.sample(cand, r.randint(1, min(2, len(cand))))])
        if k < 0.98:
            return ("limit",)
        return ("distinct",)

    def program(self, maxlen):
        r = self.r
        n0 = self.fresh([], r.randint(1, 4))
        ns = list(n0)
        ops = []
        for _ in range(r.randint(1, maxlen)):
            op = self.step(ns, ops[-1][0] if ops else None)
            ops.append(op)
            ns = py_spec_step(op, ns)
            if not ns or len({key(x) for x in ns}) != len(ns) and r.random() < 0.8:
                break
        return {"names": n0, "ops": ops}


# ------------------------------------------------------------------------------------------------
# running a program on an implementation (sqlframe's DuckDBSession or, for the recorder, PySpark)
# ------------------------------------------------------------------------------------------------
def make_df(session, names):
    return session.createDataFrame([tuple(1 for _ in names)], list(names))


def apply_op(session, F, df, op):
    k = op[0]
    if k == "select":
        args = []
        for a in op[1]:
            if a[0] == "str":
                args.append(a[1])
            elif a[0] == "col":
                args.append(F.col(a[1]))
            else:
                args.append(F.col(a[1]).alias(a[2]))
        return df.select(*args)
    if k == "withColumn":
        return df.withColumn(op[1], F.col(op[2]))
    if k == "withColumnRenamed":
        return df.withColumnRenamed(op[1], op[2])
    if k == "toDF":
        return df.toDF(*op[1])
    if k == "drop":
        return df.drop(*op[1])
    if k == "groupAgg":
        keys = [a[1] if a[0] == "str" else F.col(a[1]) for a in op[1]]
        return df.groupBy(*keys).agg(*[F.count("*").alias(a) for a in op[2]])
    if k == "agg":
        return df.agg(*[F.count("*").alias(a) for a in op[1]])
    if k == "join":
        other = make_df(session, op[1])
        return df.join(other, on=list(op[2]), how="inner")
    if k == "fillna":
        return df.fillna(0) if op[1] is None else df.fillna(0, subset=list(op[1]))
    if k == "dropna":
        return df.dropna()
    if k == "dropDuplicates":
        return df.dropDuplicates(list(op[1]))
    if k == "where":
        return df.where(F.col(op[1]) == F.lit(1))
    if k == "orderBy":
        return df.orderBy(*op[1])
    if k == "limit":
        return df.limit(5)
    if k == "distinct":
        return df.distinct()
    raise ValueError(op)


def observe(df, full=True):
    out = {"columns": list(df.columns)}
    if full:
        rows = df.collect()
        out["fields"] = list(rows[0].__fields__) if rows else None
        out["schema"] = [f.name for f in df.schema.fields]
        out["pandas"] = [str(c) for c in df.toPandas().columns]
    return out


def run_program(session, F, prog, full=True):
    """returns list of per-step observations; step 0 = createDataFrame.  An entry is {'error': ...} when the step or
    one of the observations raised (the program stops there)."""
    import warnings
    obs = []
    with warnings.catch_warnings():
        warnings.simplefilter("ignore")
        try:
            df = make_df(session, prog["names"])
            obs.append(observe(df, full))
        except Exception as ex:                      # noqa: BLE001
            return [{"error": f"{type(ex).__name__}: {str(ex)[:160]}"}]
        for op in prog["ops"]:
            try:
                before = list(df.columns)
                new = apply_op(session, F, df, op)
                o = observe(new, full)
                o["receiver_before"] = before
                o["receiver_after"] = list(df.columns)
                obs.append(o)
                df = new
            except Exception as ex:                  # noqa: BLE001
                obs.append({"error": f"{type(ex).__name__}: {str(ex)[:160]}"})
                break
    return obs


# ------------------------------------------------------------------------------------------------
# Coq terms
# ------------------------------------------------------------------------------------------------
def nm(s: str) -> str:
    return "[" + "; ".join(str(ord(ch)) for ch in s) + "]"


def nms(l) -> str:
    return "[" + "; ".join(nm(x) for x in l) + "]"


def selarg_coq(a) -> str:
    if a[0] == "str":
        return f"(SStr {nm(a[1])})"
    if a[0] == "col":
        return f"(SCol {nm(a[1])})"
    return f"(SAlias {nm(a[1])} {nm(a[2])})"


def op_coq(op) -> str:
    k = op[0]
    if k == "select":
        return f"(OSelect {listlit([selarg_coq(a) for a in op[1]])})"
    if k == "withColumn":
        return f"(OWithColumn {nm(op[1])})"
    if k == "withColumnRenamed":
        return f"(OWithColumnRenamed {nm(op[1])} {nm(op[2])})"
    if k == "toDF":
        return f"(OToDF {nms(op[1])})"
    if k == "drop":
        return f"(ODrop {nms(op[1])})"
    if k == "groupAgg":
        return f"(OGroupAgg {listlit([selarg_coq(a) for a in op[1]])} {nms(op[2])})"
    if k == "agg":
        return f"(OAgg {nms(op[1])})"
    if k == "join":
        return f"(OJoin {nms(op[1])} {nms(op[2])})"
    if k == "fillna":
        return "(OFillna None)" if op[1] is None else f"(OFillna (Some {nms(op[1])}))"
    if k == "dropna":
        return "ODropna"
    if k == "dropDuplicates":
        return f"(ODropDuplicates {nms(op[1])})"
    if k == "where":
        return f"(OWhere {nm(op[1])})"
    if k == "orderBy":
        return f"(OOrderBy {nms(op[1])})"
    if k == "limit":
        return "OLimit"
    if k == "distinct":
        return "ODistinct"
    raise ValueError(op)


def all_strings(prog, obs=()):
    out = list(prog["names"])
    for op in prog["ops"]:
        for x in op[1:]:
            if isinstance(x, str):
                out.append(x)
            elif isinstance(x, (list, tuple)):
                for y in x:
                    if isinstance(y, str):
                        out.append(y)
                    elif isinstance(y, (list, tuple)):
                        out += [z for z in y[1:] if isinstance(z, str)]
    for o in obs:
        for v in ("columns", "fields", "schema", "pandas", "receiver_after"):
            out += list(o.get(v) or [])
    return out


def env_tables(strings):
    lower, word = {}, set()
    for st in strings:
        for ch in st:
            cp = ord(ch)
            if cp >= 128:
                lo = ch.lower()
                if lo != ch:
                    lower[cp] = [ord(x) for x in lo]
                if re.fullmatch(r"\w", ch):
                    word.add(cp)
    lt = "[" + "; ".join(f"({k}, [{'; '.join(map(str, v))}])" for k, v in sorted(lower.items())) + "]"
    wt = "[" + "; ".join(str(x) for x in sorted(word)) + "]"
    return lt, wt


def obs_coq(o) -> str:
    if o is None or "error" in o:
        return "None"
    recv = o.get("receiver_after", o["columns"])
    return (f"(Some (mkObs {nms(o['columns'])} {nms(o['fields'])} {nms(o['schema'])} {nms(o['pandas'])} {nms(recv)}))")


def case_coq(prog, obs) -> str:
    lt, wt = env_tables(all_strings(prog, obs))
    return (f"(mkCase {lt} {wt} {nms(prog['names'])} {listlit([op_coq(o) for o in prog['ops']])} "
            f"{listlit([obs_coq(o) for o in obs])})")


HEADER = """From SF Require Import C10.Check.
From Gen Require Import C10Facts.
Open Scope N_scope.
Definition check := Check.check gen_cfg.
"""
FLAGS = ["impl_ok", "model_ok", "spec_ok", "m_columns", "m_fields", "m_schema", "m_pandas", "m_receiver",
         "s_columns", "s_fields", "s_schema", "s_pandas", "model_eq_spec"]


def parse_result(r):
    head, _, body = r.partition(";")
    groups = body.split(",") if body else []
    return {"td": head[0] == "1", "tc": head[1] == "1", "cfg_ok": head[2] == "1",
            "steps": [{f: g[i] == "1" for i, f in enumerate(FLAGS)} for g in groups if len(g) == len(FLAGS)]}


# programs that run first on every run (shapes of the listed findings and of the theorems' domain)
CORPUS = [
    {"names": ["AB", "c d", "Xy"], "ops": [("groupAgg", [("str", "AB")], ["N"])]},
    {"names": ["AB", "c d", "Xy"], "ops": [("select", [("str", "`c d`")])]},
    {"names": ["AB", "c d", "Xy"], "ops": [("fillna", None)]},
    {"names": ["AB", "c d", "Xy"], "ops": [("drop", ["xy"])]},
    {"names": ["AB", "c d", "Xy"], "ops": [("toDF", ["Aa", "Bb", "Cc"])]},
    {"names": ["AB", "Xy"], "ops": [("join", ["ab", "Other"], ["Ab"])]},
    {"names": ["AB", "c d"], "ops": [("join", ["C D", "Other"], ["c d"])]},
    {"names": ["C D", "1a"], "ops": []},
    {"names": ["AB", "c d", "Xy"], "ops": [("where", "ab"), ("select", [("str", "ab"), ("str", "XY")])]},
    {"names": ["select", "zz"], "ops": [("orderBy", ["select"])]},
    {"names": ["straße"], "ops": [("select", [("alias", "sTraße", "ДА")]), ("orderBy", ["ДА"])]},
    {"names": ["AB", "Xy"], "ops": [("select", [("col", "ab"), ("col", "AB")])]},
    {"names": ["AB", "Xy"], "ops": [("select", [("col", "`Ab`")])]},
    {"names": ["AB", "c d", "Xy"], "ops": [("dropna",)]},
    {"names": ["AB", "c d", "Xy"], "ops": [("dropDuplicates", ["Ab"])]},
    {"names": ["AB", "c d", "Été"], "ops": [("select", [("col", "`C D`"), ("col", "ab"), ("alias", "éTÉ", "Order")]),
                                               ("withColumn", "ab", "AB"), ("withColumnRenamed", "ORDER", "My Col"),
                                               ("where", "`my col`"), ("orderBy", ["AB"]), ("limit",), ("distinct",)]},
    {"names": ["AB", "Xy"], "ops": [("agg", ["Mx", "c d"])]},
]
