"""C02 case generator (used by checks/c02.py and oracle/record_c02.py) and the shape signature of a deviation."""
from __future__ import annotations

from . import c02_cases as cc

A, B, C, D = ["base", "A"], ["base", "B"], ["base", "C"], ["base", "D"]
DOCUMENTED = ["inner", "cross", "outer", "full", "fullouter", "full_outer", "left", "leftouter", "left_outer",
              "right", "rightouter", "right_outer", "semi", "leftsemi", "left_semi", "anti", "leftanti", "left_anti"]
# spellings outside PySpark's documented list that Spark accepts all the same (JoinType.apply lower-cases and drops "_")
CASE_VARIANTS = ["FULL", "LEFT_SEMI", "RIGHT", "leftOuter", "Inner", "LEFT", "Cross", "LeftAnti", "Full_Outer"]
ONE_PER_KIND = ["inner", "cross", "full_outer", "left", "right", "semi", "anti"]


PROGRAM_SEED = 20261001     # seed of the random chains; oracle/c02_pyspark.jsonl holds PySpark's answers for exactly these programs


def dref(d, n):
    return ["ref", ["df", d, n]]


def nref(n):
    return ["ref", ["name", n]]


def aref(a, n):
    return ["ref", ["alias", a, n]]


def b(op, x, y):
    return ["bin", op, x, y]


def step(right, on, how):
    return {"right": right, "on": on, "how": how}


def names(ks, as_str=False):
    return ["names", list(ks), as_str]


def exprs(es, as_list=False):
    return ["exprs", list(es), as_list]


def case(left, steps, fin=None, data="std", shape="independent"):
    return {"left": left, "steps": steps, "fin": fin, "data": data, "shape": shape}


A2 = ["where", A, b("Gt", nref("v"), ["lit", 10])]          # common ancestor: a filtered copy of A
A3 = ["proj", A, ["k", "s"]]                                  # common ancestor: a projection of A
al_a, al_b = ["alias", A, "a"], ["alias", A, "b"]            # the same DataFrame under two aliases
al_x, al_y = ["alias", A, "p"], ["alias", B, "q"]            # two DataFrames under aliases (names that are no column's name)


# both inputs fork AFTER a filter: the shared ancestor CTE itself carries a WHERE (std data: the filter drops (1,10) and (2,20)
# and keeps (2,21) and (NULL,30) -- key 2 survives, so a right side that lost the filter finds partners)
F20 = ["where", A, b("Gt", nref("v"), ["lit", 20])]
FS = ["proj", F20, ["k", "v", "s"]]                          # select after where, then the fork
FL = ["limit", F20, 10]                                       # limit (above the row count) after where, then the fork
F20w = ["where", F20, b("Neq", nref("s"), ["lit", "zz"])]     # one more (vacuous) step on one side only


def filtered_ancestor(tier):
    out = []
    full = tier != "quick"
    kk = names(["k"], True)
    for fi, f in enumerate((F20, FS, FL)):
        l, r = ["alias", f, "l"], ["alias", f, "r"]
        forms = [kk, names(["k", "v"]), exprs([b("Eq", aref("l", "k"), aref("r", "k"))]),
                 exprs([b("Eq", aref("l", "k"), aref("r", "k")), b("Le", aref("l", "v"), aref("r", "v"))], True)]
        for hi, how in enumerate(ONE_PER_KIND):
            for oi, on in enumerate(forms):
                if not full and (fi > 0 and (oi in (1, 3) or how in ("cross", "anti"))):
                    continue
                out.append(case(l, [step(r, on, how)], None, "std", "filtered-ancestor"))
        # the very same object on both sides, and one side with a further step (the duplicate CTEs then sit deeper)
        for how in ONE_PER_KIND:
            if not full and fi > 0 and how not in ("inner", "left", "full"):
                continue
            out.append(case(f, [step(f, kk, how)], None, "std", "filtered-ancestor"))
    for how in ONE_PER_KIND:
        out.append(case(F20w, [step(F20, kk, how)], None, "std", "filtered-ancestor"))
        out.append(case(F20, [step(F20w, kk, how)], None, "std", "filtered-ancestor"))
        out.append(case(["alias", F20w, "l"], [step(["alias", F20, "r"], exprs([b("Eq", aref("l", "k"), aref("r", "k"))]), how)],
                        ["select", [[aref("l", "v"), "lv"], [aref("r", "v"), "rv"]]] if how not in ("semi", "anti") else None,
                        "std", "filtered-ancestor"))
        d1, d2 = ["proj", F20, ["k", "v"]], ["proj", F20, ["k", "s"]]
        out.append(case(d1, [step(d2, kk, how)], None, "std", "filtered-ancestor"))
        out.append(case(d1, [step(d2, exprs([b("Eq", dref(d1, "k"), dref(d2, "k"))]), how)], None, "std", "filtered-ancestor"))
    # the two copies enter at different joins of a chain; the duplicate is then on the left side of the last join as well
    fl, fr = ["alias", F20, "l"], ["alias", F20, "r"]
    for how in ("inner", "left", "full"):
        out.append(case(C, [step(fl, kk, how), step(fr, exprs([b("Eq", aref("l", "k"), aref("r", "k"))]), how)], None, "std", "filtered-ancestor"))
        out.append(case(fl, [step(C, kk, how), step(fr, exprs([b("Eq", aref("l", "k"), aref("r", "k"))]), how)], None, "std", "filtered-ancestor"))
        out.append(case(C, [step(fl, kk, how), step(fr, kk, how)], None, "std", "filtered-ancestor"))
        out.append(case(fl, [step(fr, kk, how), step(C, kk, how)], ["where", b("Gt", aref("r", "v"), ["lit", 0])] if how == "inner" else None,
                        "std", "filtered-ancestor"))
    return out


# the right operand derives from the left operand's base through an INTERMEDIATE frame with columns of its own
# (SH.k = A.k + 1, SH.w = A.v); the condition names the right column through that intermediate frame, not through the operand
SH = ["sel", A, [[b("Add", nref("k"), ["lit", 1]), "k"], [nref("v"), "w"]]]
BIG = ["where", SH, b("Lt", nref("w"), ["lit", 25])]
BIGL = ["limit", BIG, 10]


def intermediate_frame(tier):
    out = []
    for how in ONE_PER_KIND:
        if how == "cross":
            continue
        for right, through in ((BIG, SH), (BIGL, BIG), (["proj", BIG, ["k", "w"]], BIG)):
            if tier == "quick" and right is not BIG and how not in ("inner", "left", "semi"):
                continue
            out.append(case(A, [step(right, exprs([b("Eq", dref(A, "k"), dref(through, "k"))]), how)], None, "std", "intermediate-frame"))
            out.append(case(A, [step(right, exprs([b("Eq", dref(A, "v"), dref(through, "w"))]), how)], None, "std", "intermediate-frame"))
        out.append(case(A, [step(BIG, exprs([b("Eq", dref(A, "k"), dref(SH, "k")), b("Ge", dref(A, "v"), dref(SH, "w"))], True), how)],
                        None, "std", "intermediate-frame"))
    # the intermediate frame on the LEFT: the left operand is the filtered frame, the condition goes through its parent
    for how in ("inner", "left", "anti"):
        out.append(case(BIG, [step(A, exprs([b("Eq", dref(SH, "k"), dref(A, "k"))]), how)], None, "std", "intermediate-frame"))
    return out


def rename_after_join(tier):
    """withColumnRenamed on a join result with duplicate column names (PySpark renames every column of that name)"""
    out = []
    kk = names(["k"], True)
    e_ab = exprs([b("Eq", dref(A, "k"), dref(B, "k"))])
    for how in ("inner", "left", "full", "cross"):
        for on in ((e_ab, None) if how != "cross" else (None,)):
            for old in ("k", "v", "s"):
                out.append(case(A, [step(B, on, how)], ["rename", old, "z"], "std", "rename-after-join"))
    for how in ("inner", "left"):
        out.append(case(A, [step(B, kk, how)], ["rename", "v", "z"], "std", "rename-after-join"))
        out.append(case(A, [step(B, kk, how)], ["rename", "k", "z"], "std", "rename-after-join"))
        out.append(case(A, [step(B, e_ab, how), step(C, exprs([b("Eq", dref(A, "k"), dref(C, "k"))]), how)], ["rename", "k", "z"], "std", "rename-after-join"))
    out.append(case(al_a, [step(al_b, exprs([b("Eq", aref("a", "k"), aref("b", "k"))]), "inner")], ["rename", "s", "z"], "std", "rename-after-join"))
    return out


def on_forms(l, r, lref, rref):
    """the five ways of giving the condition (a name, a list of names -- of one and of two keys --, an expression,
    a list of expressions, none); lref/rref build a reference to a column of the left/right DataFrame"""
    forms = [("none", None), ("name", names(["k"], True)), ("names1", names(["k"]))]
    if "v" in cc.df_cols(l) and "v" in cc.df_cols(r):
        forms.append(("names2", names(["k", "v"])))
    forms.append(("expr", exprs([b("Eq", lref("k"), rref("k"))])))
    if "v" in cc.df_cols(l) and "v" in cc.df_cols(r):
        forms.append(("exprs", exprs([b("Eq", lref("k"), rref("k")), b("Le", lref("v"), rref("v"))], True)))
    else:
        forms.append(("exprs", exprs([b("Eq", lref("k"), rref("k")), b("Neq", lref("s"), ["lit", "zz"])], True)))
    return forms


def single_joins(tier):
    out = []
    full = tier != "quick"
    pairs = [
        ("independent", A, B, lambda n: dref(A, n), lambda n: dref(B, n), ["std", "emptyR", "emptyL", "nulls"]),
        ("common-ancestor", A, A2, lambda n: dref(A, n), lambda n: dref(A2, n), ["std"]),
        ("common-ancestor", A, A3, lambda n: dref(A, n), lambda n: dref(A3, n), ["nulls"]),
        ("aliased", al_a, al_b, lambda n: aref("a", n), lambda n: aref("b", n), ["std"]),
        ("aliased", al_x, al_y, lambda n: aref("p", n), lambda n: aref("q", n), ["std", "nulls"]),
    ]
    for pi, (shape, l, r, lref, rref, datas) in enumerate(pairs):
        for how in DOCUMENTED + CASE_VARIANTS:
            for fname, on in on_forms(l, r, lref, rref):
                for di, data in enumerate(datas):
                    if how in CASE_VARIANTS and di > 0:
                        continue
                    if not full:
                        # quick tier: the whole spelling x on-form product on the first (independent) pair and first data variant;
                        # elsewhere one spelling per kind on every on-form, and every spelling on the two main on-forms
                        if how in CASE_VARIANTS and pi > 0:
                            continue
                        if pi > 0 and how not in ONE_PER_KIND and fname != "name":
                            continue
                        if di > 0 and (how not in ONE_PER_KIND or fname in ("names1", "exprs")):
                            continue
                    out.append(case(l, [step(r, on, how)], None, data, shape))
    # no colliding column names at all (the only class in which a right join with an expression condition is right)
    for how in DOCUMENTED:
        for oi, on in enumerate((exprs([b("Eq", dref(A, "k"), dref(D, "k2"))]), exprs([b("Eq", nref("k"), nref("k2"))]),
                                 exprs([b("NullSafeEq", dref(A, "k"), dref(D, "k2"))]), None)):
            for data in ("std", "nulls"):
                if not full and how not in ONE_PER_KIND and (oi > 0 or data != "std"):
                    continue
                out.append(case(A, [step(D, on, how)], None, data, "independent"))
    # eqNullSafe and a non-equi condition on the colliding pair
    for how in ONE_PER_KIND:
        for data in ("std", "nulls"):
            out.append(case(A, [step(B, exprs([b("NullSafeEq", dref(A, "k"), dref(B, "k"))]), how)], None, data))
            out.append(case(A, [step(B, exprs([b("Or", b("Eq", dref(A, "k"), dref(B, "k")),
                                                 b("Lt", dref(A, "v"), dref(B, "v")))]), how)], None, data))
    # the left side derives from the right side
    for how in ("inner", "left", "anti"):
        out.append(case(A2, [step(A, exprs([b("Eq", dref(A2, "k"), dref(A, "k"))]), how)], None, "std", "common-ancestor"))
        out.append(case(A2, [step(A, names(["k"], True), how)], None, "std", "common-ancestor"))
    out.append(case(A, [step(A, names(["k"], True), "inner")], None, "std", "common-ancestor"))
    out.append(case(A, [step(A, names(["k", "v"]), "left")], None, "nulls", "common-ancestor"))
    return out


def ref_to(d, nme):
    """a reference to column nme of the chain table d: through its alias if it has one, else through the DataFrame"""
    x = d
    while x[0] != "base":
        if x[0] == "alias":
            return aref(x[2], nme)
        x = x[1]
    return dref(d, nme)


def fins_for(tabs):
    """select / where on either side's columns after a join chain.  tabs: (first, ..., last) visible tables to refer to."""
    first, last = tabs[0], tabs[-1]
    fl = [c for c in cc.df_cols(first) if c != "k"][0]
    ll = [c for c in cc.df_cols(last) if c not in ("k", "k2")][0]
    r = ref_to
    fins = [
        ["select", [[nref("k"), "k"], [r(first, fl), "l_" + fl], [r(last, ll), "r_" + ll]]],
        ["select", [[r(last, ll), ll], [r(first, fl), fl]]],
        ["where", b("Gt", r(last, ll), ["lit", 7 if ll == "u" else (100 if ll == "v" else "p")])],
        ["where", b("Eq", nref("k"), ["lit", 3])],
        ["where", ["isnull", r(last, ll)]],
        ["select", [[b("Add", r(first, "k"), ["lit", 1]), "k1"], [r(last, ll), "c"]]],
    ]
    return fins


def joins_then(tier):
    out = []
    for how in ONE_PER_KIND:
        for shape, l, r, on_e in (("independent", A, B, exprs([b("Eq", dref(A, "k"), dref(B, "k"))])),
                                  ("aliased", al_x, al_y, exprs([b("Eq", aref("p", "k"), aref("q", "k"))])),
                                  ("common-ancestor", A, A2, None)):
            for on in (names(["k"], True), on_e):
                if on is None:
                    continue
                for fi, fin in enumerate(fins_for([l, r])):
                    if tier == "quick" and (fi in (1, 4) or (shape != "independent" and fi == 5)):
                        continue
                    out.append(case(l, [step(r, on, how)], fin, "std", shape))
    return out


def chains(rnd, n, maxlen=3):
    """left-deep chains of 2..3 joins over the pool, optionally followed by select/where on visible tables' columns.
    References through a DataFrame are only made to tables whose base DataFrame occurs once in the chain (PySpark rejects
    or special-cases the others), and never to the right side of a semi/anti join."""
    out = []
    pool = [B, C, D, A2, al_y]
    hows = DOCUMENTED
    for _ in range(n):
        left = rnd.choice([A, A, A, al_x])
        tabs = [left]
        visible = [left]
        steps = []
        cols_now = list(cc.df_cols(left))           # names visible by name (rough; only used to pick plausible keys)
        for _s in range(rnd.randint(2, maxlen)):
            r = rnd.choice([t for t in pool if cc.key(t) not in {cc.key(x) for x in tabs}])
            rc = cc.df_cols(r)
            how = rnd.choice(hows if rnd.random() < 0.6 else ["inner", "left", "left_outer", "inner", "semi", "full", "right"])
            bases = [cc.df_base(t) for t in tabs + [r]]

            def refable(t):
                return t[0] == "alias" or bases.count(cc.df_base(t)) == 1
            forms = []
            if "k" in rc and "k" in cols_now:
                forms += [names(["k"], rnd.random() < 0.5)] * 3
            cands = [t for t in visible if refable(t)]
            if cands and refable(r):
                lt = rnd.choice(cands)
                lk = "k2" if "k2" in cc.df_cols(lt) else "k"
                rk = "k2" if "k2" in rc else "k"
                forms += [exprs([b(rnd.choice(["Eq", "Eq", "Eq", "NullSafeEq"]), ref_to(lt, lk), ref_to(r, rk))])] * 2
            if rnd.random() < 0.15 or not forms:
                forms += [None]
            on = rnd.choice(forms)
            steps.append(step(r, on, how))
            tabs.append(r)
            if cc.kind_of(how) not in ("semi", "anti"):
                visible.append(r)
                cols_now += [c for c in rc if not (on and on[0] == "names" and c in on[1])]
        fin = None
        bases = [cc.df_base(t) for t in tabs]
        vis_ref = [t for t in visible if t[0] == "alias" or bases.count(cc.df_base(t)) == 1]
        if rnd.random() < 0.5 and vis_ref:
            fin = rnd.choice(fins_for([vis_ref[0], vis_ref[-1]]))
        out.append(case(left, steps, fin, rnd.choice(["std", "std", "nulls"]), "chain"))
    return out


def corpus():
    kk = names(["k"], True)
    return [
        case(A, [step(B, kk, "inner"), step(C, kk, "left")], None, "std", "chain"),
        case(A, [step(B, kk, "left"), step(C, kk, "left"), step(D, exprs([b("Eq", dref(C, "k"), dref(D, "k2"))]), "left")], None, "std", "chain"),
        case(A, [step(B, kk, "full"), step(C, kk, "full")], None, "std", "chain"),
        case(A, [step(B, kk, "left"), step(C, kk, "right")], None, "std", "chain"),
        case(A, [step(B, kk, "right"), step(C, kk, "inner")], None, "std", "chain"),
        case(A, [step(B, kk, "left"), step(C, exprs([b("Eq", dref(A, "k"), dref(C, "k"))]), "left")], None, "std", "chain"),
        case(A, [step(B, exprs([b("Eq", dref(A, "k"), dref(B, "k"))]), "left"),
                 step(C, exprs([b("Eq", dref(B, "k"), dref(C, "k"))]), "left")],
             ["select", [[dref(A, "v"), "v"], [dref(B, "v"), "v"], [dref(C, "u"), "u"]]], "std", "chain"),
        case(A, [step(B, kk, "semi"), step(C, kk, "left")], None, "std", "chain"),
        case(A, [step(B, kk, "anti"), step(C, kk, "inner")], None, "nulls", "chain"),
        case(A, [step(B, kk, "full")], ["select", [[nref("k"), "k"], [nref("s"), "s"], [nref("w"), "w"]]], "std"),
        case(A, [step(B, kk, "full")], ["where", b("Eq", nref("k"), ["lit", 3])], "std"),
        case(A, [step(B, kk, "left")], ["where", b("Gt", dref(B, "v"), ["lit", 100])], "std"),
        # a name join when the left side already has two columns named like the key
        case(A, [step(C, exprs([b("Eq", dref(A, "k"), dref(C, "k"))]), "inner"), step(B, kk, "inner")], None, "std", "chain"),
        case(A, [step(C, exprs([b("Eq", dref(A, "k"), dref(C, "k"))]), "left"), step(B, kk, "left")], None, "nulls", "chain"),
        # a join after a semi/anti join whose hidden right side shares a column name with the new table
        case(A, [step(B, kk, "anti"), step(al_y, kk, "left")], None, "std", "chain"),
        case(A, [step(B, exprs([b("Eq", dref(A, "k"), dref(B, "k"))]), "semi"), step(C, kk, "left")], None, "std", "chain"),
        case(A, [step(C, kk, "semi"), step(B, exprs([b("Eq", dref(A, "k"), dref(B, "k"))]), "inner")], None, "std", "chain"),
    ]


def gen_cases(rnd, tier, n_chains=None):
    cs = (corpus() + single_joins(tier) + joins_then(tier) + chains(rnd, n_chains or (100 if tier == "quick" else 2500))
          + filtered_ancestor(tier) + intermediate_frame(tier) + rename_after_join(tier))
    seen, out = set(), []
    for c in cs:
        k = cc.key({x: c[x] for x in ("left", "steps", "fin", "data")})
        if k not in seen:
            seen.add(k)
            out.append(c)
    return out


# ---- shape signature of a deviation (matched against findings/C02.known.json) --------------------------------------

def features(case):
    f = {}
    steps = case["steps"]
    kinds = [cc.kind_of(s["how"]) for s in steps]
    f["kinds"] = kinds
    f["undocumented"] = [s["how"] for s in steps if s["how"] not in DOCUMENTED]
    f["on_none_non_inner"] = [i for i, s in enumerate(steps) if s["on"] is None and kinds[i] not in ("inner", "cross")]
    f["forms"] = ["none" if s["on"] is None else s["on"][0] for s in steps]
    return f


def collisions(case, i):
    """names (other than name-join keys) that the right table of step i shares with a table before it"""
    tabs = [case["left"]] + [s["right"] for s in case["steps"]]
    before = set()
    for t in tabs[: i + 1]:
        before |= set(cc.df_cols(t))
    on = case["steps"][i]["on"]
    keys = set(on[1]) if on and on[0] == "names" else set()
    return (set(cc.df_cols(tabs[i + 1])) & before) - keys


def fin_exprs(fin):
    if fin is None or fin[0] == "rename":
        return []
    return [fin[1]] if fin[0] == "where" else [x for x, _ in fin[1]]


def spark_names(case):
    """per step: the column names of the left side as PySpark has them just before the step (a USING join drops only the
    joined key pair), and the tables hidden so far by semi/anti joins"""
    out = list(cc.df_cols(case["left"]))
    hidden = []
    res = []
    for s in case["steps"]:
        res.append((list(out), list(hidden)))
        k = cc.kind_of(s["how"]) or "inner"
        rc = list(cc.df_cols(s["right"]))
        on = s["on"]
        if on and on[0] == "names":
            keys = list(on[1])
            rest = list(out)
            for key in keys:
                if key in rest:
                    rest.remove(key)
            rrest = [c for c in rc if c not in keys]
            out = keys + rest + ([] if k in ("semi", "anti") else rrest)
        else:
            out = out + ([] if k in ("semi", "anti") else rc)
        if k in ("semi", "anti"):
            hidden.append(s["right"])
    res.append((list(out), list(hidden)))
    return res


def content_key(d):
    """description of the CTE chain of a DataFrame; alias names do not enter the CTE's text"""
    if d[0] == "base":
        return d[1]
    if d[0] == "alias":
        return "alias(" + content_key(d[1]) + ")"
    return d[0] + "(" + content_key(d[1]) + "," + cc.key(d[2]) + ")"


def signature(case, raised):
    f = features(case)
    steps, kinds = case["steps"], f["kinds"]
    # the right DataFrame has the same CTE text (hence name) as a table already in the join, and more than one of its CTEs
    # collides: join() then keeps using the name the right table had BEFORE it was renamed
    tabs_ = [case["left"]] + [s["right"] for s in steps]
    for i, s in enumerate(steps):
        if i >= 1 and s["on"] and s["on"][0] == "names" and tabs_[i + 1][0] != "base" \
                and content_key(tabs_[i + 1]) in [content_key(t) for t in tabs_[1:i + 1]]:
            return "C02/common-ancestor/name-join-uses-stale-name-of-renamed-duplicate-cte"
    fin = case.get("fin")
    sn = spark_names(case)
    # a name join whose left side has two columns named like the key: every one of them is dropped
    for i, s in enumerate(steps):
        if s["on"] and s["on"][0] == "names" and any(sn[i][0].count(k) > 1 for k in s["on"][1]):
            return "C02/name-join/left-side-has-two-columns-named-like-the-key"
    # chains: a key column of an earlier FULL/RIGHT name join referred to by name later on
    for i, s in enumerate(steps):
        if s["on"] and s["on"][0] == "names" and kinds[i] in ("full", "right"):
            ks = set(s["on"][1])
            later = False
            for s2 in steps[i + 1:]:
                if s2["on"] and s2["on"][0] == "names" and ks & set(s2["on"][1]):
                    later = True
            if later:
                return f"C02/chain/name-join-on-key-of-earlier-{kinds[i]}-name-join"
            if kinds[i] == "full" and i + 1 < len(steps):
                return "C02/chain/join-after-full-outer-name-join-rebuilds-key-from-left-table"
            if kinds[i] == "full" and fin is not None:
                bare = [r[1] for e in fin_exprs(fin)
                        for r in cc.refs_of(e) if r[0] == "name"]
                if ks & set(bare):
                    return "C02/full-outer-name-join/key-referenced-by-name-afterwards"
    for i, s in enumerate(steps):
        if kinds[i] == "right" and i > 0:
            return "C02/right-join-not-first-in-chain"
    if kinds and kinds[0] == "right":
        form = "name-join" if (steps[0]["on"] and steps[0]["on"][0] == "names") else "expr-join"
        if collisions(case, 0) or len(steps) > 1:
            return f"C02/right-join-column-order/{form}" + ("" if len(steps) == 1 else "/chain")
    # the hidden right side of an earlier semi/anti join still takes part in the position-based resolution
    for i, s in enumerate(steps):
        if kinds[i] in ("semi", "anti"):
            continue
        keys = set(s["on"][1]) if s["on"] and s["on"][0] == "names" else set()
        for h in sn[i][1]:
            if (set(cc.df_cols(s["right"])) - keys) & set(cc.df_cols(h)):
                return "C02/chain/join-after-semi-anti/hidden-table-takes-part-in-resolution"
    # a column dropped by a name join shifts the position-based resolution of a later table's same-named column
    for i, s in enumerate(steps):
        if i > 0 and collisions(case, i):
            for j in range(i):
                sj = steps[j]
                if sj["on"] and sj["on"][0] == "names" and set(sj["on"][1]) & collisions(case, i):
                    return "C02/chain/column-dropped-by-name-join-shifts-later-resolution"
    # normalize.py: when the first two tables of the join share a branch id, EVERY reference through a DataFrame goes to the
    # first table -- also a reference to a third DataFrame (or an AssertionError once there are three tables)
    if len(steps) >= 2 and cc.df_base(case["left"]) == cc.df_base(steps[0]["right"]):
        later_refs = [r for s2 in steps[1:] if s2["on"] and s2["on"][0] == "exprs" for e in s2["on"][1] for r in cc.refs_of(e)]
        if fin is not None:
            later_refs += [r for e in fin_exprs(fin) for r in cc.refs_of(e)]
        if any(r[0] == "df" for r in later_refs):
            return "C02/common-ancestor/reference-through-dataframe-in-longer-chain"
    if case.get("shape") == "common-ancestor" and steps and steps[0]["on"] and steps[0]["on"][0] == "exprs":
        tabs = [case["left"], steps[0]["right"]]
        if tabs[0][0] != "base" and tabs[1][0] == "base":
            return "C02/common-ancestor/left-side-derived-from-right-side"
    if f["on_none_non_inner"]:
        # none of the shapes above: the missing condition itself is what goes wrong
        k = kinds[f["on_none_non_inner"][0]]
        return "C02/on-none/" + ("semi-anti-becomes-cross-product" if k in ("semi", "anti") else "outer-becomes-cross-product")
    if f["undocumented"]:
        # none of the kind-specific shapes: the spelling itself (upper case / camel case) is what goes wrong
        return "C02/how-spelling-compared-case-sensitively"
    return ("C02/raises:" if raised else "C02/differs:") + case.get("shape", "?") + ":" + ">".join(
        f"{k}/{fm}" for k, fm in zip(kinds, f["forms"])) + (":" + fin[0] if fin else "")
