"""C14 -- writes to tables and files round-trip, honour save modes, and fail atomically (DuckDBSession).

T1  translate/c14_facts.py -> Gen/C14Facts.v   saveAsTable's mode->statement, _validate_mode, DuckDB _write, the mode the
                                               csv/json/parquet methods hand on, schema-cache policy, byName's column source
Prf coq/props/C14.v        cfg_ok gen_cfg (vm_compute) + C14_partial_modes (all histories of the decidable domain hist_ok),
                           C14_catalog_holds, C14_partial_faults (+ table targets / atomic-statement corollaries),
                           round-trip theorems, 8 refutations of C14_full on the faithful model
T3  histories (bounded-exhaustive mode pairs x targets x how the mode is given, random histories <= 5 writes x 2 tables x
    2 paths, fault injection with frames whose SELECT raises on row k) run on the real DuckDBSession: outcome of every call,
    session.table / session.read.<fmt> (columns, types, rows), catalog API, and after EVERY step a direct SELECT of all tables
    on the raw connection + existence of every path;  Coq (vm_compute) compares each step with the model (exactly) and
    with the spec.  The spec is validated against a PySpark 3.5.9 recording (oracle/c14_pyspark.jsonl).
"""
from __future__ import annotations

import json
import os
import random
import re
import shutil
import time

from vlib import core
from vlib.core import strlit, listlit, zlit, boollit, optlit
from translate import c14_facts

HEADER = """From SF Require Import Base.Val C14.Writer C14.Views C14.Builder C14.WriterCheck.
From Gen Require Import C14Facts.
Open Scope string_scope.
Definition check := WriterCheck.check gen_cfg gen_bcfg.
"""
HEADER_SPEC = """From SF Require Import Base.Val C14.Writer C14.WriterCheck.
Open Scope string_scope.
Definition check := WriterCheck.check_spec.
"""

MODES = [None, "error", "errorifexists", "ignore", "overwrite", "append"]
FMTS = ["csv", "json", "parquet"]
TY_SQL = {"int": "bigint", "str": "string", "bool": "boolean"}
TY_COQ = {"int": "TInt", "str": "TStr", "bool": "TBool", "other": "TOther"}
FMT_COQ = {"csv": "FCsv", "json": "FJson", "parquet": "FParquet"}

SIG_WMODE = "C14/path-write-ignores-writer-mode"
SIG_PAPPEND = "C14/path-append-raises-NotImplementedError"
SIG_APPEND_ABSENT = "C14/saveAsTable-append-absent-table-raises"
SIG_APPEND_POS = "C14/saveAsTable-append-is-positional"
SIG_BYNAME_UNCACHED = "C14/byName-uncached-table-is-positional"
SIG_BYNAME_STALE = "C14/byName-stale-schema-cache"
SIG_STALE = "C14/table-read-stale-schema-cache"
SIG_PARTIAL = "C14/failed-copy-to-new-path-leaves-partial-file"
SIG_TEMPVIEWS = "C14/listTables-of-schema-shows-internal-temp-views"


# ---- frames -----------------------------------------------------------------------------------------------
# frame = {"cols": [[name, ty]...], "rows": [[v...]...], "bad": None | k}   (bad: the SELECT raises on row k)

def frame(cols, rows, bad=None):
    return {"cols": [list(c) for c in cols], "rows": [list(r) for r in rows], "bad": bad}


def val_coq(v) -> str:
    if v is None:
        return "VNull"
    if isinstance(v, bool):
        return f"(VBool {boollit(v)})"
    if isinstance(v, int):
        return f"(VInt {zlit(v)})"
    if isinstance(v, str):
        try:
            return f"(VStr {strlit(v)})"
        except ValueError:
            return f"(VStr {strlit('?non-ascii:' + ascii(v)[1:-1].replace(chr(92), '/'))})"
    return f"(VStr {strlit('?' + type(v).__name__ + ':' + ascii(str(v))[1:-1][:40].replace(chr(92), '/'))})"


def tbl_coq(cols, rows) -> str:
    cs = listlit([f"({strlit(n)}, {TY_COQ[t]})" for n, t in cols])
    rs = listlit([listlit([val_coq(v) for v in r]) for r in rows])
    return f"(mkTbl {cs} {rs})"


def df_coq(fr) -> str:
    if fr["bad"] is None:
        return f"(DGood {tbl_coq(fr['cols'], fr['rows'])})"
    return f"(DBad {tbl_coq(fr['cols'], fr['rows'][:fr['bad']])})"


def mode_coq(m) -> str:
    return optlit(None if m is None else strlit(m))


# ---- operations ---------------------------------------------------------------------------------------------
# ["save", n, arg, self, frame] ["insert", n, by_name, frame] ["wpath", key, fmt, arg, self, frame]
# ["rtable", n] ["rpath", key, fmt] ["drop", n] ["exists", n] ["list"] ["cols", n] ["get", n]

def op_coq(o) -> str:
    k = o[0]
    if k == "save":
        return f"(OpSave {strlit(o[1])} {mode_coq(o[2])} {mode_coq(o[3])} {df_coq(o[4])})"
    if k == "insert":
        return f"(OpInsert {strlit(o[1])} {boollit(o[2])} {df_coq(o[3])})"
    if k == "wpath":
        return f"(OpWrite {strlit(o[1])} {FMT_COQ[o[2]]} {mode_coq(o[3])} {mode_coq(o[4])} {df_coq(o[5])})"
    if k == "rtable":
        return f"(OpReadTable {strlit(o[1])})"
    if k == "rpath":
        return f"(OpReadPath {strlit(o[1])} {FMT_COQ[o[2]]})"
    if k == "drop":
        return f"(OpDrop {strlit(o[1])})"
    if k == "exists":
        return f"(OpExists {strlit(o[1])})"
    if k == "list":
        return "OpList"
    if k == "cols":
        return f"(OpCols {strlit(o[1])})"
    if k == "get":
        return f"(OpGet {strlit(o[1])})"
    raise ValueError(o)


def xop_coq(o) -> str:
    """operation of the layer with temporary views / guarded saves / same-named tables in another schema (C14/Views.v)"""
    k = o[0]
    if k == "tempview":
        assert o[2]["bad"] is None
        return f"(XTempView {strlit(o[1])} {tbl_coq(o[2]['cols'], o[2]['rows'])})"
    if k == "gsave":
        return f"(XGuardedSave {strlit(o[1])} {df_coq(o[2])})"
    if k == "foreign":
        return f"(XForeign {strlit(o[1])})"
    return f"(XOp {op_coq(o)})"


def calls_coq(calls) -> str:
    out = []
    for c in calls:
        if c == "byName":
            out.append("BByName")
        elif c[0] == "mode":
            out.append(f"(BMode {mode_coq(c[1])})")
        elif c[0] == "format":
            out.append(f"(BFormat {strlit(c[1])})")
        else:
            raise ValueError(c)
    return listlit(out)


def calls_str(calls) -> str:
    return "".join(".byName" if c == "byName" else f".{c[0]}({c[1]!r})" for c in calls)


def yop_coq(o) -> str:
    """writes built by a sequence of builder calls (C14/Builder.v):
    ["binsert", calls, n, frame]  ["bsave", calls, n, arg, frame]  ["bwpath", calls, key, fmt, arg, frame]"""
    k = o[0]
    if k == "binsert":
        return f"(YInsert {calls_coq(o[1])} {strlit(o[2])} {df_coq(o[3])})"
    if k == "bsave":
        return f"(YSave {calls_coq(o[1])} {strlit(o[2])} {mode_coq(o[3])} {df_coq(o[4])})"
    if k == "bwpath":
        return f"(YWrite {calls_coq(o[1])} {strlit(o[2])} {FMT_COQ[o[3]]} {mode_coq(o[4])} {df_coq(o[5])})"
    return f"(YOp {xop_coq(o)})"


def xcase_coq(ops, obs, snaps) -> str:
    return (f"(mkYCase {listlit([yop_coq(o) for o in ops])} {listlit([obs_coq(x) for x in obs])} "
            f"{listlit([snap_coq(s) for s in snaps])})")


def op_str(o) -> str:
    k = o[0]

    def fr(f):
        s = ",".join(f"{n}:{t}" for n, t in f["cols"]) + f" x{len(f['rows'])}"
        return f"<{s}{'' if f['bad'] is None else ' RAISES@row' + str(f['bad'])}>"

    def w(selfm):
        return "df.write" + ("" if selfm is None else f".mode({selfm!r})")
    if k == "save":
        return f"{w(o[3])}.saveAsTable({o[1]!r}{'' if o[2] is None else ', mode=' + repr(o[2])})  df={fr(o[4])}"
    if k == "gsave":
        return f"if not catalog.tableExists({o[1]!r}): df.write.saveAsTable({o[1]!r})  df={fr(o[2])}"
    if k == "tempview":
        return f"df.createOrReplaceTempView({o[1]!r})  df={fr(o[2])}"
    if k == "binsert":
        return f"df.write{calls_str(o[1])}.insertInto({o[2]!r})  df={fr(o[3])}"
    if k == "bsave":
        return f"df.write{calls_str(o[1])}.saveAsTable({o[2]!r}{'' if o[3] is None else ', mode=' + repr(o[3])})  df={fr(o[4])}"
    if k == "bwpath":
        return f"df.write{calls_str(o[1])}.{o[3]}(<{o[2]}>{'' if o[4] is None else ', mode=' + repr(o[4])})  df={fr(o[5])}"
    if k == "foreign":
        return f"conn.execute('CREATE SCHEMA IF NOT EXISTS staging; CREATE OR REPLACE TABLE staging.{o[1]} ...')  rows={fr(o[2])}"
    if k == "insert":
        return f"df.write{'.byName' if o[2] else ''}.insertInto({o[1]!r})  df={fr(o[3])}"
    if k == "wpath":
        return f"{w(o[4])}.{o[2]}(<{o[1]}>{'' if o[3] is None else ', mode=' + repr(o[3])})  df={fr(o[5])}"
    if k == "rtable":
        return f"session.table({o[1]!r})"
    if k == "rpath":
        return f"{'r' if len(o) > 3 else 'session.read'}.{o[2]}(<{o[1]}>)" + ("   # r = session.read, kept for the whole history" if len(o) > 3 else "")
    if k == "drop":
        return f"conn.execute('DROP TABLE {o[1]}')"
    if k == "list":
        return "catalog.listTables(" + ", ".join(repr(a) for a in LIST_ARGS[o[1] if len(o) > 1 else "plain"]) + ")"
    args = cat_args(o[1], o[2] if len(o) > 2 else "plain")
    return f"catalog.{ {'exists': 'tableExists', 'cols': 'listColumns', 'get': 'getTable'}[k]}({', '.join(map(repr, args))})"


LIST_ARGS = {"plain": (), "db": ("main",), "full": ("memory.main",)}


def cat_args(n, variant):
    """spellings under which the catalog API must find the same table (DuckDB: catalog memory, schema main)"""
    return {"plain": (n,), "upper": (n.upper(),), "db": ("main." + n,), "dbarg": (n, "main"),
            "full": ("memory.main." + n,), "fullarg": (n, "memory.main"), "dbupper": ("MAIN." + n.upper(),)}[variant]


def obs_coq(ob) -> str:
    k = ob[0]
    if k == "ok":
        return "OOk"
    if k == "err":
        return f"(OErr {ob[1]})"
    if k == "rows":
        return f"(ORows {tbl_coq(ob[1], ob[2])})"
    if k == "bool":
        return f"(OBool {boollit(ob[1])})"
    if k == "names":
        return "(ONames " + listlit([strlit(n) for n in ob[1]]) + ")"
    if k == "cols":
        return "(OCols " + listlit([f"({strlit(n)}, {TY_COQ[t]})" for n, t in ob[1]]) + ")"
    raise ValueError(ob)


def snap_coq(sn) -> str:
    tabs = listlit([f"({strlit(n)}, {tbl_coq(c, r)})" for n, (c, r) in sorted(sn["tabs"].items())])
    fs = listlit([f"({strlit(p)}, {boollit(e)})" for p, e in sorted(sn["files"].items())])
    cat = listlit([f"({strlit(n)}, ({boollit(ex)}, " + listlit([f"({strlit(c)}, {TY_COQ[t]})" for c, t in cols])
                   + f", {boollit(got)}))" for n, (ex, cols, got) in sorted(sn.get("cat", {}).items())])
    listed = listlit([strlit(n) for n in sn.get("listed", [n for n in sn["tabs"]])])
    return f"(mkSnap {tabs} {fs} {cat} {listed})"


def case_coq(ops, obs, snaps) -> str:
    return (f"(mkCase {listlit([op_coq(o) for o in ops])} {listlit([obs_coq(x) for x in obs])} "
            f"{listlit([snap_coq(s) for s in snaps])})")


# ---- running a history on the implementation -------------------------------------------------------------------

def ty_of_engine(s: str) -> str:
    s = s.upper()
    if s in ("BIGINT", "LONG", "INT64"):
        return "int"
    if s in ("VARCHAR", "STRING", "TEXT"):
        return "str"
    if s in ("BOOLEAN", "BOOL"):
        return "bool"
    return "other"


def classify_write_error(ex) -> str:
    name, msg = type(ex).__name__, str(ex)
    if name == "FileExistsError" or "already exists" in msg:
        return "EExists"
    if name == "NotImplementedError":
        return "ENotImpl"
    if name == "CatalogException" and "does not exist" in msg:
        return "EMissing"
    return "EFailed"


class Impl:
    """one fresh DuckDBSession on a fresh in-memory connection per history"""

    def __init__(self, scratch: str):
        import duckdb
        from sqlframe.base.session import _BaseSession
        from sqlframe.duckdb import DuckDBSession
        import sqlframe.duckdb.functions as F
        _BaseSession._instance = None          # the session is a process-wide singleton; histories must not leak
        self.conn = duckdb.connect()
        self.s = DuckDBSession(conn=self.conn)
        assert self.s._conn is self.conn
        self.F = F
        self.scratch = scratch
        os.makedirs(scratch, exist_ok=True)
        self.paths: dict[str, str] = {}
        self.names: list[str] = []
        self.exc: list = []
        self.notes: list = []
        self.nstep = 0
        self.reader = None

    def close(self):
        try:
            self.conn.close()
        finally:
            shutil.rmtree(self.scratch, ignore_errors=True)

    def path(self, key, fmt):
        self.paths.setdefault(key, os.path.join(self.scratch, f"{key}.{fmt}"))
        return self.paths[key]

    def df(self, fr):
        F = self.F
        cols = fr["cols"]
        schema = ", ".join(f"{n} {TY_SQL[t]}" for n, t in cols)
        if fr["bad"] is None:
            return self.s.createDataFrame([tuple(r) for r in fr["rows"]], schema)
        k = fr["bad"]
        rows = [tuple(r) + ("boom" if i == k else "0",) for i, r in enumerate(fr["rows"])]
        d = self.s.createDataFrame(rows, schema + ", zz string")
        # every column carries the tripwire: whichever columns a by-name re-projection keeps, the SELECT raises on row k
        trip = [F.when(F.col("zz").cast("bigint") == 0, F.col(n)).otherwise(F.col(n)).alias(n) for n, _ in cols]
        return d.select(*trip)

    def read_obs(self, df):
        cols = [(f.name, ty_of_engine(f.dataType.simpleString())) for f in df.schema.fields]
        rows = [list(r) for r in df.collect()]
        return ["rows", [list(c) for c in cols], rows]

    def step(self, o):
        k = o[0]
        try:
            if k in ("save", "insert", "wpath", "gsave", "binsert", "bsave", "bwpath"):
                fr = o[-1]
                w = self.df(fr).write
                try:
                    if k in ("binsert", "bsave", "bwpath"):
                        for c in o[1]:          # the builder calls, in the order given
                            w = w.byName if c == "byName" else getattr(w, c[0])(c[1])
                        if k == "binsert":
                            w.insertInto(o[2])
                        elif k == "bsave":
                            w.saveAsTable(o[2]) if o[3] is None else w.saveAsTable(o[2], mode=o[3])
                        else:
                            p = self.path(o[2], o[3])
                            getattr(w, o[3])(p) if o[4] is None else getattr(w, o[3])(p, mode=o[4])
                    elif k == "gsave":
                        if not self.s.catalog.tableExists(o[1]):
                            w.saveAsTable(o[1])
                    elif k == "save":
                        if o[3] is not None:
                            w = w.mode(o[3])
                        w.saveAsTable(o[1]) if o[2] is None else w.saveAsTable(o[1], mode=o[2])
                    elif k == "insert":
                        (w.byName if o[2] else w).insertInto(o[1])
                    else:
                        if o[4] is not None:
                            w = w.mode(o[4])
                        p = self.path(o[1], o[2])
                        getattr(w, o[2])(p) if o[3] is None else getattr(w, o[2])(p, mode=o[3])
                    return ["ok"]
                except Exception as ex:  # noqa: BLE001 -- the outcome class is the observation
                    self.exc.append(f"{type(ex).__name__}: {str(ex)[:160]}")
                    return ["err", classify_write_error(ex)]
            if k == "tempview":
                self.df(o[2]).createOrReplaceTempView(o[1])
                return ["ok"]
            if k == "foreign":
                # a table of the same NAME in another schema, made behind the session's back
                fr = o[2]
                ddl = ", ".join(f'"{n}" {TY_SQL[t].replace("string", "varchar")}' for n, t in fr["cols"])
                self.conn.execute("CREATE SCHEMA IF NOT EXISTS staging")
                self.conn.execute(f'CREATE OR REPLACE TABLE staging."{o[1]}" ({ddl})')
                for r in fr["rows"]:
                    self.conn.execute(f'INSERT INTO staging."{o[1]}" VALUES ({", ".join("?" for _ in r)})', list(r))
                return ["ok"]
            if k == "rtable":
                try:
                    return self.read_obs(self.s.table(o[1]))
                except Exception as ex:  # noqa: BLE001
                    self.exc.append(f"{type(ex).__name__}: {str(ex)[:160]}")
                    return ["err", "EMissing"]
            if k == "rpath":
                try:
                    if len(o) > 3:          # one reader object kept and re-used for every such read of the history
                        if self.reader is None:
                            self.reader = self.s.read
                        rd = self.reader
                    else:
                        rd = self.s.read
                    return self.read_obs(getattr(rd, o[2])(self.path(o[1], o[2])))
                except Exception as ex:  # noqa: BLE001
                    self.exc.append(f"{type(ex).__name__}: {str(ex)[:160]}")
                    return ["err", "EMissing" if not os.path.exists(self.path(o[1], o[2])) else "EFailed"]
            if k == "drop":
                try:
                    self.conn.execute(f'DROP TABLE "{o[1]}"')
                    return ["ok"]
                except Exception as ex:  # noqa: BLE001
                    self.exc.append(f"{type(ex).__name__}: {str(ex)[:160]}")
                    return ["err", "EMissing"]
            cat = self.s.catalog
            var = (o[2] if len(o) > 2 else "plain") if k != "list" else (o[1] if len(o) > 1 else "plain")
            if k == "exists":
                return ["bool", bool(cat.tableExists(*cat_args(o[1], var)))]
            if k == "list":
                names = [t.name for t in cat.listTables(*LIST_ARGS[var])]
                # df.schema / printSchema create TEMPORARY VIEWs r<uuid4> (catalog temp) and never drop them; the Coq model has
                # no notion of them: they are split off here and reported by the harness itself (SIG_TEMPVIEWS)
                internal = [n for n in names if re.fullmatch(r"r[0-9a-f]{32}", n)]
                if internal:
                    self.notes.append({"step": self.nstep, "call": op_str(o), "internal_views_listed": len(internal),
                                       "example": internal[0]})
                return ["names", [n for n in names if n not in internal]]
            if k == "cols":
                return ["cols", [[c.name, ty_of_engine(c.dataType)] for c in cat.listColumns(*cat_args(o[1], var))]]
            if k == "get":
                try:
                    t = cat.getTable(*cat_args(o[1], var))
                    return ["ok"] if t.name == o[1] else ["err", "EFailed"]
                except ValueError:
                    return ["err", "EMissing"]
        except Exception as ex:  # noqa: BLE001 -- anything unexpected (frame construction, catalog call) is an outcome too
            self.exc.append(f"UNEXPECTED {type(ex).__name__}: {str(ex)[:200]}")
            return ["err", "EFailed"]
        raise ValueError(o)

    def snapshot(self):
        """direct reads: every table of the connection (columns, types, rows) and which paths exist"""
        tabs = {}
        names = [r[0] for r in self.conn.execute(
            "select table_name from information_schema.tables where table_schema = 'main' "
            "and table_catalog = current_database() order by 1").fetchall()]   # (df.schema leaves temp views in catalog temp)
        for n in names:
            cols = [[r[0], ty_of_engine(r[1])] for r in self.conn.execute(f'describe "{n}"').fetchall()]
            rows = [list(r) for r in self.conn.execute(f'select * from "{n}"').fetchall()]
            tabs[n] = (cols, rows)
        snap = {"tabs": tabs, "files": {k: os.path.exists(p) for k, p in self.paths.items()}}
        # ... and what the catalog API answers at this moment, for every table name of the history (plain spelling)
        cat = self.s.catalog
        answers = {}
        for n in self.names:
            try:
                ex = bool(cat.tableExists(n))
            except Exception as e:  # noqa: BLE001
                self.exc.append(f"tableExists({n!r}): {type(e).__name__}: {str(e)[:120]}")
                ex = None
            try:
                cols = [[c.name, ty_of_engine(c.dataType)] for c in cat.listColumns(n)]
            except Exception as e:  # noqa: BLE001
                self.exc.append(f"listColumns({n!r}): {type(e).__name__}: {str(e)[:120]}")
                cols = [["?error", "other"]]
            try:
                got = cat.getTable(n).name == n
            except ValueError:
                got = False
            except Exception as e:  # noqa: BLE001
                self.exc.append(f"getTable({n!r}): {type(e).__name__}: {str(e)[:120]}")
                got = None
            if ex is None or got is None:
                cols = [["?error", "other"]]      # an unexpected exception never matches the model
            answers[n] = (bool(ex), cols, bool(got))
        try:
            listed = [t.name for t in cat.listTables()]
        except Exception as e:  # noqa: BLE001
            self.exc.append(f"listTables(): {type(e).__name__}: {str(e)[:120]}")
            listed = ["?error"]
        snap["cat"] = answers
        snap["listed"] = listed
        return snap


def run_history(ops, scratch):
    im = Impl(scratch)
    try:
        for o in ops:                      # register every path of the history first: snapshots report all of them
            if o[0] in ("wpath", "rpath"):
                im.path(o[1], o[2])
            elif o[0] == "bwpath":
                im.path(o[2], o[3])
            elif o[0] in ("binsert", "bsave"):
                if o[2] not in im.names:
                    im.names.append(o[2])
            elif o[0] != "list" and o[1] not in im.names:
                im.names.append(o[1])
        obs, snaps = [], []
        for i, o in enumerate(ops):
            im.nstep = i
            obs.append(im.step(o))
            snaps.append(im.snapshot())
        return obs, snaps, im.exc, im.notes
    finally:
        im.close()


def run_many(batch, scratch):
    """worker entry (process pool): [(index, ops)] -> {index: (obs, snaps, exceptions)}"""
    import logging
    logging.getLogger("sqlframe").setLevel(logging.ERROR)
    return {idx: run_history(ops, os.path.join(scratch, f"h{idx}")) for idx, ops in batch}


# ---- generators ------------------------------------------------------------------------------------------------

INTS = [0, 1, -1, 7, 42, 2 ** 40, None]
STRS_TABLE = ["x", "kx", "", "It's", "a,b", 'q"z', "NULL", "true", "12", " pad ", None]
STRS_FILE = ["kx", "px1", "w", "zebra9", None]
BOOLS = [True, False, None]
SCHEMAS = [
    [("a", "int"), ("s", "str")],
    [("s", "str"), ("a", "int")],
    [("a", "int"), ("b", "int")],
    [("b", "int"), ("a", "int")],
    [("a", "int"), ("s", "str"), ("f", "bool")],
    [("f", "bool"), ("a", "int"), ("s", "str")],
    [("c", "bool")],
    [("a", "int")],
]


def gen_rows(rnd, cols, n, file_safe):
    rows = []
    for _ in range(n):
        r = []
        for _, t in cols:
            if t == "int":
                r.append(rnd.choice(INTS))
            elif t == "str":
                r.append(rnd.choice(STRS_FILE if file_safe else STRS_TABLE))
            else:
                r.append(rnd.choice(BOOLS))
        rows.append(r)
    if file_safe and rows:
        # no all-NULL column (type inference of CSV/JSON readers is C09's subject)
        for j, (_, t) in enumerate(cols):
            if all(r[j] is None for r in rows):
                rows[0][j] = {"int": 3, "str": "kx", "bool": True}[t]
    return rows


def gen_frame(rnd, cols=None, file_safe=False, bad=False, nrows=None):
    cols = cols or rnd.choice(SCHEMAS)
    n = nrows if nrows is not None else rnd.choice([1, 1, 2, 3, 5] + ([] if file_safe else [0]))
    if bad:
        n = max(n, 1)
    rows = gen_rows(rnd, cols, n, file_safe)
    return frame(cols, rows, rnd.randrange(n) if bad else None)


FR_AB = frame([("a", "int"), ("b", "int")], [[1, 2]])
FR_BA = frame([("b", "int"), ("a", "int")], [[10, 20]])
FR_C = frame([("c", "bool")], [[True]])
FR_AS = frame([("a", "int"), ("s", "str")], [[1, "kx"], [2, None], [None, "px1"]])
FR_AS2 = frame([("a", "int"), ("s", "str")], [[7, "w"]])


def bad_of(fr, k=0):
    return {"cols": fr["cols"], "rows": fr["rows"], "bad": k}


def corpus():
    """the witnesses of the refutations in props/C14.v and shapes that failed in the past run first"""
    return [
        [["wpath", "p", "parquet", None, None, FR_AB], ["wpath", "p", "parquet", None, "overwrite", FR_BA], ["rpath", "p", "parquet"]],
        [["save", "t", "append", None, FR_AB], ["exists", "t"]],
        [["save", "t", None, None, FR_AB], ["save", "t", "append", None, FR_BA], ["rtable", "t"]],
        [["save", "t", None, None, FR_AB], ["rtable", "t"], ["save", "t", "overwrite", None, FR_C], ["rtable", "t"]],
        [["save", "t", None, None, FR_AB], ["insert", "t", True, FR_BA], ["rtable", "t"]],
        [["save", "t", None, None, FR_AB], ["rtable", "t"], ["save", "t", "overwrite", None, FR_BA], ["insert", "t", True, FR_AB]],
        [["wpath", "p", "parquet", None, None, FR_AB], ["wpath", "p", "parquet", "append", None, FR_AB]],
        [["wpath", "p", "csv", None, None, bad_of(FR_AB)], ["wpath", "p", "csv", None, None, FR_AB], ["rpath", "p", "csv"]],
        [["save", "t", None, None, FR_AS], ["rtable", "t"], ["drop", "t"], ["rtable", "t"], ["save", "t", None, None, FR_AS2],
         ["rtable", "t"], ["list"]],
        [["save", "t", None, None, FR_AS], ["rtable", "t"], ["drop", "t"], ["exists", "t"], ["exists", "t", "upper"], ["list"],
         ["get", "t"], ["gsave", "t", FR_AS2], ["rtable", "t"]],
    ]


def mode_pair_histories(tier):
    """bounded-exhaustive: every ordered pair of the six modes on one target, the mode given as argument or through
    .mode(), for a table and for each file format; (thorough: also every triple on a table and on parquet)"""
    out = []
    d1, d2, d3 = FR_AS, FR_AS2, frame([("a", "int"), ("s", "str")], [[9, "zebra9"], [None, "w"]])

    def w(target, m, how, fr):
        a, s = (m, None) if how == "arg" else (None, m)
        if target == "table":
            return ["save", "t", a, s, fr]
        return ["wpath", "p", target, a, s, fr]

    def r(target):
        return ["rtable", "t"] if target == "table" else ["rpath", "p", target]
    for target in ["table"] + FMTS:
        for how in ("arg", "self"):
            for m1 in MODES:
                for m2 in MODES:
                    if tier in ("quick", "record") and target != "table" and how == "self" and not (m1 is None or m2 == "overwrite"):
                        continue     # one row/column of the 6x6 table for .mode() on paths (all 36 for the keyword form)
                    if tier == "quick" and target in ("csv", "json") and m1 not in (None, "overwrite", "ignore"):
                        continue     # _write is shared by the formats: the full 6x6 table runs on parquet (and on tables)
                    h = [w(target, m1, how, d1), r(target), w(target, m2, how, d2), r(target)]
                    if target == "table":
                        h += [["exists", "t"], ["list"], ["cols", "t"], ["get", "t"]]
                    out.append(h)
    if tier == "thorough":
        for target in ("table", "parquet"):
            for how in ("arg", "self"):
                for m1 in MODES:
                    for m2 in MODES:
                        for m3 in MODES:
                            out.append([w(target, m1, how, d1), w(target, m2, how, d2), w(target, m3, how, d3), r(target)])
    return out


def fault_histories(rnd, tier):
    """a frame whose SELECT raises on row k (first, middle, last), written with each mode onto an absent and onto an
    existing target (table, each format), then the target is read and written again (session usable)"""
    out = []
    base = frame([("a", "int"), ("s", "str")], [[i, ["kx", "px1", "w"][i % 3]] for i in range(6)])
    for target in ["table"] + FMTS:
        for m in MODES:
            for pre in (False, True):
                ks = [0, 3, 5] if (tier == "thorough" or m in ("overwrite", "append", None)) else [rnd.choice([0, 3, 5])]
                for k in ks:
                    bad = bad_of(base, k)
                    h = []
                    if target == "table":
                        if pre:
                            h += [["save", "t", None, None, FR_AS], ["rtable", "t"]]
                        how = rnd.choice(["arg", "self"])
                        h += [["save", "t", m if how == "arg" else None, None if how == "arg" else m, bad],
                              ["rtable", "t"], ["exists", "t"], ["list"],
                              ["save", "t", "overwrite", None, FR_AS2], ["rtable", "t"]]
                    else:
                        if pre:
                            h += [["wpath", "p", target, None, None, FR_AS]]
                        h += [["wpath", "p", target, m, None, bad], ["rpath", "p", target],
                              ["wpath", "p", target, "overwrite", None, FR_AS2], ["rpath", "p", target]]
                    out.append(h)
    # insertInto / byName with a failing frame
    for by_name in (False, True):
        for k in (0, 5):
            out.append([["save", "t", None, None, FR_AS], ["rtable", "t"], ["insert", "t", by_name, bad_of(base, k)],
                        ["rtable", "t"], ["insert", "t", by_name, FR_AS2], ["rtable", "t"]])
    return out


EXISTS_VARIANTS = ["plain", "upper", "db", "dbarg", "full", "fullarg", "dbupper"]


def catalog_queries(n):
    """every catalog question about table n, in several spellings / letter cases / qualified forms"""
    return ([["exists", n, v] for v in EXISTS_VARIANTS]
            + [["list"], ["list", "db"], ["list", "full"]]
            + [["cols", n, v] for v in ("plain", "upper", "db", "dbarg", "full")]
            + [["get", n, v] for v in ("plain", "upper", "db", "full")])


def catalog_histories(tier):
    """bounded-exhaustive life cycles of a table: created (each creating mode), read through the session or not,
    asked about, DROPPED, asked again (every catalog query, every spelling), re-created behind the usual guard
    `if not tableExists`, asked again, read; a second table stays untouched throughout"""
    out = []
    for read_first in (True, False):
        for create in ([None, "overwrite", "ignore"] if tier == "quick" else MODES[:5]):
            for recreate in ("guard", "ignore", "error"):
                h = [["save", "u", None, None, FR_AB], ["save", "t", create, None, FR_AS]]
                if read_first:
                    h += [["rtable", "t"], ["rtable", "u"]]
                h += catalog_queries("t")[:3] + [["drop", "t"]] + catalog_queries("t")
                if recreate == "guard":
                    h += [["gsave", "t", FR_C]]
                else:
                    h += [["save", "t", recreate, None, FR_C]]
                h += [["exists", "t"], ["exists", "t", "upper"], ["list"], ["cols", "t"], ["get", "t"], ["rtable", "t"],
                      ["drop", "t"], ["drop", "t"], ["exists", "t"], ["exists", "u", "upper"], ["gsave", "u", FR_C], ["rtable", "u"]]
                # every other life cycle runs next to a table of the same name in another schema (other / same columns),
                # created before the table, and replaced once after the drop
                if len(out) % 2 == 0:
                    other = FR_FOREIGN if len(out) % 4 == 0 else FR_AS2
                    k = h.index(["drop", "t"])
                    h = [["foreign", "t", other]] + h[:k + 1] + [["foreign", "t", FR_FOREIGN]] + h[k + 1:]
                out.append(h)
    return out


FR_FOREIGN = frame([("x", "int"), ("y", "str"), ("z", "bool")], [[100, "other", True], [None, None, None]])
FR_V = frame([("v", "int"), ("a", "int")], [[5, 6]])


def namesake_histories(tier):
    """objects that share the table's NAME without being the table: a session temporary view (legitimately shadows
    session.table and shows in the catalog API, must not influence any write) and a table in another schema (must
    influence nothing).  Every mode x (argument | .mode()) x (table exists | not) with a temp view of that name; the
    guarded re-create; inserts positional and byName; the same next to staging.<name>; both together."""
    out = []
    plain = [["exists", "t"], ["exists", "t", "upper"], ["list"], ["cols", "t"], ["get", "t"], ["rtable", "t"]]
    for m in MODES:
        for how in ("arg", "self"):
            a, s_ = (m, None) if how == "arg" else (None, m)
            for pre in (False, True):
                h = ([["save", "t", None, None, FR_AS]] if pre else []) + [["tempview", "t", FR_V]]
                h += [["save", "t", a, s_, FR_AS2]] + plain
                h += [["gsave", "t", FR_AS], ["drop", "t"], ["exists", "t"], ["gsave", "t", FR_AS], ["rtable", "t"], ["drop", "t"],
                      ["exists", "t"], ["list"]]
                out.append(h)
                if how == "arg" or tier == "thorough":
                    g = [["foreign", "t", FR_FOREIGN if pre else FR_AS2]] + ([["save", "t", None, None, FR_AS]] if pre else [])
                    g += [["save", "t", a, s_, FR_AS2], ["rtable", "t"]] + catalog_queries("t")[:1] + [["cols", "t"], ["cols", "t", "upper"]]
                    g += [["insert", "t", True, frame([("s", "str"), ("a", "int")], [["w", 8]])], ["rtable", "t"], ["list"],
                          ["drop", "t"], ["exists", "t"], ["cols", "t"], ["get", "t"], ["gsave", "t", FR_C], ["rtable", "t"]]
                    out.append(g)
    # the view registered first / last, the guard alone, and everything together
    out.append([["tempview", "t", FR_V], ["gsave", "t", FR_AS], ["exists", "t"], ["list"], ["rtable", "t"]])
    out.append([["tempview", "t", FR_V], ["exists", "t"], ["list"], ["get", "t"], ["cols", "t"], ["rtable", "t"], ["drop", "t"]])
    out.append([["foreign", "t", FR_AS2], ["exists", "t"], ["list"], ["get", "t"], ["cols", "t"], ["rtable", "t"],
                ["insert", "t", False, FR_AS2], ["gsave", "t", FR_AS], ["rtable", "t"], ["cols", "t"]])
    out.append([["foreign", "t", FR_FOREIGN], ["save", "t", None, None, FR_AS], ["tempview", "u", FR_V], ["foreign", "u", FR_AS],
                ["save", "u", "ignore", None, FR_AB], ["rtable", "t"], ["rtable", "u"], ["list"], ["cols", "t"], ["cols", "u"],
                ["insert", "t", True, frame([("s", "str"), ("a", "int")], [["w", 8]])], ["rtable", "t"]])
    return out


def builder_histories(tier):
    """the writer's builder calls in every order: byName before / after mode() / format(), with a frame whose columns are
    a permutation of the target's; terminal calls insertInto, saveAsTable (append through .mode() or mode=) and a path
    write whose mode comes through the builder before / after format()"""
    import itertools
    out = []
    tab, perm, perm2 = FR_AB, FR_BA, frame([("b", "int"), ("a", "int")], [[30, 40]])
    pools = [["byName"], ["byName", ["mode", "append"]], ["byName", ["format", "parquet"]],
             ["byName", ["mode", "append"], ["format", "parquet"]], ["byName", ["mode", "error"], ["mode", "append"]]]
    seqs = []
    for pool in pools:
        for p in itertools.permutations(pool):
            if list(p) not in seqs:
                seqs.append(list(p))
    if tier == "quick":
        seqs = [q for q in seqs if len(q) <= 2] + [q for i, q in enumerate(seqs) if len(q) == 3 and i % 2 == 0]
    for calls in seqs:
        for read_first in ((False, True) if len(calls) <= 2 else (False,)):
            h = [["save", "t", None, None, tab]] + ([["rtable", "t"]] if read_first else [])
            h += [["binsert", calls, "t", perm], ["rtable", "t"]]
            has_mode = any(c != "byName" and c[0] == "mode" for c in calls)
            h += [["bsave", calls, "t", None if has_mode else "append", perm2], ["rtable", "t"], ["cols", "t"]]
            out.append(h)
    # the mode set through the builder must reach a path write whatever surrounds it
    for calls in ([["mode", "overwrite"], ["format", "csv"]], [["format", "csv"], ["mode", "overwrite"]],
                  ["byName", ["mode", "overwrite"]], [["mode", "overwrite"], "byName"], [["mode", "ignore"], ["format", "json"], "byName"]):
        out.append([["wpath", "p", "parquet", None, None, FR_AS], ["bwpath", calls, "p", "parquet", None, FR_AS2], ["rpath", "p", "parquet"]])
    # saveAsTable in the other modes on a byName writer (created / replaced / refused / ignored as without byName)
    for m in (None, "error", "ignore", "overwrite"):
        for calls in (["byName", ["mode", m]], [["mode", m], "byName"]):
            out.append([["bsave", calls, "t", None, tab], ["bsave", calls, "t", None, perm], ["rtable", "t"], ["exists", "t"]])
    return out


def reader_histories(tier):
    """one reader object (r = session.read) kept and re-used: files with other columns / other formats read one after the
    other through it must each come back as written (nothing of an earlier read may stick to the reader)"""
    out = []
    f3 = frame([("f", "bool"), ("a", "int"), ("s", "str")], [[True, 4, "kx"], [False, None, "w"]])
    for fmt in FMTS:
        for second in (FR_BA, FR_C, f3, frame([("s", "str"), ("a", "int")], [["px1", 9]])):
            out.append([["wpath", "p", fmt, None, None, FR_AS], ["wpath", "q", fmt, None, None, second],
                        ["rpath", "p", fmt, "kept"], ["rpath", "q", fmt, "kept"], ["rpath", "p", fmt, "kept"], ["rpath", "q", fmt]])
    for f1, f2 in (("csv", "json"), ("json", "parquet"), ("parquet", "csv")):
        out.append([["wpath", "p", f1, None, None, FR_AS], ["wpath", "q", f2, None, None, FR_BA], ["rpath", "q", f2, "kept"],
                    ["rpath", "p", f1, "kept"], ["wpath", "p", f1, "overwrite", None, FR_C], ["rpath", "p", f1, "kept"], ["rpath", "q", f2, "kept"]])
    return out


def random_history(rnd, max_writes=5):
    tables = ["t", "u"]
    paths = {"p": rnd.choice(FMTS), "q": rnd.choice(FMTS)}
    nwrites = rnd.randint(1, max_writes)
    ops = []
    # current believed columns per table, to make type-compatible inserts likely
    cur: dict[str, list] = {}
    viewed: set = set()
    writes = 0
    while writes < nwrites:
        x = rnd.random()
        if x < 0.34:
            n = rnd.choice(tables)
            m = rnd.choice(MODES)
            how = rnd.random()
            a, s = (m, None) if how < 0.45 else (None, m) if how < 0.9 else (m, rnd.choice(MODES))
            if (a if a is not None else s) == "append" and n not in cur and rnd.random() < 0.75:
                a, s = rnd.choice([(None, None), ("overwrite", None), (None, "ignore")])   # keep most histories going
            eff = a if a is not None else s
            cols = None
            if eff == "append" and n in cur and rnd.random() < 0.8:
                cols = list(cur[n])
                if rnd.random() < 0.3:
                    rnd.shuffle(cols)
            fr = gen_frame(rnd, cols=cols, bad=rnd.random() < 0.12)
            ops.append(["save", n, a, s, fr])
            if fr["bad"] is None and (n not in cur or eff == "overwrite"):
                cur[n] = list(fr["cols"])
            writes += 1
        elif x < 0.5:
            n = rnd.choice(tables)
            by_name = rnd.random() < 0.5
            cols = None
            if n in cur and rnd.random() < 0.85:
                cols = list(cur[n])
                if by_name and rnd.random() < 0.6:
                    rnd.shuffle(cols)
            fr = gen_frame(rnd, cols=cols, bad=rnd.random() < 0.12)
            if by_name and n in cur and rnd.random() < 0.7 and not (ops and ops[-1] == ["rtable", n]):
                ops.append(["rtable", n])
            ops.append(["insert", n, by_name, fr])
            writes += 1
        elif x < 0.72:
            key = rnd.choice(list(paths))
            m = rnd.choice(MODES)
            how = rnd.random()
            a, s = (m, None) if how < 0.8 else (None, m) if how < 0.9 else (m, rnd.choice(MODES))
            if (a if a is not None else s) == "append" and rnd.random() < 0.7:
                a, s = "overwrite", s
            fr = gen_frame(rnd, file_safe=rnd.random() < 0.93, bad=rnd.random() < 0.12)
            ops.append(["wpath", key, paths[key], a, s, fr])
            writes += 1
        elif x < 0.82:
            ops.append(["rtable", rnd.choice(tables)])
        elif x < 0.88:
            key = rnd.choice(list(paths))
            ops.append(["rpath", key, paths[key]] + (["kept"] if rnd.random() < 0.5 else []))
        elif x < 0.93:
            n = rnd.choice(tables)
            if n in cur and rnd.random() < 0.6:
                ops.append(["rtable", n])                      # dropped after the session has read it
            ops.append(["drop", n])
            cur.pop(n, None)
            qs = [q for q in catalog_queries(n) if n not in viewed or len(q) < 3 and q != ["list", "db"] and q != ["list", "full"]]
            ops += rnd.sample(qs, min(3, len(qs)))
            if rnd.random() < 0.5:
                fr = gen_frame(rnd)
                ops.append(["gsave", n, fr])
                cur[n] = list(fr["cols"])
                writes += 1
        elif x < 0.975:
            n = rnd.choice(tables + ["nope"])
            qs = catalog_queries(n)
            if n in viewed:        # qualified spellings of a name that is (also) a temporary view: not asked
                qs = [q for q in qs if (q[0] == "list" and len(q) == 1) or (q[0] != "list" and (len(q) < 3 or q[2] in ("plain", "upper")))]
            ops.append(rnd.choice(qs))
        elif x < 0.99:
            ops.append(["foreign", rnd.choice(tables), gen_frame(rnd, nrows=2)])
        else:
            n = rnd.choice(tables)
            ops.append(["tempview", n, gen_frame(rnd)])
            viewed.add(n)
    # observe everything at the end
    for n in tables:
        ops.append(["rtable", n])
    for key, f in paths.items():
        if any(o[0] == "wpath" and o[1] == key for o in ops):
            ops.append(["rpath", key, f] + (["kept"] if rnd.random() < 0.5 else []))
    ops += [["list"], ["exists", "t"], ["cols", "u"]]
    return ops


# ---- classification ----------------------------------------------------------------------------------------------

def eff(a, s):
    return a if a is not None else s


def signature(ops, obs, snaps, i) -> str:
    """shape predicate of the first step (index i) on which the implementation and the spec part"""
    o = ops[i]
    k = o[0]
    before = snaps[i - 1] if i > 0 else {"tabs": {}, "files": {}}
    after = snaps[i]
    # shadow of the add-if-absent schema cache: columns of a table when session.table first succeeded on it
    cache = {}
    for j in range(i):
        if ops[j][0] == "rtable" and obs[j][0] == "rows" and ops[j][1] not in cache:
            cache[ops[j][1]] = [c[0] for c in snaps[j]["tabs"].get(ops[j][1], ([], []))[0]]
    if k == "wpath":
        fr = o[5]
        if fr["bad"] is not None and not before["files"].get(o[1], False) and after["files"].get(o[1], False):
            return SIG_PARTIAL
        if eff(o[3], o[4]) == "append" and obs[i] == ["err", "ENotImpl"]:
            return SIG_PAPPEND
        if o[3] is None and o[4] is not None:
            return SIG_WMODE
    if k == "save" and eff(o[2], o[3]) == "append":
        if o[1] not in before["tabs"] and obs[i] == ["err", "EMissing"]:
            return SIG_APPEND_ABSENT
        if o[1] in before["tabs"] and [c[0] for c in o[4]["cols"]] != [c[0] for c in before["tabs"][o[1]][0]]:
            return SIG_APPEND_POS
    if k == "insert" and o[2] and o[1] in before["tabs"]:
        actual = [c[0] for c in before["tabs"][o[1]][0]]
        if o[1] not in cache:
            return SIG_BYNAME_UNCACHED
        if cache[o[1]] != actual:
            return SIG_BYNAME_STALE
    if k == "rtable" and o[1] in cache and o[1] in before["tabs"]:
        if cache[o[1]] != [c[0] for c in before["tabs"][o[1]][0]]:
            return SIG_STALE
    # the catalog API asked right after the step contradicts what the connection itself holds
    wrong = []
    viewed = {ops[j][1] for j in range(i + 1) if ops[j][0] == "tempview"}     # the catalog rightly reports temporary views
    for n, (ex, cols, got) in sorted(after.get("cat", {}).items()):
        if n in viewed:
            continue
        real = after["tabs"].get(n)
        if ex != (real is not None):
            wrong.append("tableExists")
        if got != (real is not None):
            wrong.append("getTable")
        if [list(c) for c in cols] != ([list(c) for c in real[0]] if real else []):
            wrong.append("listColumns")
    if sorted(after.get("listed", sorted(after["tabs"]))) != sorted(list(after["tabs"]) + sorted(viewed)):
        wrong.append("listTables")
    if wrong:
        return f"C14/catalog-contradicts-engine:{'+'.join(sorted(set(wrong)))}-after-{k}"
    return f"C14/{k}:{obs[i][0]}{'-' + obs[i][1] if obs[i][0] == 'err' else ''}-differs-from-spec"


def kinds_hist(ops, h):
    for o in ops:
        h[o[0]] = h.get(o[0], 0) + 1


# ---- large failing frames: what DuckDB leaves behind (the runtime half behind [atomic_at]) -------------------------

def big_fault_probes(scratch):
    """frames of 100k rows whose SELECT raises on the last row, so that output has been flushed before the error;
    observed directly (tables via the connection, files via the file system).  Not representable in the Coq model
    (no row-at-a-time engine there): reported as an observation of the environment assumption."""
    res = []
    im = Impl(os.path.join(scratch, "big"))
    try:
        F = im.F
        n = 100000
        im.conn.execute(f"create table big as select range as a, case when range = {n - 1} then 'boom' else '0' end as zz "
                        f"from range({n})")
        good = im.df(FR_AB)
        good.write.saveAsTable("t")
        before_t = im.conn.execute("select * from t").fetchall()

        def bigbad():
            return im.s.table("big").select((F.col("zz").cast("bigint") + F.col("a")).alias("a"), F.col("a").alias("b"))
        for m in ("overwrite", "append"):
            try:
                bigbad().write.mode(m).saveAsTable("t")
                raised = False
            except Exception:  # noqa: BLE001
                raised = True
            res.append({"target": "table", "mode": m, "raised": raised,
                        "intact": im.conn.execute("select * from t").fetchall() == before_t})
        for fmt in FMTS:
            p_old, p_new = im.path("old_" + fmt, fmt), im.path("new_" + fmt, fmt)
            getattr(good.write, fmt)(p_old)
            content = open(p_old, "rb").read()
            for p, label in ((p_old, "existing"), (p_new, "new")):
                try:
                    getattr(bigbad().write, fmt)(p, mode="overwrite")
                    raised = False
                except Exception:  # noqa: BLE001
                    raised = True
                if label == "existing":
                    intact = os.path.exists(p) and open(p, "rb").read() == content
                else:
                    intact = not os.path.exists(p)
                res.append({"target": f"{fmt}:{label}", "mode": "overwrite", "raised": raised, "intact": intact,
                            "left_bytes": os.path.getsize(p) if os.path.exists(p) else None})
        try:
            usable = [tuple(r) for r in im.s.table("t").collect()] == [tuple(r) for r in before_t]
        except Exception:  # noqa: BLE001
            usable = False
        res.append({"target": "session", "usable_after_all_failures": usable})
    finally:
        im.close()
    return res


# ---- main ------------------------------------------------------------------------------------------------------

def make_histories(ctx):
    rnd = random.Random(ctx.seed)
    hs = [("corpus", h) for h in corpus()]
    hs += [("catalog", h) for h in catalog_histories(ctx.tier)]
    hs += [("namesake", h) for h in namesake_histories(ctx.tier)]
    hs += [("builder", h) for h in builder_histories(ctx.tier)]
    hs += [("reader", h) for h in reader_histories(ctx.tier)]
    hs += [("pairs", h) for h in mode_pair_histories(ctx.tier)]
    hs += [("fault", h) for h in fault_histories(rnd, ctx.tier)]
    n_rand = 90 if ctx.tier == "quick" else 2500
    hs += [("random", random_history(rnd)) for _ in range(n_rand)]
    return hs


def refutations(ctx):
    """compile every block of props/C14_refuted.v on its own; {signature: refuted on the model?}"""
    import re
    from concurrent.futures import ThreadPoolExecutor
    src = open(core.COQ + "/props/C14_refuted.v").read()
    parts = re.split(r"\(\* ---- refutation: (\S+) ---- \*\)\n", src)
    header, rest = parts[0], parts[1:]
    jobs = []
    for k, (sig, block) in enumerate(zip(rest[0::2], rest[1::2])):
        path = os.path.join(ctx.build, "cases", f"C14_refuted_{k}.v")
        with open(path, "w") as f:
            f.write(header + "\n" + block)
        jobs.append((sig, path, core.count_obligations(path)))
    gate = core.grep_gate([core.COQ + "/props/C14_refuted.v"])
    if gate:
        ctx.broken("axiom-gate:C14_refuted.v", "; ".join(gate[:5]))
        return {}
    with ThreadPoolExecutor(max_workers=8) as ex:
        results = list(ex.map(lambda j: ctx.coqc(j[1]), jobs))
    out = {}
    for (sig, path, n), (rc, o, e, dt, cmd) in zip(jobs, results):
        out[sig] = rc == 0
        if rc == 0:     # a refutation that holds is a discharged obligation; one that does not is "defect gone", not a failure
            ctx.obligations += n
            ctx.discharged += n
            ctx.checker_cmds.append(cmd)
            for blk in core.parse_assumptions(o):
                ctx.assumptions_printed.append(f"C14_refuted.v[{sig}]: {blk}")
    return out


def load_recording():
    path = os.path.join(core.VERIF, "oracle", "c14_pyspark.jsonl")
    recs = []
    if os.path.exists(path):
        with open(path) as f:
            for line in f:
                if line.strip():
                    recs.append(json.loads(line))
    return recs


def run(ctx: core.Ctx):
    # ---- T1
    t1_ok = True
    try:
        text, facts = c14_facts.generate(core.REPO)
        ctx.gen("C14Facts", text, facts)
    except Exception as ex:  # fail-closed translator = broken proof obligation
        ctx.broken("T1:c14_facts", f"{type(ex).__name__}: {ex}")
        t1_ok = False
    # ---- proofs
    deps = ["Base/Val.v", "C14/Writer.v", "C14/WriterProof.v", "C14/Views.v", "C14/Builder.v", "C14/WriterCheck.v"]
    proved = False
    if t1_ok:
        proved = ctx.prove([ctx.build + "/gen/C14Facts.v", core.COQ + "/props/C14.v"], dep_theories=deps)
    refuted = {}
    if t1_ok and os.path.exists(ctx.build + "/gen/C14Facts.vo"):
        refuted = refutations(ctx)
        ctx.log("refuted on the model: " + ", ".join(f"{k.split('/')[1]}={'yes' if v else 'NO'}" for k, v in refuted.items()))
    if not t1_ok or not os.path.exists(ctx.build + "/gen/C14Facts.vo"):
        # the case files need Gen.C14Facts: fall back to the facts of the pinned source so that the search can run
        ctx.gen("C14Facts", open(core.VERIF + "/translate/c14_facts_pinned.v").read())
        ctx.coqc(ctx.build + "/gen/C14Facts.v")
    # ---- spec conformance: the Coq Spec against the PySpark 3.5.9 recording
    recs = load_recording()
    if recs:
        items = [case_coq(r["ops"], r["obs"], []) for r in recs]
        res = ctx.cases("c14spec", HEADER_SPEC, items, per_file=60, result_ty="str", fn="check")
        bad = [(r, v) for r, v in zip(recs, res) if v is None or "0" in v or len(v) != len(r["ops"])]
        if bad:
            r, v = bad[0]
            ctx.broken("spec-vs-pyspark", f"{len(bad)} recorded PySpark histories the Coq Spec does not reproduce; first: "
                       f"{[op_str(o) for o in r['ops']]} verdict per step {v} recorded {r['obs']}",
                       data=[{"ops": [op_str(o) for o in r["ops"]], "verdict": v, "pyspark": r["obs"]} for r, v in bad[:5]])
        ctx.log(f"spec conformance: {len(recs)} PySpark histories, {sum(len(r['ops']) for r in recs)} steps, {len(bad)} disagree")
    else:
        ctx.broken("spec-vs-pyspark", "oracle/c14_pyspark.jsonl is missing (re-record with oracle/record_c14.py)")
    if ctx.tier == "thorough" and recs:
        # re-record live (JVM, ~2-5 min) and compare with the vendored recording
        live = f"/var/tmp/c14_live_{os.getpid()}.jsonl"
        try:
            rc, out, err = core.sh([core.PY, os.path.join(core.VERIF, "oracle", "record_c14.py"), live], timeout=1500,
                                   env={**os.environ, "PYSPARK_PYTHON": core.PY})
            if rc == 0 and os.path.exists(live):
                now = [json.loads(x) for x in open(live) if x.strip()]

                def canon(r):
                    return json.dumps([[x[0], x[1], sorted(map(json.dumps, x[2]))] if x[0] == "rows" else
                                       ["names", sorted(x[1])] if x[0] == "names" else x for x in r["obs"]])
                drift = [i for i, (a, b) in enumerate(zip(recs, now)) if a["ops"] != b["ops"] or canon(a) != canon(b)]
                if drift or len(now) != len(recs):
                    ctx.broken("oracle-drift", f"live PySpark differs from oracle/c14_pyspark.jsonl on {len(drift)} histories "
                               f"(first index {drift[:1]}); lengths {len(now)}/{len(recs)}")
                ctx.coverage["pyspark_live_revalidated"] = len(now)
                ctx.log(f"live PySpark re-recording: {len(now)} histories, {len(drift)} differ from the vendored recording")
            else:
                ctx.log("live PySpark not available (recorder failed to start): vendored recording used: " + (err or out)[-300:])
                ctx.coverage["pyspark_live_revalidated"] = 0
        except Exception as ex:  # noqa: BLE001 -- the JVM is optional
            ctx.log(f"live PySpark not available: {type(ex).__name__}: {ex}")
            ctx.coverage["pyspark_live_revalidated"] = 0
        finally:
            if os.path.exists(live):
                os.remove(live)
    # ---- T3
    import logging
    logging.getLogger("sqlframe").setLevel(logging.ERROR)
    scratch = f"/var/tmp/c14_run_{os.getpid()}"
    shutil.rmtree(scratch, ignore_errors=True)
    hs = make_histories(ctx)
    t0 = time.time()
    runs = []
    hist_kind, hist_len, hist_src, hist_mode, hist_obs = {}, {}, {}, {}, {}
    seen = set()
    todo = []
    for idx, (src, ops) in enumerate(hs):
        key = json.dumps(ops, sort_keys=True)
        if key in seen:
            continue
        seen.add(key)
        todo.append((idx, src, ops))
    try:
        import multiprocessing
        from concurrent.futures import ProcessPoolExecutor
        with ProcessPoolExecutor(max_workers=8, mp_context=multiprocessing.get_context("spawn")) as ex:
            fbig = ex.submit(big_fault_probes, scratch)
            chunks = [todo[i::32] for i in range(32)]
            futs = [ex.submit(run_many, [(i, ops) for i, _, ops in ch], scratch) for ch in chunks if ch]
            done = {}
            for f in futs:
                done.update(f.result())
            big = fbig.result()
        for idx, src, ops in todo:
            obs, snaps, exc, notes = done[idx]
            runs.append({"src": src, "ops": ops, "obs": obs, "snaps": snaps, "exc": exc, "notes": notes})
            kinds_hist(ops, hist_kind)
            nw = sum(1 for o in ops if o[0] in ("save", "insert", "wpath", "gsave", "tempview", "binsert", "bsave", "bwpath"))
            hist_len[nw] = hist_len.get(nw, 0) + 1
            hist_src[src] = hist_src.get(src, 0) + 1
            for o in ops:
                if o[0] in ("save", "wpath"):
                    m = str(eff(*(o[2:4] if o[0] == "save" else o[3:5])))
                    hist_mode[m] = hist_mode.get(m, 0) + 1
            for ob in obs:
                kk = ob[0] + (":" + ob[1] if ob[0] == "err" else "")
                hist_obs[kk] = hist_obs.get(kk, 0) + 1
    finally:
        shutil.rmtree(scratch, ignore_errors=True)
    ctx.log(f"{len(runs)} histories, {sum(len(r['ops']) for r in runs)} steps run on DuckDBSession in {time.time() - t0:.1f}s")
    items = [xcase_coq(r["ops"], r["obs"], r["snaps"]) for r in runs]
    res = ctx.cases("c14", HEADER, items, per_file=40, result_ty="str", fn="check")
    # ---- decide
    dev_best: dict[str, dict] = {}
    dev_count: dict[str, int] = {}
    model_fail, thm_fail = [], []
    n_steps = n_dom_steps = n_dom_hist = n_judged = n_nontriv = n_model_exact = 0
    for r, v in zip(runs, res):
        ops, obs, snaps = r["ops"], r["obs"], r["snaps"]
        if v is None or len(v) != 8 * len(ops):
            if v is not None:
                ctx.broken("cases-shape", f"verdict of length {len(v)} for {len(ops)} steps")
            continue
        all_dom = True
        nontriv = False
        for i in range(len(ops)):
            im_o, im_s, sp_o, sp_s, dom, ms, judged, faithful = (c == "1" for c in v[8 * i:8 * i + 8])
            n_steps += 1
            all_dom = all_dom and dom
            n_dom_steps += dom and all_dom
            if proved and all_dom and not ms:
                thm_fail.append({"history": [op_str(o) for o in ops], "step": i, "verdict": v})
            off_model = faithful and not (im_o and im_s)
            if off_model:
                # the model is meant to be exact here, whether or not the spec is met
                model_fail.append({"history": [op_str(o) for o in ops], "step": i, "op": op_str(ops[i]), "impl": obs[i],
                                   "snapshot": snaps[i], "verdict": v[8 * i:8 * i + 8], "exceptions": r["exc"][-3:],
                                   "ops_json": ops, "also_differs_from_spec": not (sp_o and sp_s)})
            n_model_exact += faithful and not off_model
            if not (sp_o and sp_s):
                if judged:
                    sig = signature(ops, obs, snaps, i)
                    dev_count[sig] = dev_count.get(sig, 0) + 1
                    cand = {"ops": ops[:i + 1], "obs": obs[:i + 1], "snaps": snaps[:i + 1], "exc": r["exc"], "src": r["src"]}
                    if sig not in dev_best or len(cand["ops"]) < len(dev_best[sig]["ops"]):
                        dev_best[sig] = cand
                break      # after the first divergence from the spec the states differ: nothing further is judged
            if off_model:
                break
            n_judged += judged
            if ops[i][0] in ("rtable", "rpath") and obs[i][0] == "rows" and obs[i][2]:
                nontriv = True
        n_dom_hist += all_dom
        if nontriv and sum(1 for o in ops if o[0] in ("save", "insert", "wpath", "gsave")) >= 2:
            n_nontriv += 1
        if len(ctx.samples) < 4 and r["src"] == "random" and len(ops) >= 8:
            ctx.sample({"history": [op_str(o) for o in ops], "observed": [x if x[0] != "rows" else ["rows", x[1], len(x[2])] for x in obs],
                        "verdict_per_step(impl=model obs,state | impl=spec obs,state | in_domain | model=spec | judged | exact)":
                            [v[8 * i:8 * i + 8] for i in range(len(ops))]})
    noted = [r for r in runs if r["notes"]]
    if noted:
        r = min(noted, key=lambda r: r["notes"][0]["step"])
        k = r["notes"][0]["step"]
        ctx.deviation(SIG_TEMPVIEWS, f"{r['notes'][0]['call']} lists internal views ({len(noted)} histories of this run)",
                      {"history": [op_str(o) for o in r["ops"][:k + 1]], "ops_json": r["ops"][:k + 1], "noted": r["notes"][0],
                       "demanded": "listTables reflects exactly the tables created and dropped so far: the names of the "
                                   "TEMPORARY VIEWs that df.schema created must not appear"})
        dev_count[SIG_TEMPVIEWS] = len(noted)
    for sig, cand in sorted(dev_best.items()):
        term = listlit([yop_coq(o) for o in cand["ops"]])
        spec_says = ctx.coq_eval(HEADER, f"snd (y_s_run (s_init, []) {term})")
        model_says = ctx.coq_eval(HEADER, f"snd (y_m_run gen_cfg gen_bcfg (residue_of gen_cfg) (m_init, []) {term})")
        ctx.deviation(sig, f"{op_str(cand['ops'][-1])}: implementation and spec part on the last step "
                           f"({dev_count[sig]} histories of this run with this shape)",
                      {"history": [op_str(o) for o in cand["ops"]], "ops_json": cand["ops"],
                       "implementation_outcomes": cand["obs"], "tables_and_paths_after_last_step": cand["snaps"][-1],
                       "exceptions": cand["exc"][-4:], "spec_outcomes(coq)": spec_says[-1500:],
                       "model_outcomes(coq)": model_says[-1500:], "found_in": cand["src"]})
    # the refutations and the observed deviations must tell the same story
    for sig, holds in refuted.items():
        seen_dev = sig in dev_best or (sig == SIG_PARTIAL and any(b.get("intact") is False for b in big))
        if holds and not seen_dev:
            ctx.broken("refutation-not-reproduced", f"{sig}: refuted on the model, but no history of this run shows it on the "
                       "implementation (model no longer faithful, or the witness shapes are no longer generated)")
        if not holds and seen_dev:
            ctx.broken("finding-without-refutation", f"{sig}: observed on the implementation, but its refutation no longer "
                       "compiles against the regenerated facts")
        if not holds and not seen_dev:
            st = {k.get("signature"): k.get("status") for k in ctx.known}.get(sig)
            ctx.log(f"{sig}: not reproduced, neither on the model nor on the implementation "
                    + ("(listed as fixed: stays fixed)" if st == "fixed" else "(listed as known: fixed in the source?)"))
    ctx.coverage["refuted_on_model"] = refuted
    if model_fail:
        ctx.broken("T3:impl-vs-model", f"{len(model_fail)} histories where the implementation differs from the model inside the "
                   f"model's exact region; first: step {model_fail[0]['step']} {model_fail[0]['op']} of {model_fail[0]['history']}",
                   data=model_fail[:5])
    if thm_fail:
        ctx.broken("theorem-vs-evaluation", f"in-domain history where model and spec evaluate differently: {thm_fail[0]}")
    # the environment assumption behind C14_partial_faults, observed with large frames
    env_bad = [b for b in big if b.get("intact") is False]
    env_unexpected = [b for b in env_bad if not b["target"].endswith(":new")]
    if any(b.get("raised") is False for b in big) or not big[-1].get("usable_after_all_failures"):
        ctx.broken("fault-probe", f"large failing frame did not raise / session unusable: {big}")
    if env_unexpected:
        ctx.deviation("C14/failed-write-damages-existing-target", "a failed write with a large frame changed an existing target",
                      {"probes": big})
    if [b for b in env_bad if b["target"].endswith(":new")] and SIG_PARTIAL not in dev_best:
        ctx.deviation(SIG_PARTIAL, "a failed COPY of a large frame left a file at a path that did not exist", {"probes": big})
    ctx.coverage.update({
        "evaluations": n_steps, "histories": len(runs), "distinct_nontrivial": n_nontriv,
        "rule": "evaluation = one step of a history compared in Coq (outcome + direct snapshot of all tables/paths, vs model and "
                "vs spec); histories distinct by their full JSON text; non-trivial = at least two writes and at least one read "
                "that returned rows, all steps up to there agreeing with the spec",
        "steps_in_theorem_domain(prefix)": n_dom_steps, "histories_fully_in_domain": n_dom_hist,
        "steps_judged_against_spec": n_judged, "steps_in_model_exact_region": n_model_exact,
        "histogram_source": hist_src, "histogram_writes_per_history": hist_len, "histogram_operation_kind": hist_kind,
        "histogram_effective_mode": hist_mode, "histogram_outcome": hist_obs,
        "deviations_by_shape": dev_count, "pyspark_recorded_histories": len(recs),
        "large_frame_fault_probes": big,
    })
    ctx.assumptions += [
        "Writer.exec / Writer.copy are my definitions of DuckDB 1.2.2 on the emitted statements (CREATE [OR REPLACE] TABLE "
        "[IF NOT EXISTS] AS, INSERT INTO .. SELECT, DROP TABLE, COPY .. TO); validated by T3 only (direct SELECT after every step)",
        "statement atomicity of the engine: table statements are atomic by the definition of exec (observed, incl. 100k-row frames "
        "failing on the last row); for COPY it is the explicit premise atomic_at/atomic_stmt of the fault theorems -- the runtime "
        "half.  Observed: DuckDB keeps an existing file (writes tmp_<name>, renames) but leaves a truncated file at a NEW path "
        "(duckdb_residue); what is inside that file is not modelled",
        "Spec (s_step) is my reading of the property text / PySpark 3.5.9; validated against oracle/c14_pyspark.jsonl "
        "(recorded live by oracle/record_c14.py)",
        "CSV/JSON type and NULL inference on read is C09's subject: file round trips are claimed on file_safe frames only",
        "inserts whose column types differ position by position (value casts in the engine) are outside model, spec and judgement",
        "error classes compared for writes: already-exists / no-such-table / NotImplemented / other; for reads only error vs rows",
        "the harness resets _BaseSession._instance to give every history a fresh DuckDBSession on a fresh in-memory connection",
    ]
    ctx.trusted += ["translate/c14_facts.py (fail-closed ast translator), checks/c14.py harness (generators, canonicalisation)"]


def replay(ctx: core.Ctx, rp: dict) -> int:
    """re-run the history of a replay file on the current tree and print every outcome next to what the file recorded"""
    r = rp.get("replay") or (rp.get("no_longer_checks") or [{}])[0].get("data", [{}])[0]
    scratch = f"/var/tmp/c14_replay_{os.getpid()}"
    if "ops_json" not in r:          # the large-frame fault probes (no history in the op language)
        print("recorded:", r.get("probes"))
        try:
            print("now:     ", big_fault_probes(scratch))
        finally:
            shutil.rmtree(scratch, ignore_errors=True)
        return 0
    ops = r["ops_json"]
    import logging
    logging.getLogger("sqlframe").setLevel(logging.ERROR)
    obs, snaps, exc, notes = run_history(ops, scratch)
    if notes:
        print("internal temporary views shown by listTables:", notes)
    for o, ob in zip(ops, obs):
        print(f"{op_str(o)}\n    -> {ob}")
    print("tables/paths after the last step:", snaps[-1])
    print("exceptions:", exc)
    if "spec_outcomes(coq)" in r:
        print("spec demands:", " ".join(r["spec_outcomes(coq)"].split()))
    if "demanded" in r:
        print("demanded:", r["demanded"])
    return 0
